"""C35  Mellin inversion of the interpolation basis reproduces the x-space basis  -- PARTIAL check.

The inversion itself is adaptive QUADPACK quadrature along the Talbot contour: not encodable for a solver.
Decided here are the algebraic necessary conditions on the three anchored pieces, by symbolic execution of the
real functions with complex symbolic N, symbolic area limits / polynomial coefficients / path parameters:

 (a) log_evaluate_Nx: for one area [u_min, u_max] (u = ln x) with polynomial P(u) = sum_i c_i u^i the value is
     G(u_max) - G(u_min) with dG/du = exp(N (u - ln x)) P(u)   (forward-mode AD in the upper limit), i.e. the Mellin
     transform int x'^(N-1) P(ln x') dx' times x^(-N); the lower-limit term is dropped exactly when ln x >= u_min, the
     whole area exactly when ln x >= u_max, the value vanishes at coincident limits, areas add up.
 (b) evaluate_Nx (linear interpolation): d/dx_max = sum_i c_i x_max^(N+i-1) x^(-N), zero at coincident limits,
     same for the lower limit, x_min = 0 special case, skipping rule.
 (c) Talbot_jac == d Talbot_path / dt (AD; sin^2+cos^2=1 by the engine's atoms); the t = 1/2 special cases equal the
     limits t -> 1/2 (series expansion of the real code in t - 1/2); mellin.Path: jac = dn/dt, r > 0, the contour
     crosses the real axis right of N = 1 (axis offset) / N = 0 (no offset) for every ln x < 0, prefactor = -i/pi.
 (d) QuadKerBase.integrand == (-i/pi) * basis(N(t), ln x) * jac(t) with N(t), jac(t) from one and the same Path whose
     contour lies right of the sector's rightmost singularity (N = 1 for the singlet-like sectors, else N = 0).
"""
from fractions import Fraction

import numpy as realnp
import z3

from .common import *  # noqa
from symx.solver import prove_zero, prove_formula, prove_rel, assume_z3
from symx.poly import tofrac
from symx.val import EngineError
from symx import harness as H
from . import C34
from .C34 import explore, decide

MOD = "harness.C35"


# ---------------------------------------------------------------------------
def _jet_trig(x, kind):
    """sin / cos of a jet without constant term (series in the jet itself)"""
    if x.c and x.v < 1:
        raise EngineError("sin/cos of a jet with constant term not needed here")
    fact = [1]

    def ck(k):
        while len(fact) <= k:
            fact.append(fact[-1] * len(fact))
        if kind == "sin":
            return Fraction((-1) ** ((k - 1) // 2), fact[k]) if k % 2 else 0
        return Fraction((-1) ** (k // 2), fact[k]) if k % 2 == 0 else 0

    return x._series(x, ck)


class NP(shim.SymNumpy):
    def sin(self, x):
        return _jet_trig(x, "sin") if isinstance(x, Jet) else shim.SymNumpy.sin(x)

    def cos(self, x):
        return _jet_trig(x, "cos") if isinstance(x, Jet) else shim.SymNumpy.cos(x)

    def tan(self, x):
        if isinstance(x, Jet):
            return _jet_trig(x, "sin") / _jet_trig(x, "cos")
        return super().tan(x)


def _complex(re=0, im=0):
    if isinstance(re, Jet) or isinstance(im, Jet):
        return Jet.lift(re) + Jet.lift(im) * Cx(0, 1)
    from symx.val import sym_complex

    return sym_complex(re, im)


def load(quad=False):
    np_ = NP()
    ip = sym_module("eko.interpolation", np=np_)
    mel = sym_module("eko.mellin", np=np_)
    mel.complex = _complex
    qk = None
    if quad:
        qk = sym_module("eko.evolution_operator.quad_ker", np=np_)
        assert qk.mellin is mel and qk.interpolation is ip
    return ip, mel, qk


def _N():
    return Cx(SR.var("nr"), SR.var("ni"))


def _tan(z):
    """tangent (d/d seed) of a Cx as a Cx of plain values"""
    z = Cx.lift(z)
    return Cx(SR(z.re._dd()), SR(z.im._dd()))


def _plain(z):
    z = Cx.lift(z)
    return Cx(SR(z.re.v), SR(z.im.v))


def _P(cs, u):
    tot = SR(0)
    for i, c in enumerate(cs):
        tot = tot + c * u**i
    return tot


def _area(lo, hi, cs):
    return realnp.array([[lo, hi] + list(cs)], dtype=object)


# ---------------------------------------------------------------------------
def case_lognx(log, deg):
    ip, mel, _ = load()
    f = ip.log_evaluate_Nx
    log.encode(f)
    eps = ip._atol_eps
    rp = lambda **kw: (MOD, "replay_lognx", dict(kw, deg=deg))

    def run():
        N = _N()
        ulow, lx, umin = SR.var("ulow"), SR.var("lx"), SR.var("umin")
        umax = SR.var("umax", seed=True)
        cs = [SR.var("c%d" % i) for i in range(deg + 1)]
        for a, b in ((ulow, lx), (lx, umin), (umin, umax)):
            assume(b - a - eps, ">0")
        assume(-umax - eps, ">0")  # x_max < 1 here; the top node x = 1 is case_lognx_top
        full = Cx.lift(f(N, lx, _area(umin, umax, cs)))
        Gmax = Cx.lift(f(N, lx, _area(ulow, umax, cs)))
        Gmin = Cx.lift(f(N, lx, _area(ulow, umin.novar(), cs)))
        v = prove_zero(_tan(Gmax) - _plain((N * (umax - lx)).exp() * _P(cs, umax)), "d/du_max log_evaluate_Nx == exp(N(u_max - ln x)) P(u_max)  (degree %d)" % deg)
        decide(log, v, key="log_evaluate_Nx:derivative", replay=rp(kind="partial"), sampler=_sampler)
        v = prove_zero(_plain(full) - (_plain(Gmax) - _plain(Gmin)), "log_evaluate_Nx on [u_min,u_max] == G(u_max) - G(u_min) for ln x < u_min")
        decide(log, v, key="log_evaluate_Nx:difference", replay=rp(kind="full"), sampler=_sampler)
        v = prove_zero(_tan(full) - _tan(Gmax), "d/du_max of the full expression == d/du_max G(u_max)")
        decide(log, v, key="log_evaluate_Nx:derivative", replay=rp(kind="full"), sampler=_sampler)
        zero = Cx.lift(f(N, lx, _area(umin, umin, cs)) + SR(0))
        v = prove_zero(_plain(zero), "log_evaluate_Nx vanishes for coincident limits")
        decide(log, v, key="log_evaluate_Nx:zero", replay=rp(kind="zero"), sampler=_sampler)
        # inversion point above the area: skipped
        lx2 = SR.var("lx2")
        assume(lx2 - umax, ">=0")
        sk = Cx.lift(f(N, lx2, _area(umin, umax, cs)) + SR(0))
        v = prove_zero(_plain(sk), "area skipped (value 0) for ln x >= u_max")
        decide(log, v, key="log_evaluate_Nx:skip", replay=rp(kind="skip"), sampler=_sampler)
        # two areas add up
        cs2 = [SR.var("d%d" % i) for i in range(deg + 1)]
        two = realnp.array([[umin, umax] + cs, [ulow, umin] + cs2], dtype=object)
        both = Cx.lift(f(N, lx, two))
        sep = full + Cx.lift(f(N, lx, _area(ulow, umin, cs2)))
        v = prove_zero(_plain(both) - _plain(sep), "log_evaluate_Nx is additive over areas")
        decide(log, v, key="log_evaluate_Nx:additive", replay=rp(kind="full"), sampler=_sampler)
        log.twin("ordering of limits")
        log.collect_ctx()

    _r, pm = explore(run)
    log.path_stats(pm)
    _validate(log, ip, "log", deg)


def case_lognx_multi(log, deg, nareas, top=False):
    """a basis function's area list as the dispatcher builds it: adjacent areas in ascending order, each with its own
    polynomial; the inversion point ln x is a free symbol whose position relative to the nodes forks through every case
    (below all areas, inside / at the lower node of each area, above).  Goal: the value is the sum of the single-area
    values (which the other cases decide), i.e. no state leaks from one area to the next."""
    ip, mel, _ = load()
    f = ip.log_evaluate_Nx
    log.encode(f)
    eps = ip._atol_eps
    seen = set()

    def run():
        N = _N()
        lx = SR.var("lx")
        us = [SR.var("u%d" % k) for k in range(nareas + 1)]
        if top:
            us[-1] = 0.0
        for a, b in zip(us, us[1:]):
            assume(b - a - eps, ">0")
        if not top:
            assume(-us[-1] - eps, ">0")
        assume(lx, "<0")
        rows = []
        for a in range(nareas):
            rows.append([us[a], us[a + 1]] + [SR.var("c%d_%d" % (a, i)) for i in range(deg + 1)])
        allv = Cx.lift(f(N, lx, realnp.array(rows, dtype=object)) + SR(0))
        tot = Cx(0, 0)
        active = []
        for a in range(nareas):
            one = f(N, lx, realnp.array([rows[a]], dtype=object))
            active.append(not isinstance(one, float))
            tot = tot + Cx.lift(one + SR(0))
        seen.add(tuple(active))
        v = prove_zero(_plain(allv) - _plain(tot), "log_evaluate_Nx over %d adjacent areas == sum of the single-area values (areas contributing on this path: %s)"
                       % (nareas, "".join("x" if a else "-" for a in active)))
        decide(log, v, key="log_evaluate_Nx:areas-independent", replay=(MOD, "replay_lognx_multi", {"deg": deg, "nareas": nareas, "top": top}),
               sampler=_multi_sampler(nareas, top), candidates=_multi_candidates(nareas, top))
        log.twin("ordering of nodes")
        log.collect_ctx()

    _r, pm = explore(run, max_paths=2000)
    log.path_stats(pm)
    if len(seen) < nareas + 1:
        log.inconclusive.append("multi-area: expected ln x to fork through at least %d positions, saw %r" % (nareas + 1, sorted(seen)))


def _multi_grid(nareas, top):
    return [Fraction(-(nareas - k)) - (0 if top else Fraction(1, 2)) for k in range(nareas + 1)]


def _multi_candidates(nareas, top):
    us = _multi_grid(nareas, top)
    out = []
    for k in range(nareas):
        for lx in (us[k], us[k] + Fraction(3, 10)):  # at the lower node of area k / inside it
            p = {"u%d" % i: u for i, u in enumerate(us)}
            p["lx"] = lx
            out.append(p)
    return out


def _multi_sampler(nareas, top):
    def s(rng):
        us = _multi_grid(nareas, top)
        p = {"u%d" % i: u for i, u in enumerate(us)}
        p["lx"] = us[0] - 1 + (us[-1] - us[0] + 1) * Fraction(rng.randint(1, 999), 1000)
        return p

    return s


def case_lognx_top(log, deg):
    """area ending at the top node x = 1 (u_max = 0 exactly: the `|N u_max| < eps and k == 0` branch)"""
    ip, mel, _ = load()
    f = ip.log_evaluate_Nx
    log.encode(f)
    eps = ip._atol_eps

    def run():
        N = _N()
        ulow, lx = SR.var("ulow"), SR.var("lx")
        umin = SR.var("umin", seed=True)
        cs = [SR.var("c%d" % i) for i in range(deg + 1)]
        for a, b in ((ulow, lx), (lx, umin)):
            assume(b - a - eps, ">0")
        assume(-umin - eps, ">0")
        full = Cx.lift(f(N, lx, _area(umin, 0.0, cs)))
        Gtop = Cx.lift(f(N, lx, _area(ulow, 0.0, cs)))
        Gmin = Cx.lift(f(N, lx, _area(ulow, umin, cs)))
        v = prove_zero(_tan(full) + _plain((N * (umin - lx)).exp() * _P(cs, umin)), "d/du_min log_evaluate_Nx([u_min, 0]) == -exp(N(u_min - ln x)) P(u_min)")
        decide(log, v, key="log_evaluate_Nx:derivative", replay=(MOD, "replay_lognx", {"deg": deg, "kind": "top"}), sampler=_sampler)
        v = prove_zero(_plain(full) - (_plain(Gtop) - _plain(Gmin)), "log_evaluate_Nx([u_min, 0]) == G(0) - G(u_min)")
        decide(log, v, key="log_evaluate_Nx:difference", replay=(MOD, "replay_lognx", {"deg": deg, "kind": "top"}), sampler=_sampler)
        # G(0) = exp(-N ln x) * sum_i c_i i! (-1)^i / N^(i+1)   (only the k = 0 term survives at u = 0)
        want = Cx(0, 0)
        fact = 1
        for i, c in enumerate(cs):
            fact = fact * max(i, 1)
            want = want + c * fact * (-1) ** i / N ** (i + 1)
        want = want * (N * (0 - lx)).exp()
        v = prove_zero(_plain(Gtop) - _plain(want), "G(0) == x^(-N) sum_i c_i (-1)^i i! / N^(i+1)")
        decide(log, v, key="log_evaluate_Nx:top-node", replay=(MOD, "replay_lognx", {"deg": deg, "kind": "top"}), sampler=_sampler)
        log.twin("ordering of limits")
        log.collect_ctx()

    _r, pm = explore(run)
    log.path_stats(pm)


def case_nx(log, deg):
    ip, mel, _ = load()
    f = ip.evaluate_Nx
    log.encode(f)
    rp = lambda **kw: (MOD, "replay_nx", dict(kw, deg=deg))

    def integrand(N, x, lnx, lx, cs):
        tot = Cx(0, 0)
        for i, c in enumerate(cs):
            tot = tot + (N * (lnx - lx) + i * lnx).exp() * c
        return tot * (1 / x)

    def run():
        N = _N()
        lx = SR.var("lx")
        cs = [SR.var("c%d" % i) for i in range(deg + 1)]
        for seed_hi in (True, False):
            xmin = SR.var("xmin", seed=not seed_hi)
            xmax = SR.var("xmax", seed=seed_hi)
            assume(xmin, ">0")
            assume(xmax - xmin, ">0")
            lmin, lmax = xmin.log(), xmax.log()
            assume(lmax - lmin, ">0")
            assume(lmin - lx, ">0")
            res = Cx.lift(f(N, lx, _area(xmin, xmax, cs)))
            if seed_hi:
                v = prove_zero(_tan(res) - _plain(integrand(N, xmax, lmax, lx, cs)), "d/dx_max evaluate_Nx == sum_i c_i x_max^(N+i-1) x^(-N)  (degree %d)" % deg)
            else:
                v = prove_zero(_tan(res) + _plain(integrand(N, xmin, lmin, lx, cs)), "d/dx_min evaluate_Nx == -sum_i c_i x_min^(N+i-1) x^(-N)")
            decide(log, v, key="evaluate_Nx:derivative", replay=rp(kind="full"), sampler=_sampler)
        xmin, xmax = SR.var("xmin"), SR.var("xmax")
        zero = Cx.lift(f(N, lx, _area(xmin, xmin, cs)) + SR(0))
        v = prove_zero(_plain(zero), "evaluate_Nx vanishes for coincident limits")
        decide(log, v, key="evaluate_Nx:zero", replay=rp(kind="zero"), sampler=_sampler)
        lx2 = SR.var("lx2")
        assume(lx2 - xmax.log(), ">=0")
        sk = Cx.lift(f(N, lx2, _area(xmin, xmax, cs)) + SR(0))
        v = prove_zero(_plain(sk), "area skipped (value 0) for ln x >= ln x_max")
        decide(log, v, key="evaluate_Nx:skip", replay=rp(kind="skip"), sampler=_sampler)
        # x_min = 0: lower limit contributes nothing; value == sum_i c_i x_max^(N+i)/(N+i) x^(-N)
        r0 = Cx.lift(f(N, lx, _area(0.0, xmax, cs)))
        want = Cx(0, 0)
        lmax = xmax.log()
        for i, c in enumerate(cs):
            want = want + (N * (lmax - lx) + i * lmax).exp() * c / (N + i)
        v = prove_zero(_plain(r0) - _plain(want), "evaluate_Nx with x_min = 0 == sum_i c_i x_max^(N+i)/(N+i) x^(-N)")
        decide(log, v, key="evaluate_Nx:xmin0", replay=rp(kind="xmin0"), sampler=_sampler)
        log.twin("ordering of limits")
        log.collect_ctx()

    _r, pm = explore(run)
    log.path_stats(pm)
    _validate(log, ip, "lin", deg)


def case_talbot(log):
    ip, mel, _ = load()
    log.encode(mel.Talbot_path, mel.Talbot_jac, mel.Path)
    seen = {"generic": 0, "half": 0}

    def run():
        t = SR.var("t", seed=True)
        r, o = SR.var("r"), SR.var("o")
        assume(t, ">0")
        assume(1 - t, ">0")
        assume(r, ">0")
        p = Cx.lift(mel.Talbot_path(t, r, o))
        j = Cx.lift(mel.Talbot_jac(t, r, o))
        # at_half: the path condition says t == 1/2 (the code's special case); decided below through the limit
        at_half = S.check(S.context_constraints() + [S.poly_to_z3((t - Fraction(1, 2)).v.n) != 0])[0] == "unsat"
        if at_half:
            seen["half"] += 1
            lim_p, lim_j = _talbot_limit(mel, r, o)
            for nm, val, lim in (("Talbot_path", p, lim_p), ("Talbot_jac", j, lim_j)):
                if lim is None:
                    v = prove_formula(z3.BoolVal(False), "%s(t) has a finite limit for t -> 1/2 (the series of the real code has a pole)" % nm)
                else:
                    v = prove_zero(_plain(val) - lim, "%s(1/2) == lim_{t->1/2} %s(t)  (series of the real code in t - 1/2)" % (nm, nm))
                decide(log, v, key="%s:t=1/2" % nm, replay=(MOD, "replay_talbot", {"half": True}), sampler=_sampler)
        else:
            seen["generic"] += 1
            v = prove_zero(_tan(p) - _plain(j), "d Talbot_path/dt == Talbot_jac  (t != 1/2)")
            decide(log, v, key="Talbot_jac:derivative", replay=(MOD, "replay_talbot", {"half": False}), sampler=_sampler)
            # the dispatcher class: whatever r(ln x) and o it chooses (any r > 0 is a valid contour), n and jac must belong to
            # the same contour and the contour must cross the real axis to the right of the rightmost singularity
            # (N = 1 with the axis offset requested for singlet-like kernels, N = 0 without)
            lx = SR.var("lx")
            assume(lx, "<0")
            for off in (True, False):
                P = mel.Path(t, lx, off)
                v = prove_zero(_tan(Cx.lift(P.n)) - _plain(P.jac), "d Path.n/dt == Path.jac (axis offset %s)" % off)
                decide(log, v, key="Path:jac", replay=(MOD, "replay_path", {"off": off}), sampler=_sampler)
                # documented contour (module docstring of eko.mellin): p(t) = o + r (theta cot theta + i theta) with o = 1 for the
                # singlet sector and o = 0 for the non-singlet one; r(ln x) > 0 is the code's (regularised) choice and is not pinned
                o_doc = 1 if off else 0
                v = prove_zero(_plain(Cx.lift(P.n)) - _plain(Cx.lift(mel.Talbot_path(t, P.r, o_doc))), "Path.n == Talbot_path(t, r, %d): the documented contour (axis offset %s)" % (o_doc, off))
                decide(log, v, key="Path:n", replay=(MOD, "replay_path", {"off": off}), sampler=_sampler)
                v = prove_zero(_plain(Cx.lift(P.jac)) - _plain(Cx.lift(mel.Talbot_jac(t, P.r, o_doc))), "Path.jac == Talbot_jac(t, r, %d)" % o_doc)
                decide(log, v, key="Path:jac", replay=(MOD, "replay_path", {"off": off}), sampler=_sampler)
                v = prove_rel(SR(0) + P.r, ">0", "Path.r > 0 for every ln x < 0")
                decide(log, v, key="Path:r", replay=(MOD, "replay_path", {"off": off}), sampler=_sampler)
                cross = Cx.lift(mel.Path(0.5, lx, off).n)
                v = prove_rel(cross.re - (1 if off else 0), ">0", "contour crosses the real axis right of N = %d (axis offset %s) for every ln x < 0" % (1 if off else 0, off))
                decide(log, v, key="Path:crossing", replay=(MOD, "replay_path", {"off": off}), sampler=_sampler)
                v = prove_zero(cross.im, "Path.n is real at t = 1/2")
                decide(log, v, key="Path:crossing", replay=(MOD, "replay_path", {"off": off}), sampler=_sampler)
                pf = Cx.lift(P.prefactor)
                v = prove_zero(pf.re, "Re Path.prefactor == 0")
                decide(log, v, key="Path:prefactor", replay=(MOD, "replay_path", {"off": off}), sampler=_sampler)
                for rel, sgn in ((">=0", 1), ("<=0", -1)):  # a float quotient: equal to -1/pi up to one rounding
                    v = prove_rel(pf.im * realnp.pi + 1 + sgn * 1e-15, rel, "Im Path.prefactor * pi == -1 within 1e-15 (%s)" % rel)
                    decide(log, v, key="Path:prefactor", replay=(MOD, "replay_path", {"off": off}), sampler=_sampler)
        log.twin("0 < t < 1")
        log.collect_ctx()

    _r, pm = explore(run)
    log.path_stats(pm)
    if not (seen["generic"] and seen["half"]):
        log.inconclusive.append("Talbot: both the generic and the t = 1/2 path must be explored, got %r" % seen)


def _talbot_limit(mel, r, o):
    """constant terms of the series of the real Talbot_path / Talbot_jac at t = 1/2 + lam/(2 pi); poles must cancel"""
    jetmod.set_cap(6)
    lam = Jet.lam()
    t = lam * (1 / (2 * Fraction(tofrac(realnp.pi)))) + Fraction(1, 2)  # theta = np.pi * (2 t - 1) == lam
    out = []
    for fn in (mel.Talbot_path, mel.Talbot_jac):
        J = Jet.lift(fn(t, r.novar(), o.novar()))
        if J.c and J.v < 0:
            out.append(None)  # pole: no finite limit
            continue
        out.append(_plain(Cx.lift(J.coef(0))))
    return out


SINGLET_LIKE = {100: "S", 21: "g", 22: "photon", 101: "Sdelta", 90: "matching h+"}
NONSINGLET = {200: "V", 10200: "Vu/ns", 10204: "ns-u", 10100: "ns+", 10101: "ns-", 10104: "ns+d", 91: "matching h-"}


class _Recorder:
    """stands in for the `interpolation` module inside quad_ker's namespace: evaluate_grid returns an opaque complex
    symbol (the function itself is decided by the log_evaluate_Nx / evaluate_Nx / dispatch cases) and records its arguments"""

    def __init__(self, real):
        self._real = real
        self.calls = []

    def evaluate_grid(self, N, is_log, logx, areas):
        self.calls.append((N, is_log, logx, areas))
        return Cx(SR.var("pj_re"), SR.var("pj_im"))

    def __getattr__(self, name):
        return getattr(self._real, name)


def case_integrand(log, is_log, mode0):
    ip, mel, qk = load(quad=True)
    log.encode(qk.QuadKerBase.__init__, qk.QuadKerBase.integrand, mel.Path)
    offset = mode0 in SINGLET_LIKE
    seen = {"product": 0, "shortcut": 0}
    rp = (MOD, "replay_integrand", {"is_log": is_log, "mode0": mode0})
    tag = "QuadKerBase(mode0=%d, is_log=%s)" % (mode0, is_log)

    def run():
        u = SR.var("t")
        lx = SR.var("lx")
        assume(u - 0.5, ">0")
        assume(1 - u, ">0")
        assume(lx, "<0")
        areas = _area(SR.var("lo"), SR.var("hi"), [SR.var("c0"), SR.var("c1")])
        rec = _Recorder(ip)
        qk.interpolation = rec
        try:
            kb = qk.QuadKerBase(u, is_log, lx, mode0)
            got = kb.integrand(areas)
            n_prop = kb.n
        finally:
            qk.interpolation = ip
        pole = 1 if offset else 0  # rightmost singularity of the sector's kernels
        P = kb.path
        Nn = Cx.lift(P.n)
        jac = Cx.lift(P.jac)
        if len(rec.calls) != 1:
            raise EngineError("evaluate_grid called %d times" % len(rec.calls))
        cN, clog, clx, careas = rec.calls[0]
        pj = Cx(SR.var("pj_re"), SR.var("pj_im"))
        v = prove_zero(_plain(Cx.lift(cN)) - _plain(Nn), "%s: basis evaluated on the contour point Path.n that also provides the jacobian" % tag)
        decide(log, v, key="QuadKerBase.integrand:contour", replay=rp, sampler=_sampler)
        v = prove_zero(_plain(Nn) - _plain(Cx.lift(mel.Talbot_path(u, P.r, pole))), "%s: N(t) == Talbot_path(t, r, %d), the documented %s contour" % (tag, pole, "singlet" if offset else "non-singlet"))
        decide(log, v, key="QuadKerBase.path:contour", replay=rp, sampler=_sampler)
        v = prove_zero(_plain(Cx.lift(n_prop)) - _plain(Nn), "%s.n == its Path.n" % tag)
        decide(log, v, key="QuadKerBase.n", replay=rp, sampler=_sampler)
        cross = Cx.lift(qk.QuadKerBase(0.5, is_log, lx, mode0).n)
        v = prove_rel(cross.re - pole, ">0", "%s: contour crosses the real axis right of the sector's rightmost singularity N = %d for every ln x < 0" % (tag, pole))
        decide(log, v, key="QuadKerBase.path:crossing", replay=rp, sampler=_sampler)
        v = prove_formula(z3.BoolVal(bool(clog is is_log and careas is areas)), "%s: is_log and the area configuration are handed to evaluate_grid unchanged" % tag)
        decide(log, v, key="QuadKerBase.integrand:arguments", replay=rp, sampler=_sampler)
        v = prove_zero(clx - lx, "%s: inversion point handed to evaluate_grid unchanged" % tag)
        decide(log, v, key="QuadKerBase.integrand:arguments", replay=rp, sampler=_sampler)
        want = Cx.lift(complex(0.0, -1.0 / realnp.pi)) * pj * jac  # the value of the constant is decided in case_talbot
        seen["shortcut" if isinstance(got, float) else "product"] += 1
        v = prove_zero(_plain(Cx.lift(got + SR(0))) - _plain(want), "%s.integrand == (-i/pi) * basis * jac(t)%s" % (tag, " (literal 0.0 returned: basis == 0)" if isinstance(got, float) else ""))
        decide(log, v, key="QuadKerBase.integrand:product", replay=rp, sampler=_sampler)
        # at the last grid point x = 1 nothing is integrated
        k1 = qk.QuadKerBase(u, is_log, 0.0, mode0)
        v = prove_zero(Cx.lift(k1.integrand(areas) + SR(0)), "integrand == 0 for ln x == 0")
        decide(log, v, key="QuadKerBase.integrand:x=1", replay=(MOD, "replay_integrand", {"is_log": is_log, "mode0": mode0, "top": True}), sampler=_sampler)
        log.twin("domain")
        log.collect_ctx()

    _r, pm = explore(run)
    log.path_stats(pm)
    if not (seen["product"] and seen["shortcut"]):
        log.inconclusive.append("integrand: both the generic and the vanishing-basis path must be explored, got %r" % seen)


def case_dispatch(log, deg):
    """evaluate_grid selects log_evaluate_Nx / evaluate_Nx by is_log"""
    ip, mel, _ = load()
    log.encode(ip.evaluate_grid)

    def run():
        N = _N()
        lx = SR.var("lx")
        cs = [SR.var("c%d" % i) for i in range(deg + 1)]
        umin, umax = SR.var("umin"), SR.var("umax")
        assume(umin - lx - ip._atol_eps, ">0")
        assume(umax - umin - ip._atol_eps, ">0")
        assume(-umax - ip._atol_eps, ">0")
        a = _area(umin, umax, cs)
        v = prove_zero(_plain(Cx.lift(ip.evaluate_grid(N, True, lx, a))) - _plain(Cx.lift(ip.log_evaluate_Nx(N, lx, a))), "evaluate_grid(is_log=True) == log_evaluate_Nx")
        decide(log, v, key="evaluate_grid:dispatch", replay=(MOD, "replay_dispatch", {"deg": deg}), sampler=_sampler)
        xmin, xmax = SR.var("xmin"), SR.var("xmax")
        assume(xmin, ">0")
        assume(xmax - xmin, ">0")
        assume(xmax.log() - xmin.log(), ">0")
        assume(xmin.log() - lx, ">0")
        a = _area(xmin, xmax, cs)
        v = prove_zero(_plain(Cx.lift(ip.evaluate_grid(N, False, lx, a))) - _plain(Cx.lift(ip.evaluate_Nx(N, lx, a))), "evaluate_grid(is_log=False) == evaluate_Nx")
        decide(log, v, key="evaluate_grid:dispatch", replay=(MOD, "replay_dispatch", {"deg": deg}), sampler=_sampler)
        log.twin("domain")

    _r, pm = explore(run)
    log.path_stats(pm)


# ---------------------------------------------------------------------------
def _sampler(rng):
    umax = -rnd(rng, 0.2, 1.0)
    umin = umax - rnd(rng, 0.3, 1.5)
    lx = umin - rnd(rng, 0.2, 1.0)
    ulow = lx - rnd(rng, 0.2, 1.0)
    p = {"nr": rnd(rng, 0.5, 3.0), "ni": rnd(rng, -3, 3), "umax": umax, "umin": umin, "lx": lx, "ulow": ulow, "lx2": umax + rnd(rng, 0.01, 0.1),
         "xmin": rnd(rng, 0.2, 0.4), "xmax": rnd(rng, 0.5, 0.9), "t": rnd(rng, 0.55, 0.95), "r": rnd(rng, 0.3, 3), "o": Fraction(rng.randint(0, 1))}
    if rng.random() < 0.4:  # way parameters next to the saddle point t = 1/2 (any special treatment of small theta lives there)
        p["t"] = Fraction(1, 2) + rng.choice((-1, 1)) * Fraction(rng.randint(2, 100), 10 ** rng.choice((4, 5, 6)))
    for i in range(6):
        p["c%d" % i] = rnd(rng, -2, 2)
        p["d%d" % i] = rnd(rng, -2, 2)
    if rng.random() < 0.5:  # inversion points down to x ~ 1e-6 (the smallest x_min of the property's domain)
        shift = rnd(rng, 3, 10)
        for k in ("umax", "umin", "lx", "ulow", "lx2"):
            p[k] = p[k] - shift
    return p


class _ConcretePath:
    def __init__(self, point):
        self.env = S.NumEnv(point)
        self.pc = []

    def decide(self, b):
        val = self.env.value(b.p)
        r = {"<0": val < 0, "<=0": val <= 0, ">0": val > 0, ">=0": val >= 0, "==0": val == 0, "!=0": val != 0}[b.rel]
        self.pc.append(b if r else b.negate())
        return bool(r)


def _validate(log, ip, which, deg):
    """symbolic result evaluated at a point == the real function on floats"""
    real = real_module("eko.interpolation")
    for _ in range(3):
        pt = _sampler(log.rng)
        ctx.reset()
        ctx.path = _ConcretePath(pt)
        try:
            N = _N()
            cs = [SR.var("c%d" % i) for i in range(deg + 1)]
            if which == "log":
                sym = ip.log_evaluate_Nx(N, SR.var("lx"), _area(SR.var("umin"), SR.var("umax"), cs))
            else:
                sym = ip.evaluate_Nx(N, SR.var("lx"), _area(SR.var("xmin"), SR.var("xmax"), cs))
            sv = complex(S.NumEnv(pt).value(Cx.lift(sym)))
        finally:
            ctx.path = None
        f = fpoint(pt)
        Nf = complex(f["nr"], f["ni"])
        cf = [f["c%d" % i] for i in range(deg + 1)]
        if which == "log":
            num = real.log_evaluate_Nx(Nf, f["lx"], realnp.array([[f["umin"], f["umax"]] + cf]))
        else:
            num = real.evaluate_Nx(Nf, f["lx"], realnp.array([[f["xmin"], f["xmax"]] + cf]))
        if abs(sv - num) > 1e-9 * max(1, abs(num)):
            log.inconclusive.append("translator validation failed (%s_evaluate_Nx deg %d): symbolic %r vs float %r" % (which, deg, sv, num))
        log.validate()
    ctx.reset()


# ---------------------------------------------------------------------------
# replays: real code on floats vs mpmath quadrature / numerical differentiation (independent oracles)
# ---------------------------------------------------------------------------
def _get(point, names):
    try:
        return [float(point[n]) for n in names]
    except KeyError:
        return None


def _differs(a, b, rtol=1e-8):
    a, b = complex(a), complex(b)
    return abs(a - b) > rtol * max(abs(a), abs(b), 1e-30) + 1e-13


def replay_lognx(point, deg, kind):
    import mpmath as mp
    import numpy as np
    import eko.interpolation as ip

    g = _get(point, ["nr", "ni", "lx", "umin", "ulow"] + ["c%d" % i for i in range(deg + 1)])
    if g is None:
        return None
    nr, ni, lx, umin, ulow = g[:5]
    cs = g[5:]
    umax = 0.0 if kind == "top" else (float(point["umax"]) if "umax" in point else None)
    if umax is None or not (ulow < lx < umin < umax <= 0) or nr < 0.05 or abs(ni) > 30:
        return None
    N = mp.mpc(nr, ni)
    mp.mp.dps = 30
    P = lambda u: sum(c * u**i for i, c in enumerate(cs))
    Nf = complex(nr, ni)

    def area(lo, hi):
        return np.array([[lo, hi] + cs])

    checks = []
    if kind in ("full", "top"):
        checks.append((ip.log_evaluate_Nx(Nf, lx, area(umin, umax)), mp.quad(lambda u: mp.exp(N * (u - lx)) * P(u), [umin, umax]), "ln x < u_min"))
    if kind in ("partial", "top"):
        # ln x inside the area: the lower-limit term is dropped = integral from -infinity (Re N > 0)
        checks.append((ip.log_evaluate_Nx(Nf, lx, area(ulow, umax)), mp.quad(lambda u: mp.exp(N * (u - lx)) * P(u), [-mp.inf, umax]), "u_min <= ln x < u_max"))
    if kind == "zero":
        checks.append((ip.log_evaluate_Nx(Nf, lx, area(umin, umin)), 0, "coincident limits"))
    if kind == "skip":
        checks.append((ip.log_evaluate_Nx(Nf, umax + 0.01, area(umin, umax)), 0, "ln x >= u_max"))
    for got, want, tag in checks:
        if _differs(got, want):
            return {"detail": "log_evaluate_Nx(N=%r, ln x=%r, area [%r, %r], coefs %r) [%s] = %r but x^(-N) int exp(N u) P(u) du = %s" % (Nf, lx, umin, umax, cs, tag, got, want)}
    return None


def replay_lognx_multi(point, deg, nareas, top=False):
    """real log_evaluate_Nx on adjacent ascending areas vs quadrature of each area's piece: ln x below the area: full
    integral; inside / at its lower node: the lower-limit term dropped (= integral from -infinity, Re N > 0); above: 0.
    Node positions and ln x come from the point; N and the coefficients are fixed generic values."""
    import mpmath as mp
    import numpy as np
    import eko.interpolation as ip

    try:
        us = [float(point["u%d" % k]) for k in range(nareas + (0 if top else 1))]
        lx = float(point["lx"])
    except KeyError:
        return None
    if top:
        us.append(0.0)
    if any(b - a < 1e-6 for a, b in zip(us, us[1:])) or us[-1] > 0 or lx >= 0 or us[0] < -40 or lx < -60:
        return None
    if any(-1e-9 < lx - u < 0 for u in us):  # inside the 2.2e-15 comparison window just below a node
        return None
    mp.mp.dps = 30
    Nf = complex(1.3, 0.8)
    N = mp.mpc(1.3, 0.8)
    rows, want = [], mp.mpc(0)
    for a in range(nareas):
        cs = [0.7 + 0.3 * a - 0.45 * i + 0.1 * a * i for i in range(deg + 1)]
        rows.append([us[a], us[a + 1]] + cs)
        P = lambda u, cs=cs: sum(c * u**i for i, c in enumerate(cs))
        if lx >= us[a + 1]:
            continue
        lo = -mp.inf if lx >= us[a] else us[a]
        want += mp.quad(lambda u: mp.exp(N * (u - lx)) * P(u), [lo, us[a + 1]])
    got = ip.log_evaluate_Nx(Nf, lx, np.array(rows))
    if _differs(got, want):
        return {"detail": "log_evaluate_Nx(N=%r, ln x=%r) on the adjacent areas %r (coefficients %r) = %r, but the sum over the areas of "
                          "x^(-N) int exp(N u) P_a(u) du (lower-limit term dropped only in the area containing ln x) = %s" % (Nf, lx, us, [r[2:] for r in rows], got, want)}
    return None


def replay_nx(point, deg, kind):
    import mpmath as mp
    import numpy as np
    import eko.interpolation as ip

    g = _get(point, ["nr", "ni", "lx", "xmin", "xmax"] + ["c%d" % i for i in range(deg + 1)])
    if g is None:
        return None
    nr, ni, lx, xmin, xmax = g[:5]
    cs = g[5:]
    if not (0 < xmin < xmax <= 1) or nr < 0.05 or abs(ni) > 30:
        return None
    lx = min(lx, float(np.log(xmin)) - 0.1)
    mp.mp.dps = 30
    N = mp.mpc(nr, ni)
    Nf = complex(nr, ni)
    P = lambda x: sum(c * x**i for i, c in enumerate(cs))
    lo = 0.0 if kind == "xmin0" else xmin
    if kind == "zero":
        got, want = ip.evaluate_Nx(Nf, lx, np.array([[xmin, xmin] + cs])), 0
    elif kind == "skip":
        got, want = ip.evaluate_Nx(Nf, float(np.log(xmax)) + 0.01, np.array([[xmin, xmax] + cs])), 0
    else:
        got = ip.evaluate_Nx(Nf, lx, np.array([[lo, xmax] + cs]))
        want = mp.quad(lambda x: x ** (N - 1) * P(x), [lo, xmax]) * mp.exp(-N * lx)
    if _differs(got, want):
        return {"detail": "evaluate_Nx(N=%r, ln x=%r, area [%r, %r], coefs %r) = %r but x^(-N) int x'^(N-1) P(x') dx' = %s" % (Nf, lx, lo, xmax, cs, got, want)}
    return None


def _talbot_mp(t, r, o):
    import mpmath as mp

    th = mp.pi * (2 * t - 1)
    return o + r * mp.mpc(th / mp.tan(th), th)


def replay_talbot(point, half):
    import mpmath as mp
    import eko.mellin as mel

    g = _get(point, ["r", "o"])
    if g is None:
        return None
    r, o = g
    mp.mp.dps = 30
    if half:
        if not (0 < r < 1e3) or abs(o) > 1e3:
            return None
        p, j = mel.Talbot_path(0.5, r, o), mel.Talbot_jac(0.5, r, o)
        mp.mp.dps = 50
        wp = _talbot_mp(mp.mpf(1) / 2 + mp.mpf(10) ** -14, r, o)  # the contour is analytic at t = 1/2
        wj = mp.diff(lambda t: _talbot_mp(t, r, o), mp.mpf(1) / 2 + mp.mpf(10) ** -10)
        if _differs(p, wp, 1e-7) or _differs(j, wj, 1e-6):
            return {"detail": "Talbot at t=1/2 (r=%r, o=%r): path %r (limit of the contour %s), jac %r (limit of its derivative %s)" % (r, o, p, wp, j, wj)}
        # continuity of the real functions at t = 1/2 (both are smooth there: |f(1/2+h) - f(1/2)| <= 100 r h)
        for h in (1e-3, 1e-4):
            for fn, v0 in ((mel.Talbot_path, p), (mel.Talbot_jac, j)):
                for sgn in (1, -1):
                    d = abs(complex(fn(0.5 + sgn * h, r, o)) - complex(v0))
                    if d > 100 * r * h + 1e-7:
                        return {"detail": "%s is discontinuous at t=1/2 (r=%r, o=%r): value %r at 1/2 but %r at 1/2%+g" % (fn.__name__, r, o, v0, fn(0.5 + sgn * h, r, o), sgn * h)}
        return None
    if "t" not in point:
        return None
    t = float(point["t"])
    # t = 1/2 itself is the other case; next to it only the float cancellation of cot(theta) - theta/sin(theta)^2
    # (about 1e-16/theta^2 relative to |jac| ~ 2 pi r) limits the comparison, hence the 2e-6 window, not more
    if not (0.02 < t < 0.98) or abs(t - 0.5) < 2e-6 or abs(t - 0.25) < 1e-3 or abs(t - 0.75) < 1e-3:
        return None
    got = mel.Talbot_jac(t, r, o)
    want = mp.diff(lambda s: mel.Talbot_path(float(s), r, o).real, t) + 1j * mp.diff(lambda s: mel.Talbot_path(float(s), r, o).imag, t)
    want2 = mp.diff(lambda s: _talbot_mp(s, r, o), t)
    if _differs(got, want2, 1e-8):
        return {"detail": "Talbot_jac(t=%r, r=%r, o=%r) = %r but d/dt of the Talbot contour o + r(theta cot theta + i theta) = %s (finite differences of Talbot_path: %s)" % (t, r, o, got, want2, want)}
    if _differs(mel.Talbot_path(t, r, o), _talbot_mp(t, r, o), 1e-9):
        return {"detail": "Talbot_path(t=%r, r=%r, o=%r) = %r but o + r(theta cot theta + i theta) = %s" % (t, r, o, mel.Talbot_path(t, r, o), _talbot_mp(t, r, o))}
    return None


def replay_path(point, off):
    import math

    import mpmath as mp
    import eko.mellin as mel

    g = _get(point, ["lx"])
    if g is None or not (-60 < g[0] < 0):
        return None
    lx = g[0]
    t = float(point.get("t", 0.7))
    if not (0.02 < t < 0.98) or abs(t - 0.5) < 1e-3 or abs(t - 0.25) < 1e-3 or abs(t - 0.75) < 1e-3:
        t = 0.7  # the conditions below hold for every t or do not depend on it
    mp.mp.dps = 30
    P = mel.Path(t, lx, off)
    dn = mp.diff(lambda s: mp.mpmathify(mel.Path(float(s), lx, off).n), t, h=mp.mpf(10) ** -5)  # finite differences of the real n(t)
    cross = complex(mel.Path(0.5, lx, off).n)
    pole = 1.0 if off else 0.0
    msg = None
    want_n = _talbot_mp(t, P.r, pole)  # documented: o = 1 with the axis offset (singlet), o = 0 without
    if _differs(P.n, want_n, 1e-9):
        msg = "n = %r but the documented contour o + r(theta cot theta + i theta) with o = %r, r = %r gives %s" % (P.n, pole, P.r, want_n)
    elif _differs(P.jac, dn, 1e-6):
        msg = "jac = %r but d n/dt = %s" % (P.jac, dn)
    elif not (P.r > 0):
        msg = "r = %r is not positive" % (P.r,)
    elif abs(cross.imag) > 1e-12 or not (cross.real > pole + 1e-12):
        msg = "the contour crosses the real axis at %r, not to the right of N = %r" % (cross, pole)
    elif _differs(P.prefactor, complex(0, -1 / math.pi)):
        msg = "prefactor = %r, expected -i/pi" % (P.prefactor,)
    if msg:
        return {"detail": "Path(t=%r, ln x=%r, axis_offset=%s): %s" % (t, lx, off, msg)}
    return None


def replay_integrand(point, is_log, mode0, top=False):
    import importlib
    import math

    import mpmath as mp
    import numpy as np

    qk = importlib.import_module("eko.evolution_operator.quad_ker")  # (the package also exports a function of that name)
    g = _get(point, ["lx"])
    if g is None or not (-60 < g[0] < 0):
        return None
    lx = g[0]
    t = float(point.get("t", 0.7))
    if not (0.5 < t < 0.98) or abs(t - 0.75) < 1e-3:
        t = 0.7
    # a fixed area above the inversion point; its Mellin transform is computed by quadrature
    cs = [0.7, -1.3]
    if is_log:
        lo, hi = lx / 2, lx / 4
    else:
        lo, hi = math.exp(lx / 2), math.exp(lx / 4)
    areas = np.array([[lo, hi] + cs])
    if top:
        got = qk.QuadKerBase(t, is_log, 0.0, mode0).integrand(areas)
        return {"detail": "integrand at ln x = 0 is %r, expected 0" % (got,)} if _differs(got, 0) else None
    kb = qk.QuadKerBase(t, is_log, lx, mode0)
    got = kb.integrand(areas)
    mp.mp.dps = 30
    pole = 1.0 if mode0 in SINGLET_LIKE else 0.0
    r, o = float(kb.path.r), pole  # r is the code's choice; the offset is the documented one (1 singlet-like, 0 otherwise)
    if not (r > 0 and o + r > pole + 1e-12):
        return {"detail": "QuadKerBase(mode0=%d, ln x=%r): Talbot contour with r=%r, o=%r crosses the real axis at %r, not right of the rightmost singularity N=%r of this sector"
                          % (mode0, lx, r, o, o + r, pole)}
    N = _talbot_mp(t, r, o)
    jac = mp.diff(lambda s: _talbot_mp(s, r, o), t)
    if is_log:
        mell = mp.quad(lambda u: mp.exp(N * (u - lx)) * sum(c * u**i for i, c in enumerate(cs)), [lo, hi])
    else:
        mell = mp.quad(lambda x: x ** (N - 1) * sum(c * x**i for i, c in enumerate(cs)), [lo, hi]) * mp.exp(-N * lx)
    want = mp.mpc(0, -1 / mp.pi) * mell * jac
    if _differs(got, want, 1e-7):
        return {"detail": "QuadKerBase(t=%r, is_log=%s, ln x=%r, mode0=%d).integrand = %r but (-i/pi) * Mellin transform of the area * x^(-N) * dN/dt on the Talbot contour (r=%r, o=%r) = %s"
                          % (t, is_log, lx, mode0, got, r, o, want)}
    return None


def replay_dispatch(point, deg):
    import numpy as np
    import eko.interpolation as ip

    N = complex(1.3, 0.7)
    a = np.array([[-2.0, -1.0] + [0.5] * (deg + 1)])
    b = np.array([[0.2, 0.5] + [0.5] * (deg + 1)])
    if _differs(ip.evaluate_grid(N, True, -3.0, a), ip.log_evaluate_Nx(N, -3.0, a)) or _differs(ip.evaluate_grid(N, False, -3.0, b), ip.evaluate_Nx(N, -3.0, b)):
        return {"detail": "evaluate_grid does not dispatch on is_log"}
    return None


# ---------------------------------------------------------------------------
def main():
    chk = H.Check("C35", level="other")
    thorough = H.tier() == "thorough"
    chk.explanation = (
        "Partial check. The headline of the property (the adaptive numerical inversion along the contour returns the x-space basis value, at nodes and between them) "
        "is a statement about QUADPACK quadrature and is NOT decided. Decided, for all complex N, all area limits, polynomial coefficients, contour parameters and "
        "inversion points in the stated domain, are the algebraic conditions without which the inversion could not reproduce the basis: the N-space pieces are the exact "
        "(truncated where analytically allowed) Mellin transforms of the x-space polynomial pieces times x^(-N), the Jacobian is the derivative of the contour, the "
        "t = 1/2 special cases are the limits, mellin.Path and QuadKerBase.integrand assemble prefactor * basis * jacobian on the right contour for each sector.")
    chk.bounds = [
        "one area with symbolic limits and symbolic polynomial coefficients, polynomial degree 1..3 (thorough: 1..5) for log_evaluate_Nx and evaluate_Nx; N = nr + i ni symbolic complex",
        "log_evaluate_Nx on 2-3 (thorough: up to 4) adjacent areas in ascending order with separate symbolic polynomials, ln x a free symbol forking through every position",
        "Talbot path/jacobian: t in (0,1), r > 0, o symbolic reals; series around t = 1/2 to order 6; mellin.Path / QuadKerBase: the documented offset o = 1 (singlet-like) / 0, r(ln x) as coded (only r > 0 required)",
        "QuadKerBase.integrand: sectors mode0 in {100, 21, 22, 101, 90} (offset 1) and {200, 10200, 10204, 10100, 91} (thorough also 10101, 10104) (offset 0), log and linear flag, "
        "t in (1/2, 1), ln x < 0 symbolic; the basis factor an opaque complex symbol",
    ]
    chk.out_of_claim = [
        "convergence and accuracy of the numerical Mellin inversion (scipy.integrate.quad / QUADPACK along the Talbot contour): the statement's headline, at nodes and between them",
        "that dropping the lower-limit term (ln x >= u_min) and skipping areas (ln x >= u_max) does not change the inverted value (contour-closing argument, not algebraic)",
        "integration limits [1/2, 1 - cut] and the use of the real part in quad_ker (runner plumbing), numba-compiled variants of the functions",
        "floating-point evaluation (cancellations in the k-sum of log_evaluate_Nx, tan/sin near t = 1/4, 3/4, 1)",
    ]
    chk.stubs = [
        "numpy.exp/sin/cos/tan/log of symbolic arguments: interned atoms with derivative rules (exp of a complex argument = exp(re)(cos(im) + i sin(im)), sin^2 + cos^2 = 1)",
        "math.gamma(k+1) evaluated by the real math module (integers only); np.pi is the double it is",
        "scipy.integrate.quad is never reached (nothing of the quadrature is modelled)",
        "inside QuadKerBase.integrand the call interpolation.evaluate_grid(...) is replaced by a recorder returning an opaque complex symbol (its arguments are checked; "
        "evaluate_grid / log_evaluate_Nx / evaluate_Nx themselves are decided by the other cases)",
    ]
    chk.assumptions = ["floats in the source are read by the engine's float reading (symx.poly.tofrac); np.pi is the rational read from the double",
                       "J is C^1 in the limit, so dJ/d(limit) = integrand and J = 0 at coincident limits characterise the integral"]
    degs = (1, 2, 3, 4, 5) if thorough else (1, 2, 3)
    for d in degs:
        chk.case("log_evaluate_Nx.deg%d" % d, case_lognx, deg=d)
        chk.case("log_evaluate_Nx.top.deg%d" % d, case_lognx_top, deg=d)
        chk.case("evaluate_Nx.deg%d" % d, case_nx, deg=d)
    for d, na, top in ((1, 2, False), (2, 3, False), (1, 3, True)) + (((3, 3, False), (2, 4, False), (3, 2, True)) if thorough else ()):
        chk.case("log_evaluate_Nx.areas%d.deg%d%s" % (na, d, ".top" if top else ""), case_lognx_multi, deg=d, nareas=na, top=top)
    chk.case("talbot", case_talbot)
    for mode0 in list(SINGLET_LIKE) + list(NONSINGLET):
        if mode0 in (10104, 10101) and not thorough:
            continue
        for is_log in (True, False):
            chk.case("integrand.%s.mode%d" % ("log" if is_log else "lin", mode0), case_integrand, is_log=is_log, mode0=mode0)
    chk.case("evaluate_grid.dispatch", case_dispatch, deg=2)
    import eko.evolution_operator.quad_ker  # noqa: F401  imported once per run; case workers are forked from here
    C34.clear_markers()
    try:
        return chk.run()
    finally:
        C34.clear_markers()


if __name__ == "__main__":
    import sys

    sys.exit(main())
