"""C11  All solution, scale-variation and matching prescriptions conserve sum rules.

Real functions executed symbolically: singlet.dispatcher (all 8 methods) and what it calls, singlet_qed.eko_iterate (dim 4),
scale_variations.expanded.{singlet_variation, singlet_variation_qed}, scale_variations.exponentiated.{gamma_variation,
gamma_variation_qed}, evolution_operator.quad_ker.build_ome (forward, expanded inverse, exact inverse).

The conservation constraint is imposed by substitution: every anomalous-dimension matrix has columns summing to zero
(v.gamma_k = 0 with v = (1,1); QED: v = (1,1,1,0) in the basis (g, photon, Sigma, Sigma_Delta)); matching matrices have
v.A_k = 0.  Goal: v.E == v identically (for series-valued kernels: coefficient by coefficient through the cap), and the
exponentiated scheme returns matrices that still satisfy v.gamma'_k = 0.
"""
from fractions import Fraction

from .kern import *  # noqa
from symx.solver import explore, prove_zero
from symx import harness as H

MOD = "harness.C11"
METHODS = ["ITERATE_EXACT", "ITERATE_EXPANDED", "PERTURBATIVE_EXACT", "PERTURBATIVE_EXPANDED", "TRUNCATED", "ORDERED_TRUNCATED", "DECOMPOSE_EXACT", "DECOMPOSE_EXPANDED"]


def constrained(name, dim, v, lead=None):
    """dim x dim object array of symbols with v . M == 0: the last row with v != 0 is fixed by the others."""
    m = realnp.empty((dim, dim), dtype=object)
    rows = [i for i in range(dim) if v[i] != 0]
    fix = rows[-1]
    for i in range(dim):
        for j in range(dim):
            if i != fix:
                m[i, j] = SR.var("%s_%d%d" % (name, i, j))
    for j in range(dim):
        m[fix, j] = -sum(m[i, j] * v[i] for i in rows[:-1]) / v[fix]
    return m


def _vE(log, E, v, what, key, rp, nmax=None):
    dim = len(v)
    for j in range(dim):
        tot = sum(E[i, j] * v[i] for i in range(dim)) - v[j]
        if isinstance(tot, Jet):
            n = min(tot.prec, jetmod.CAP[0]) if nmax is None else nmax
            for k, c in residual_coeffs(tot, n):
                vd = prove_zero(c, "%s: column %d of v.E - v, order-%d coefficient" % (what, j, k), timeout_ms=60000)
                if not log.decide(vd, key=key, replay=rp, sampler=_sampler):
                    return
        else:
            vd = prove_zero(Cx.lift(tot), "%s: column %d of v.E - v" % (what, j), timeout_ms=60000)
            if not log.decide(vd, key=key, replay=rp, sampler=_sampler):
                return


def case_singlet(log, order, method, shape="complex"):
    ns, sg, ei, as4, ad = kernel_modules()
    from eko.kernels import EvoMethods

    m = EvoMethods[method]
    log.encode(sg.dispatcher, ad.exp_matrix_2D)
    rp = (MOD, "replay_singlet", {"order": order, "method": method})
    log.register_replay("fallback:replay_singlet", rp, _sampler)

    def run():
        a0, a1 = SR.var("a0"), SR.var("a1")
        for a in (a0, a1):
            assume(a, ">0")
        assume(a1 - a0, "!=0")
        bet, bs, roots = sym_rge(order, shape)
        for a in (a0, a1):
            assume(1 + sum(b * a ** (i + 1) for i, b in enumerate(bs)), ">0")
        gs = realnp.array([constrained("g%d" % k, 2, (1, 1)) for k in range(order)], dtype=object)
        its = 2 if method.startswith("ITERATE") else 1
        via_exponent = method.startswith("DECOMPOSE") and order >= 3
        if via_exponent:
            # exp_matrix_2D of a matrix with a zero eigenvalue needs the root of a perfect square that contains the
            # algebraic atoms of the exact NNLO/N3LO integrals; the sum rule is decided on the exponent instead:
            # v.M == 0  =>  v.exp(M) == v  (exp_matrix_2D is the matrix exponential: C23)
            rec = AdRecorder(sg.ad)
            saved = sg.ad
            sg.ad = rec
        try:
            with rge_env((ns, sg), bet, bs, roots):
                E = sg.dispatcher((order, 0), m, gs, a1, a0, SR.var("nf"), its, (order + 1, 0))
        finally:
            if via_exponent:
                sg.ad = saved
        if via_exponent:
            if not rec.calls:
                raise EngineError("no matrix exponential recorded")
            for n_, M in enumerate(rec.calls):
                for j in range(2):
                    vd = prove_zero(Cx.lift(M[0, j] + M[1, j]), "singlet %s order %d: column %d of v.M == 0 for the exponent handed to exp_matrix_2D (call %d)" % (method, order, j, n_))
                    log.decide(vd, key="singlet.%s:%d:sumrule" % (method, order), replay=rp, sampler=_sampler)
        else:
            _vE(log, E, (1, 1), "singlet %s order %d" % (method, order), "singlet.%s:%d:sumrule" % (method, order), rp)
        log.twin("domain")
        log.collect_ctx()

    _r, pm = explore(run)
    log.path_stats(pm)


def case_uvec(log, order, is_exact):
    """building blocks of the perturbative / truncated kernels: with v.gamma_k = 0 every R_k and every U_k (k>=1) is annihilated by v,
    hence v.U(a1) E0 U(a0)^-1 = v for any number of iterations (used for the orders whose full kernel is too deep for the quick tier)."""
    ns, sg, ei, as4, ad = kernel_modules()
    log.encode(sg.r_vec, sg.u_vec)
    rp = (MOD, "replay_singlet", {"order": order, "method": "PERTURBATIVE_EXACT" if is_exact else "PERTURBATIVE_EXPANDED"})
    log.register_replay("fallback:replay_singlet", rp, _sampler)

    def run():
        bet, bs, _ = sym_rge(order) if order < 4 else sym_rge(3)
        if order == 4:
            bet = bet + [SR.var("b3") * bet[0]]
        gs = realnp.array([constrained("g%d" % k, 2, (1, 1)) for k in range(order)], dtype=object)
        M = order + 1
        r = sg.r_vec(gs, bet, (M, 0), (order, 0), is_exact)
        u = sg.u_vec(r, (M, 0))
        key = "singlet.perturbative:%d:uvec-sumrule" % order
        for k in range(M):
            for j in range(2):
                vd = prove_zero(Cx.lift(r[k][0, j] + r[k][1, j]), "v.R_%d column %d == 0 (order %d, exact fill=%s)" % (k, j, order, is_exact))
                log.decide(vd, key=key, replay=rp, sampler=_sampler)
                tgt = 1 if k == 0 else 0
                vd = prove_zero(Cx.lift(u[k][0, j] + u[k][1, j]) - tgt, "v.U_%d column %d == %d (order %d, exact fill=%s)" % (k, j, tgt, order, is_exact), timeout_ms=60000)
                log.decide(vd, key=key, replay=rp, sampler=_sampler)
        log.twin("domain")
        log.collect_ctx()

    _r, pm = explore(run)
    log.path_stats(pm)


def case_truncated_combination(log, order):
    """eko_truncated's own combination of the building blocks: with v.U_k = 0 (k >= 1) and v.E0 = v (arbitrary non-commuting symbolic
    matrices otherwise) the truncated kernel conserves v -- every term must keep a U_k or E0 as its left-most factor."""
    ns, sg, ei, as4, ad = kernel_modules()
    log.encode(sg.eko_truncated)
    rp = (MOD, "replay_singlet", {"order": order, "method": "TRUNCATED"})
    log.register_replay("fallback:replay_singlet", rp, _sampler)

    def run():
        a0, a1 = SR.var("a0"), SR.var("a1")
        u = [realnp.array([[1, 0], [0, 1]], dtype=object)] + [constrained("u%d" % k, 2, (1, 1)) for k in range(1, order)]
        e0 = constrained("e0", 2, (1, 1)) + realnp.array([[1, 0], [0, 1]], dtype=object)
        saved = (sg.u_vec, sg.r_vec, sg.lo_exact)
        sg.u_vec = lambda r, o: realnp.array(u, dtype=object)
        sg.r_vec = lambda *a: None
        sg.lo_exact = lambda *a: e0.copy()
        try:
            E = sg.eko_truncated(None, a1, a0, None, (order, 0))
        finally:
            sg.u_vec, sg.r_vec, sg.lo_exact = saved
        _vE(log, E, (1, 1), "eko_truncated order %d built from sum-rule-respecting U_k, E0" % order, "singlet.TRUNCATED:%d:combination" % order, rp)
        log.twin("domain")
        log.collect_ctx()

    _r, pm = explore(run)
    log.path_stats(pm)


def case_qed_iterate(log, order):
    sq = sym_module("eko.kernels.singlet_qed")
    from eko.kernels import EvoMethods

    log.encode(sq.eko_iterate, sq.dispatcher)
    oq, oe = order
    rp = (MOD, "replay_qed", {"order": list(order)})
    log.register_replay("fallback:replay_qed", rp, _sampler)
    v = (1, 1, 1, 0)

    def run():
        jetmod.set_cap(4)
        a0, aem = SR.var("a0"), SR.var("aem")
        assume(a0, ">0")
        assume(aem, ">0")
        eps = Jet.lam()
        a1 = a0 * (1 + eps)
        a2 = a1 * (1 + eps * SR.var("r"))
        G = realnp.empty((oq + 1, oe + 1), dtype=object)
        for i in range(oq + 1):
            for j in range(oe + 1):
                G[i, j] = constrained("G%d%d" % (i, j), 4, v) if (i, j) != (0, 0) else realnp.array([[SR(0)] * 4] * 4, dtype=object)
        Garr = realnp.empty((oq + 1, oe + 1, 4, 4), dtype=object)
        for i in range(oq + 1):
            for j in range(oe + 1):
                Garr[i, j] = G[i, j]
        bq = [SR.var("bq%d" % i) for i in range(1, oq + 1)]
        b21 = SR.var("b21")

        class Beta:
            @staticmethod
            def beta_qcd(k, nf):
                return b21 if k == (2, 1) else bq[k[0] - 2]

        a_half = realnp.empty((2, 2), dtype=object)
        a_half[0, 0], a_half[0, 1] = SR.var("ah0"), aem
        a_half[1, 0], a_half[1, 1] = SR.var("ah1"), SR.var("aem1")
        saved = (sq.ad, sq.beta)
        sq.ad, sq.beta = AdSeries(sq.ad), Beta()
        try:
            E = sq.dispatcher(order, EvoMethods.ITERATE_EXACT, Garr, [a0, a1, a2], a_half, SR.var("nf"), 2, (1, 0))
        finally:
            sq.ad, sq.beta = saved
        _vE(log, E, v, "QED singlet iterate order %r (2 steps)" % (order,), "singlet_qed.eko_iterate:sumrule", rp, nmax=4)
        log.twin("domain")
        log.collect_ctx()

    _r, pm = explore(run)
    log.path_stats(pm)


def case_sv(log, order, nf, qed):
    ex = sym_module("eko.scale_variations.expanded")
    xp = sym_module("eko.scale_variations.exponentiated")
    log.encode(ex.singlet_variation, ex.singlet_variation_qed, xp.gamma_variation, xp.gamma_variation_qed)
    oq, oe = order
    rp = (MOD, "replay_sv", {"order": list(order), "nf": nf, "qed": qed})
    log.register_replay("fallback:replay_sv", rp, _sampler)

    def run():
        a_s, a_em, L = SR.var("a_s"), SR.var("a_em"), SR.var("L")
        nfs = SR(nf)
        if not qed:
            v = (1, 1)
            gs = realnp.array([constrained("g%d" % k, 2, v) for k in range(oq)], dtype=object)
            K = ex.singlet_variation(gs, a_s, (oq, 0), nfs, L, 2)
            _vE(log, K, v, "expanded singlet_variation order %d nf %d" % (oq, nf), "sv.expanded.singlet:sumrule", rp)
            gx = realnp.array([constrained("h%d" % k, 2, v) for k in range(oq)], dtype=object)
            out = xp.gamma_variation(gx, (oq, 0), nfs, L)
            for k in range(oq):
                for j in range(2):
                    vd = prove_zero(Cx.lift(out[k][0, j] + out[k][1, j]), "exponentiated gamma_variation order %d nf %d: v.gamma'_%d column %d == 0" % (oq, nf, k, j))
                    log.decide(vd, key="sv.exponentiated:sumrule", replay=rp, sampler=_sampler)
        else:
            v = (1, 1, 1, 0)
            for running in (True, False):
                G = realnp.empty((oq + 1, oe + 1, 4, 4), dtype=object)
                for i in range(oq + 1):
                    for j in range(oe + 1):
                        G[i, j] = constrained("G%d%d" % (i, j), 4, v) if (i, j) != (0, 0) else realnp.array([[SR(0)] * 4] * 4, dtype=object)
                K = ex.singlet_variation_qed(G, a_s, a_em, running, order, nfs, L)
                _vE(log, K, v, "expanded singlet_variation_qed order %r nf %d running=%s" % (order, nf, running), "sv.expanded.singlet_qed:sumrule", rp)
                G2 = realnp.empty((oq + 1, oe + 1, 4, 4), dtype=object)
                for i in range(oq + 1):
                    for j in range(oe + 1):
                        G2[i, j] = constrained("H%d%d" % (i, j), 4, v) if (i, j) != (0, 0) else realnp.array([[SR(0)] * 4] * 4, dtype=object)
                out = xp.gamma_variation_qed(G2, order, nfs, SR(3), L, running)
                if out is None:
                    vd = S.Verdict("sat", "exponentiated gamma_variation_qed returns an array (running=%s)" % running, None, {}, 0.0, None, 1)
                    log.decide(vd, key="sv.exponentiated_qed:returns-none", replay=rp, sampler=_sampler)
                    continue
                for i in range(oq + 1):
                    for j in range(oe + 1):
                        for c in range(4):
                            tot = sum(out[i, j][r, c] * v[r] for r in range(4))
                            vd = prove_zero(Cx.lift(tot), "exponentiated gamma_variation_qed order %r nf %d running=%s: v.gamma'_(%d,%d) column %d == 0" % (order, nf, running, i, j, c))
                            log.decide(vd, key="sv.exponentiated_qed:sumrule", replay=rp, sampler=_sampler)
        log.twin("domain")
        log.collect_ctx()

    _r, pm = explore(run)
    log.path_stats(pm)


def case_ome(log, morder, method):
    qk = sym_module("eko.evolution_operator.quad_ker")
    log.encode(qk.build_ome)
    rp = (MOD, "replay_ome", {"morder": morder, "method": method})
    log.register_replay("fallback:replay_ome", rp, _sampler)
    v = (1, 1, 1)

    def run():
        a_s = SR.var("a_s")
        assume(a_s, ">0")
        A = realnp.array([constrained("A%d" % k, 3, v) for k in range(max(morder, 1))], dtype=object)
        meth = qk.MatchingMethods[method]
        if method == "BACKWARD_EXACT" and morder > 0:
            # non-singular: det(1 + a A...) != 0 is recorded by the adjugate inverse
            pass
        ome = qk.build_ome(A, (morder, 0), a_s, meth)
        _vE(log, ome, v, "build_ome %s matching order %d" % (method, morder), "build_ome.%s:sumrule" % method, rp)
        log.twin("domain")
        log.collect_ctx()

    _r, pm = explore(run)
    log.path_stats(pm)


class _AsmKB:
    def __init__(self, kind):
        self.is_singlet = kind in ("qcd", "ome")
        self.is_QEDsinglet = kind == "qed"
        self.is_QEDvalence = False
        self.n = SR.var("N")

    def integrand(self, areas):
        return 1


def case_assembled(log, kind, mode="unvaried"):
    """The operator is assembled element by element: quad_ker_qcd / quad_ker_qed / quad_ker_ome are asked for one (mode0, mode1) pair
    at a time and pick it with the element selectors.  With a sum-rule-respecting kernel handed back by the (stubbed) dispatcher /
    OME tower, the assembled matrix sum_{mode0} E[mode0, mode1] must again give the conserved vector -- rows and columns in the
    documented label order, no transposition."""
    qk = sym_module("eko.evolution_operator.quad_ker")
    import eko.scale_variations as svmod
    from eko.kernels import EvoMethods

    rp = (MOD, "replay_assembled", {"kind": kind, "mode": mode})
    key = "assembled.%s:sumrule%s" % (kind, "" if mode == "unvaried" else ":" + mode)
    log.register_replay(key, rp, _sampler)
    labels, v = {"qcd": ((100, 21), (1, 1)), "qed": ((21, 22, 100, 101), (1, 1, 1, 0)), "ome": ((21, 100, 90), (1, 1, 1))}[kind]
    dim = len(labels)
    log.encode({"qcd": qk.quad_ker_qcd, "qed": qk.quad_ker_qed, "ome": qk.quad_ker_ome}[kind],
               {"qcd": qk.select_singlet_element, "qed": qk.select_QEDsinglet_element, "ome": qk.build_ome}[kind])

    def run():
        saved = []

        def patch(obj, attr, val):
            saved.append((obj, attr, getattr(obj, attr)))
            setattr(obj, attr, val)

        a_s = SR.var("a_s")
        assume(a_s, ">0")
        I = realnp.eye(dim, dtype=int).astype(object)
        # the conserved vector in the order the kernel modules use internally
        internal = {"qcd": (100, 21), "qed": (21, 22, 100, 101), "ome": (21, 100, 90)}[kind]
        K = constrained("k", dim, v) + I
        # expanded scheme: the scale-variation factor (identity + terms proportional to gamma) respects the sum rule as well;
        # the product of the two, taken as a MATRIX product in the documented order, is what the selectors must see
        SVF = constrained("f", dim, v) + I
        svm = svmod.Modes[mode]
        E = realnp.empty((dim, dim), dtype=object)
        try:
            patch(qk.sv_expanded, "singlet_variation", lambda *a, **k: SVF.copy())
            patch(qk.sv_expanded, "singlet_variation_qed", lambda *a, **k: SVF.copy())
            if kind == "qcd":
                patch(qk.ad_us, "gamma_singlet", lambda *a, **k: "gamma-token")
                patch(qk.s, "dispatcher", lambda *a, **k: K.copy())
            elif kind == "qed":
                patch(qk.ad_us, "gamma_singlet_qed", lambda *a, **k: "gamma-token")
                patch(qk.qed_s, "dispatcher", lambda *a, **k: K.copy())
            else:
                A = realnp.array([constrained("A%d" % k, dim, v) for k in range(3)], dtype=object)
                patch(qk, "QuadKerBase", lambda u, is_log, logx, mode0: _AsmKB("ome"))
                patch(qk.ome_us, "A_singlet", lambda *a, **k: A.copy())
            for i, m0 in enumerate(labels):
                for j, m1 in enumerate(labels):
                    if kind == "qcd":
                        E[i, j] = qk.quad_ker_qcd(_AsmKB("qcd"), (2, 0), m0, m1, EvoMethods.ITERATE_EXACT, a_s, SR.var("a0"), 4, SR.var("L"), 1, (2, 0), svm, False, False, False, (0,) * 7, False)
                    elif kind == "qed":
                        E[i, j] = qk.quad_ker_qed(_AsmKB("qed"), (2, 1), m0, m1, EvoMethods.ITERATE_EXACT, [SR.var("a0"), a_s], SR.var("m0"), SR.var("m1"), realnp.array([[SR.var("ah"), SR.var("aem")]], dtype=object), False,
                                                  4, SR.var("L"), 1, (2, 0), svm, False, (0,) * 7, False)
                    else:
                        E[i, j] = qk.quad_ker_ome(0.5, (3, 0), m0, m1, True, SR.var("logx"), ("areas",), a_s, 4, SR.var("Lh"), svmod.Modes.unvaried, SR.var("L"), None, False, False, False)
        finally:
            for obj, attr, val in reversed(saved):
                setattr(obj, attr, val)
        # v is given in the order of `labels`
        _vE(log, E, v, "operator assembled from single elements (%s%s)" % (kind, "" if mode == "unvaried" else ", " + mode + " scale variation"), key, rp)
        log.twin("domain")
        log.collect_ctx()

    _r, pm = explore(run)
    log.path_stats(pm)


def replay_assembled(point, kind, mode="unvaried"):
    import importlib
    from unittest import mock
    import numpy as np
    import eko.scale_variations as svmod
    from eko.kernels import EvoMethods

    qk = importlib.import_module("eko.evolution_operator.quad_ker")
    labels, v = {"qcd": ((100, 21), (1, 1)), "qed": ((21, 22, 100, 101), (1, 1, 1, 0)), "ome": ((21, 100, 90), (1, 1, 1))}[kind]
    dim = len(labels)
    rng = np.random.default_rng(3)
    K = _rand_constrained(rng, dim, v) + np.eye(dim)
    A = np.array([_rand_constrained(rng, dim, v) for _ in range(3)])
    SVF = _rand_constrained(rng, dim, v) + np.eye(dim)
    svm = svmod.Modes[mode]

    class KB:
        def __init__(self, *a):
            self.is_singlet, self.is_QEDsinglet, self.is_QEDvalence, self.n = kind in ("qcd", "ome"), kind == "qed", False, 2.0 + 0.5j

        def integrand(self, areas):
            return 1.0

    E = np.zeros((dim, dim), dtype=complex)
    with mock.patch.object(qk.ad_us, "gamma_singlet", lambda *a, **k: None), mock.patch.object(qk.s, "dispatcher", lambda *a, **k: K.copy()), \
            mock.patch.object(qk.ad_us, "gamma_singlet_qed", lambda *a, **k: None), mock.patch.object(qk.qed_s, "dispatcher", lambda *a, **k: K.copy()), \
            mock.patch.object(qk, "QuadKerBase", KB), mock.patch.object(qk.ome_us, "A_singlet", lambda *a, **k: A.copy()), \
            mock.patch.object(qk.sv_expanded, "singlet_variation", lambda *a, **k: SVF.copy()), mock.patch.object(qk.sv_expanded, "singlet_variation_qed", lambda *a, **k: SVF.copy()):
        for i, m0 in enumerate(labels):
            for j, m1 in enumerate(labels):
                if kind == "qcd":
                    E[i, j] = qk.quad_ker_qcd(KB(), (2, 0), m0, m1, EvoMethods.ITERATE_EXACT, 0.02, 0.03, 4, 0.7, 1, (2, 0), svm, False, False, False, (0,) * 7, False)
                elif kind == "qed":
                    E[i, j] = qk.quad_ker_qed(KB(), (2, 1), m0, m1, EvoMethods.ITERATE_EXACT, np.array([0.03, 0.02]), 10.0, 100.0, np.array([[0.025, 0.0007]]), False, 4, 0.7, 1, (2, 0), svm, False, (0,) * 7, False)
                else:
                    # quad_ker_ome returns Re(element * integrand): use a real tower
                    E[i, j] = qk.quad_ker_ome(0.5, (3, 0), m0, m1, True, -1.0, None, 0.03, 4, 0.0, svmod.Modes.unvaried, 0.0, None, False, False, False)
    # quad_ker_ome returns Re(element * integrand): the real parts of the columns of a sum-rule-respecting matrix still sum to v
    col = np.array([sum(E[i, j] * v[i] for i in range(dim)) for j in range(dim)])
    want = np.array(v, dtype=float)
    if np.abs(col.real - want).max() > 1e-9:
        return {"detail": "operator assembled element by element (%s): sum over mode0 of E[mode0, mode1] = %r for mode1 = %r, conserved vector %r" % (kind, col.real.tolist(), list(labels), list(v))}
    return None


# ---------------------------------------------------------------------------
def _sampler(rng):
    return {"a0": rnd(rng, 0.005, 0.04), "a1": rnd(rng, 0.005, 0.04), "a_s": rnd(rng, 0.005, 0.04), "a_em": rnd(rng, 0.0005, 0.005, 10000), "L": rnd(rng, -2, 2)}


def _rand_constrained(rng, dim, v, scale=1.0):
    import numpy as np

    m = (rng.normal(size=(dim, dim)) + 1j * rng.normal(size=(dim, dim))) * scale
    rows = [i for i in range(dim) if v[i] != 0]
    fix = rows[-1]
    m[fix] = -sum(m[i] * v[i] for i in rows[:-1]) / v[fix]
    return m


def replay_singlet(point, order, method):
    import numpy as np
    import eko.kernels.singlet as sg
    from eko.kernels import EvoMethods

    a0, a1 = float(point.get("a0", 0.03)), float(point.get("a1", 0.02))
    if not (0 < a0 < 0.1 and 0 < a1 < 0.1 and abs(a0 - a1) > 1e-4):
        return None
    rng = np.random.default_rng(13)
    g = np.array([_rand_constrained(rng, 2, (1, 1), 3.0**k) for k in range(order)])
    for nf in (3, 4, 5, 6):
        for its in (1, 7):
            E = np.array(sg.dispatcher((order, 0), EvoMethods[method], g, a1, a0, nf, its, (order + 1, 0)), dtype=complex)
            s = E.sum(axis=0)
            if np.abs(s - 1).max() > 1e-9 * max(1, np.abs(E).max()):
                return {"detail": "singlet %s order %d nf %d (%d iterations): column sums %r != 1 for momentum-conserving gamma" % (method, order, nf, its, s.tolist())}
    return None


def replay_qed(point, order):
    import numpy as np
    import eko.kernels.singlet_qed as sq
    from eko.kernels import EvoMethods

    oq, oe = order
    rng = np.random.default_rng(17)
    v = (1, 1, 1, 0)
    G = np.zeros((oq + 1, oe + 1, 4, 4), dtype=complex)
    for i in range(oq + 1):
        for j in range(oe + 1):
            if (i, j) != (0, 0):
                G[i, j] = _rand_constrained(rng, 4, v)
    as_list = np.array([0.03, 0.025, 0.02])
    a_half = np.array([[0.0275, 0.0006], [0.0225, 0.00061]])
    E = np.array(sq.dispatcher(tuple(order), EvoMethods.ITERATE_EXACT, G, as_list, a_half, 5, 2, (1, 0)), dtype=complex)
    s = E[0] + E[1] + E[2]
    if np.abs(s - np.array(v)).max() > 1e-9 * max(1, np.abs(E).max()):
        return {"detail": "QED singlet iterate order %r: v.E = %r != (1,1,1,0)" % (order, s.tolist())}
    return None


def replay_sv(point, order, nf, qed):
    import numpy as np
    from eko.scale_variations import expanded as ex, exponentiated as xp

    oq, oe = order
    a_s, a_em, L = float(point.get("a_s", 0.02)), float(point.get("a_em", 0.0006)), float(point.get("L", 0.8))
    rng = np.random.default_rng(19)
    if not qed:
        g = np.array([_rand_constrained(rng, 2, (1, 1)) for _ in range(oq)])
        K = np.array(ex.singlet_variation(g.copy(), a_s, (oq, 0), nf, L, 2))
        if np.abs(K.sum(axis=0) - 1).max() > 1e-9:
            return {"detail": "expanded singlet_variation order %d nf %d breaks the sum rule: column sums %r" % (oq, nf, K.sum(axis=0).tolist())}
        out = xp.gamma_variation(g.copy(), (oq, 0), nf, L)
        if out is None or np.abs(np.array(out).sum(axis=1)).max() > 1e-9:
            return {"detail": "exponentiated gamma_variation order %d nf %d breaks the sum rule" % (oq, nf)}
        return None
    v = np.array([1, 1, 1, 0])
    for running in (True, False):
        G = np.zeros((oq + 1, oe + 1, 4, 4), dtype=complex)
        for i in range(oq + 1):
            for j in range(oe + 1):
                if (i, j) != (0, 0):
                    G[i, j] = _rand_constrained(rng, 4, (1, 1, 1, 0))
        K = np.array(ex.singlet_variation_qed(G.copy(), a_s, a_em, running, tuple(order), nf, L))
        if np.abs(v @ K - v).max() > 1e-9:
            return {"detail": "expanded singlet_variation_qed order %r nf %d running=%s: v.K = %r" % (order, nf, running, (v @ K).tolist())}
        out = xp.gamma_variation_qed(G.copy(), tuple(order), nf, 3, L, running)
        if out is None:
            return {"detail": "exponentiated gamma_variation_qed(order=%r, alphaem_running=%s) returned None instead of the adjusted anomalous dimensions" % (order, running)}
        if np.abs(np.einsum("r,ijrc->ijc", v, np.array(out))).max() > 1e-9:
            return {"detail": "exponentiated gamma_variation_qed order %r nf %d running=%s breaks the sum rule" % (order, nf, running)}
    return None


def replay_ome(point, morder, method):
    import numpy as np
    import importlib

    qk = importlib.import_module("eko.evolution_operator.quad_ker")

    a_s = float(point.get("a_s", 0.02))
    rng = np.random.default_rng(23)
    A = np.array([_rand_constrained(rng, 3, (1, 1, 1), 5.0) for _ in range(max(morder, 1))])
    ome = np.array(qk.build_ome(A, (morder, 0), a_s, qk.MatchingMethods[method]), dtype=complex)
    if np.abs(ome.sum(axis=0) - 1).max() > 1e-9:
        return {"detail": "build_ome %s order %d: column sums %r != 1 for sum-rule-respecting A_k" % (method, morder, ome.sum(axis=0).tolist())}
    return None


def main():
    chk = H.Check("C11")
    thorough = H.tier() == "thorough"
    chk.bounds = ["singlet: all 8 methods, orders 1-3 (quick) and 4 (thorough; perturbative methods at order 4 through their U_k / R_k building blocks), symbolic beta_k, momentum-conserving symbolic gamma_k; iterate with 2 iterations, perturbative with 1; decompose at orders >= 3 decided on the exponent handed to exp_matrix_2D (v.M == 0) together with C23",
                  "QED singlet iterate: 2 symbolic steps, orders (1,1),(2,1) (quick) + (2,2) (thorough), exp_matrix by its series through eps^3",
                  "scale variations: expanded singlet (QCD, QED) and exponentiated, orders 1-4 / (1..3,1..2), nf 3-6; alpha_em running on and off",
                  "build_ome: forward, expanded inverse, exact inverse; matching orders 0-3; 3x3 symbolic A_k"]
    chk.stubs = ["eko.beta -> symbolic (BetaProxy)", "as4 roots -> symbolic roots + Vieta", "ekore exp_matrix -> power series (QED)"]
    chk.out_of_claim = ["floating point; iteration counts above 2 (each additional step multiplies by a factor with the same property: product of column-stochastic-like matrices)"]
    for o in ((1, 2, 3, 4) if thorough else (1, 2, 3)):
        for mth in METHODS:
            if o == 1 and mth != "ITERATE_EXACT":
                continue
            if o >= (4 if thorough else 3) and mth.startswith("PERTURBATIVE"):
                continue  # order 3: ~20 min each (thorough tier only); order 4: > 90 min -- decided through the U_k / R_k building blocks (case_uvec) instead
            chk.case("singlet.%s.o%d" % (mth, o), case_singlet, order=o, method=mth)
    for o in (3, 4):
        for ex in (True, False):
            chk.case("singlet.uvec.o%d.%s" % (o, "exact" if ex else "expanded"), case_uvec, order=o, is_exact=ex)
    for o in (2, 3, 4):
        chk.case("singlet.truncated.combination.o%d" % o, case_truncated_combination, order=o)
    for od in ([(1, 1), (2, 1)] if not thorough else [(1, 1), (2, 1), (2, 2)]):  # (3,2): > 24 GB of residual polynomials, outside the bound
        chk.case("qed.iterate.o%d%d" % od, case_qed_iterate, order=od)
    for nf in ((3, 4, 5, 6) if thorough else (4,)):
        for o in (1, 2, 3, 4):
            chk.case("sv.qcd.o%d.nf%d" % (o, nf), case_sv, order=(o, 0), nf=nf, qed=False)
        for od in ((1, 1), (2, 2), (3, 2), (4, 2)):
            chk.case("sv.qed.o%d%d.nf%d" % (od[0], od[1], nf), case_sv, order=od, nf=nf, qed=True)
    for kind in ("qcd", "qed", "ome"):
        chk.case("assembled.%s" % kind, case_assembled, kind=kind)
        if kind != "ome":
            chk.case("assembled.%s.expanded" % kind, case_assembled, kind=kind, mode="expanded")
    for mo in (0, 1, 2, 3):
        for mth in ("FORWARD", "BACKWARD_EXPANDED", "BACKWARD_EXACT"):
            chk.case("ome.%s.o%d" % (mth, mo), case_ome, morder=mo, method=mth)
    return chk.run()


if __name__ == "__main__":
    import sys

    sys.exit(main())
