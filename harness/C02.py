"""C02  Each final EKO is the ordered product of the parts along its matched path.

Real functions executed symbolically, unmodified:
  eko.runner.managed.solve, eko.runner.recipes.{create,_create,_elements},
  eko.runner.operators.{retrieve,_parts,_retrieve,join,_dotop,_dot4}, eko.runner.commons.atlas,
  eko.io.runcards.masses (pole branch), eko.matchings.Atlas.*, eko.io.items.{Evolution,Matching,Target,Operator}
  (dataclass equality / hashing on symbolic scales), eko.io.struct.EKO.{load_recipes,__delattr__},
  eko.io.inventory.Inventory.{__delitem__,__iter__,empty} (cache semantics).

Symbolic inputs: heavy-quark masses and matching ratios (walls w_q = (k_q m_q)^2), the initial scale and every
target scale; part tensors are arrays of fresh symbols (non-commuting as matrices).  (nf0; nf of each target)
are enumerated.  Scalars hash to a constant, so that Python's set / dict logic on headers is decided by `==`
on symbolic scales, i.e. by the solver (the run forks where two scales may or may not coincide).

Stubs (contract only): the archive (EKO.create/builder, Inventory disk I/O: a header->content store that
survives cache flushes) and the numerical parts (parts.evolve / parts.match return a fresh tensor per call).

Goals per path of the run:
  product     operators[Target(ep)] == P_n ... P_1 with P_i the stored part of the i-th element of the
              flavour-number path written down independently from the statement (later on the left)
  once        every needed part was computed and stored exactly once, nothing else was computed; the identity of an
              evolution part is (origin, target, nf, cliff) with cliff = "not the last segment of the path" (it becomes
              is_threshold in parts.evolve), so a cliff part is never accepted in place of a non-cliff one or vice versa
  join.error  the error rule of _dotop/join: err(AB) = |A| dB + dA |B| accumulated in join order, None if any is None
"""
import itertools
from fractions import Fraction

import numpy as np
import z3

from .common import *  # noqa
from symx.solver import prove_formula
from symx import harness as H
from symx import shim as _shim
from symx import poly as P
from symx.val import EngineError
from . import C19 as R
from .C19 import zb, zeq, zand, Decider, RunnerNumpy, oracle_path

MOD = "harness.C02"

# set / dict semantics on headers with symbolic scales: hash must not separate values that may be equal
SR.__hash__ = lambda self: 0


# ---------------------------------------------------------------------------
# path manager with per-path memo (the run repeats the same comparisons many times)
# ---------------------------------------------------------------------------
class MemoPM(S.PathManager):
    _FLIP = {"==0": "!=0", "!=0": "==0", "<0": ">=0", ">=0": "<0", ">0": "<=0", "<=0": ">0"}

    def decide(self, b):
        if hasattr(b, "e"):
            return super().decide(b)
        k = (b.p.key(), b.rel)
        r = self.memo.get(k)
        if r is not None:
            return r
        r = super().decide(b)
        self.memo[k] = r
        self.memo[(k[0], self._FLIP[b.rel])] = not r
        return r

    def explore(self, fn):
        self.pending = [[]]
        results = []
        while self.pending:
            if self.paths >= self.max_paths:
                raise S.PathBudgetExceeded("more than %d paths" % self.max_paths)
            self.prefix = self.pending.pop()
            self.trace = []
            self.pos = 0
            self.pc = []
            self.memo = {}
            ctx.reset()
            ctx.path = self
            try:
                r = fn()
            finally:
                ctx.path = None
            self.paths += 1
            results.append(r)
        return results


def explore(fn, max_paths=3000, timeout_ms=5000):
    pm = MemoPM(max_paths, timeout_ms)
    return pm.explore(fn), pm


def same(a, b):
    """are two scales equal on this path? (decided by the solver through the path manager; forks if open)"""
    r = a == b
    if isinstance(r, bool):
        return r
    R.TOUCH["sym"] = True
    return bool(r)


# ---------------------------------------------------------------------------
# numpy facade of eko.runner.operators: |x| as an algebraic atom (no 2^n sign forks)
# ---------------------------------------------------------------------------
def sym_abs(x):
    """|x| for a symbolic real: atom A with A >= 0, A^2 = x^2 (interned per argument)."""
    if not isinstance(x, SR):
        return abs(x)
    if x.is_const():
        return SR(Q(Poly.const(abs(Fraction(x.const_value())))))
    q = x.v.canon()
    if q.den:
        raise EngineError("abs of a rational function")
    key = ("abs", q.key())
    rec = ctx.atoms.get(key)
    if rec is None:
        # an atom that is already an absolute value (or a sum/product of such) stays as it is only if it is
        # literally one abs atom; otherwise introduce a new one
        name = ctx.fresh("abs")
        a = Poly.var(name)
        P.add_relation(P.INDEX[name], 2, q.n * q.n)
        ctx.side.append((a, ">=0"))
        ctx.atom_info[P.INDEX[name]] = {"fn": "abs", "arg": q}
        rec = ctx.atoms[key] = a
    return SR(Q(rec))


class OpsNumpy(RunnerNumpy):
    def abs(self, x, out=None):
        if isinstance(x, np.ndarray) and x.dtype == object:
            r = _shim.emap(sym_abs, x)
        elif isinstance(x, SR):
            r = sym_abs(x)
        else:
            r = np.abs(x)
        if out is None:
            return r
        out[...] = r  # numpy's out= semantics: the result is written into (and is) `out`
        return out

    absolute = abs


# ---------------------------------------------------------------------------
# the world: real modules, duck-typed cards, archive model, stub parts
# ---------------------------------------------------------------------------
class NS:
    def __init__(self, **kw):
        self.__dict__.update(kw)


class _Access:
    def assert_open(self):
        pass

    def assert_writeable(self):
        pass


def load_world():
    import importlib

    w = NS()
    w.mat = R.sym_runner_module("eko.matchings")
    w.com = R.sym_runner_module("eko.runner.commons")
    w.rec = importlib.import_module("eko.runner.recipes")
    w.ops = importlib.import_module("eko.runner.operators")
    _shim.install(w.ops, np=OpsNumpy())
    w.man = importlib.import_module("eko.runner.managed")
    w.items = importlib.import_module("eko.io.items")
    w.struct = importlib.import_module("eko.io.struct")
    w.inv = importlib.import_module("eko.io.inventory")
    w.runcards = importlib.import_module("eko.io.runcards")
    from eko.quantities.heavy_quarks import QuarkMassScheme
    from eko.io.types import EvolutionMethod

    w.POLE = QuarkMassScheme.POLE
    w.METHOD = EvolutionMethod.ITERATE_EXACT
    RealInventory = w.inv.Inventory

    class ModelInventory(RealInventory):
        """Inventory whose disk side is a header->content list; the cache side (cache dict, __delitem__, __iter__,
        empty) is the real class."""

        def __init__(self, *a, **k):
            RealInventory.__init__(self, *a, **k)
            object.__setattr__(self, "disk", [])  # [header, content]
            object.__setattr__(self, "writes", [])  # every __setitem__ in order

        def _on_disk(self, header):
            return [e for e in self.disk if e[0] == header]

        def __getitem__(self, header):
            self.access.assert_open()
            try:
                op = self.cache[header]
                if op is not None or self.contentless:
                    return op
            except KeyError:
                pass
            found = self._on_disk(header)
            if len(found) != 1:
                raise w.inv.LookupError("%d items for %r" % (len(found), header))
            if self.contentless:
                self.cache[header] = None
                return None
            op = _copy_op(w, found[0][1])  # loading de-serialises: a fresh object every time
            self.cache[header] = op
            return op

        def __setitem__(self, header, operator):
            self.access.assert_writeable()
            self.writes.append((header, operator))
            found = self._on_disk(header)
            if self.contentless:
                if not found:
                    self.disk.append([header, None])
                self.cache[header] = None
                return
            assert operator is not None
            saved = _copy_op(w, operator)  # saving serialises: later in-place changes of `operator` do not reach the disk
            if found:
                found[0][1] = saved
            else:
                self.disk.append([header, saved])
            self.cache[header] = operator

    w.ModelInventory = ModelInventory

    class ModelEKO:
        """What managed.solve / recipes.create / operators.retrieve read from an EKO."""

        load_recipes = w.struct.EKO.load_recipes
        __delattr__ = w.struct.EKO.__delattr__

        def __init__(self, theory, operator):
            d = self.__dict__
            d["theory_card"] = theory
            d["operator_card"] = operator
            for name, ht, cl in (("recipes", w.items.Evolution, True), ("recipes_matching", w.items.Matching, True),
                                 ("parts", w.items.Evolution, False), ("parts_matching", w.items.Matching, False),
                                 ("operators", w.items.Target, False)):
                d[name] = ModelInventory(None, _Access(), ht, contentless=cl, name=name)

    class _Builder:
        def __init__(self, sink):
            self.sink = sink

        def load_cards(self, theory, operator):
            self.t, self.o = theory, operator
            return self

        def build(self):
            eko = ModelEKO(self.t, self.o)
            self.sink.append(eko)
            return eko

    class ModelEKOFactory:
        built = []

        @classmethod
        def create(cls, path):
            import contextlib

            @contextlib.contextmanager
            def cm():
                yield _Builder(cls.built)

            return cm()

    w.Factory = ModelEKOFactory
    w.man.EKO = ModelEKOFactory
    w.state_modules = [w.mat, w.com, w.rec, w.ops, w.man, w.items, w.struct, w.inv, w.runcards]
    snapshot_state(w)
    return w


def snapshot_state(w):
    """remember the module-level mutable containers of the analysed modules as they are in a fresh process"""
    if getattr(snapshot_state, "snap", None) is None:
        snap = {}
        for mod in w.state_modules:
            for name, val in list(vars(mod).items()):
                if not name.startswith("__") and isinstance(val, (dict, list, set)):
                    snap[(mod.__name__, name)] = (val, type(val)(val))
        snapshot_state.snap = snap
    w.snap = snapshot_state.snap


def fresh_process_state(w):
    """every path of the exploration starts from the state of a fresh interpreter: module-level containers are restored and
    memoising wrappers (functools caches) are cleared; state then accumulates only through the calls of the run itself"""
    for (_mod, _name), (obj, content) in w.snap.items():
        obj.clear()
        if isinstance(obj, dict):
            obj.update(content)
        elif isinstance(obj, list):
            obj.extend(content)
        else:
            obj.update(content)
    for mod in w.state_modules:
        for name, val in list(vars(mod).items()):
            if name.startswith("__"):
                continue
            if isinstance(val, (dict, list, set)) and (mod.__name__, name) not in w.snap:
                val.clear()  # a container that did not exist when the module was first seen by this process
            cc = getattr(val, "cache_clear", None)
            if callable(cc):
                cc()


def _copy_op(w, op):
    if op is None:
        return None
    return w.items.Operator(op.operator.copy(), None if op.error is None else op.error.copy())


def _same_entries(a, b):
    """same symbols entry by entry (object identity of the immutable values)"""
    if a is None or b is None:
        return a is None and b is None
    return a.shape == b.shape and all(x is y for x, y in zip(a.flat, b.flat))


class StubParts:
    """parts.evolve / parts.match by contract: an Operator for the recipe; fresh symbols per call."""

    def __init__(self, w, shape, with_error=False):
        self.w = w
        self.shape = shape
        self.calls = []  # (kind, recipe, Operator)
        self.with_error = with_error

    def _tensor(self, tag):
        t = np.empty(self.shape, dtype=object)
        for idx in np.ndindex(self.shape):
            t[idx] = SR.var("%s_%s" % (tag, "".join(map(str, idx))))
        return t

    def evolve(self, eko, recipe):
        n = len(self.calls)
        op = self.w.items.Operator(self._tensor("E%d" % n), self._tensor("dE%d" % n) if self.with_error else None)
        self.calls.append(("evolve", recipe, _copy_op(self.w, op)))
        if self.with_error:
            for e in op.error.flat:
                assume(e, ">=0")
        return op

    def match(self, eko, recipe):
        n = len(self.calls)
        op = self.w.items.Operator(self._tensor("M%d" % n), self._tensor("dM%d" % n) if self.with_error else None)
        self.calls.append(("match", recipe, _copy_op(self.w, op)))
        if self.with_error:
            for e in op.error.flat:
                assume(e, ">=0")
        return op


def make_cards(w, nf0, targets, ratios="sym", coincide=(), ordered=True, names=("m", "k", "mu0", "t")):
    """symbolic cards. targets: list of nf (or None); returns (theory, operator, W, mu0, ts).
    coincide: list of ('t0','w2') / ('t1','t0') / ('mu0','w1') pairs forcing a scale to be another one."""
    nm, nk, nmu, nt_ = names
    ms = [SR.var("%s%d" % (nm, q)) for q in (4, 5, 6)]
    for m_ in ms:
        assume(m_, ">0")
    if ratios == "sym":
        ks = [SR.var("%s%d" % (nk, q)) for q in (4, 5, 6)]
        for k_ in ks:
            assume(k_, ">0")
    else:
        ks = [1.0, 2.0, 0.5]
    W = [k_ * k_ * m_ * m_ for k_, m_ in zip(ks, ms)]  # the statement's walls: (ratio * mass)^2
    if ordered:
        assume(W[1] - W[0], ">0")
        assume(W[2] - W[1], ">0")
    named = {"w1": W[0], "w2": W[1], "w3": W[2]}
    co = dict(coincide)

    def scale(name):
        if name in co:
            return named[co[name]]
        v = SR.var(name)
        assume(v, ">0")
        return v

    mu0 = named["mu0"] = scale(nmu)
    ts = []
    for i, _nf in enumerate(targets):
        t = named["t%d" % i] = scale("%s%d" % (nt_, i))
        ts.append(t)
    R.finite_below_inf(mu0, *(ts + W))
    # duck-typed cards carrying the fields of the real TheoryCard / OperatorCard (so that code reading more of them still runs)
    theory = NS(order=(1, 0), xif=1.0, n3lo_ad_variation=(0,) * 7, use_fhmruvv=True, matching_order=(0, 0),
                couplings=NS(alphas=0.118, alphaem=0.007496252, ref=(91.2, 5), em_running=False),
                heavy=NS(masses=[NS(value=m_, scale=None) for m_ in ms], masses_scheme=w.POLE, matching_ratios=list(ks)))
    operator = NS(mu20=mu0, init=(None, nf0), evolgrid=[(t, nf) for t, nf in zip(ts, targets)],
                  configs=NS(evolution_method=w.METHOD, ev_op_iterations=1, ev_op_max_order=(10, 0), polarized=False, time_like=False,
                             n_integration_cores=1, scvar_method=None, inversion_method=None, interpolation_polynomial_degree=1, interpolation_is_log=True))
    return theory, operator, W, mu0, ts


# ---------------------------------------------------------------------------
# oracle side
# ---------------------------------------------------------------------------
def dot4_plain(L, Rr):
    """(L . R)[a,i,c,k] = sum_{b,j} L[a,i,b,j] R[b,j,c,k]   (plain loops, independent of einsum)"""
    A, I, B, J = L.shape
    B2, J2, C, K = Rr.shape
    assert (B, J) == (B2, J2)
    out = np.empty((A, I, C, K), dtype=object)
    for a in range(A):
        for i in range(I):
            for c in range(C):
                for k in range(K):
                    tot = 0
                    for b in range(B):
                        for j in range(J):
                            tot = tot + L[a, i, b, j] * Rr[b, j, c, k]
                    out[a, i, c, k] = tot
    return out


def product_later_left(tensors):
    """tensors in path order (origin -> target); result = T_n . ... . T_1"""
    res = tensors[0]
    for t in tensors[1:]:
        res = dot4_plain(t, res)
    return res


def tensors_equal(a, b):
    if a is None or b is None:
        return z3.BoolVal(a is None and b is None)
    if a.shape != b.shape:
        return z3.BoolVal(False)
    return zand(zeq(a[idx] + SR(0), b[idx] + SR(0)) for idx in np.ndindex(a.shape))


def path_elements(W, origin, target):
    """the independently written path; an evolution element is ('seg', a, b, nf, cliff): the segments that end on a matching
    scale *as a step of the path* (all but the last one) are cliffs, the last one reaches the target and is not - also
    when the target sits exactly on a matching scale.  cliff is part of the identity of a part (it becomes is_threshold)."""
    els = oracle_path(W, origin, target)
    return [e + (i < len(els) - 1,) if e[0] == "seg" else e for i, e in enumerate(els)]


def _seg_matches(w, header, el):
    """does a stored header describe the oracle element el (including the cliff flag of an evolution)?"""
    if el[0] == "seg":
        return (isinstance(header, w.items.Evolution) and header.nf == el[3] and bool(header.cliff) == bool(el[4])
                and same(header.origin, el[1]) and same(header.target, el[2]))
    return isinstance(header, w.items.Matching) and header.hq == el[2] and bool(header.inverse) == bool(el[3]) and same(header.scale, el[1])


def _same_header(w, ha, hb):
    """field-by-field identity of two headers (own comparison, not the dataclass __eq__ under test)"""
    if type(ha) is not type(hb):
        return False
    if isinstance(ha, w.items.Evolution):
        return ha.nf == hb.nf and bool(ha.cliff) == bool(hb.cliff) and same(ha.origin, hb.origin) and same(ha.target, hb.target)
    return ha.hq == hb.hq and bool(ha.inverse) == bool(hb.inverse) and same(ha.scale, hb.scale)


def _verify(w, eko, stub, W, mu0, ts, nf0, targets, dec, with_error=False):
    """all obligations of one solve: needed parts stored once, each target's operator (and error) is the ordered product"""
    # ---- independent description of what is needed -------------------------------------------
    needed = []  # oracle elements over all targets
    per_target = []
    for t, nf in zip(ts, targets):
        els = path_elements(W, (mu0, nf0), (t, nf))
        per_target.append(els)
        needed.extend(els)
    ev_writes = eko.parts.writes
    ma_writes = eko.parts_matching.writes
    # ---- every part computed and stored exactly once -----------------------------------------
    ok_once = True
    why = []
    allw = [("evolve", h, op) for h, op in ev_writes] + [("match", h, op) for h, op in ma_writes]
    for (ka, ha, _oa), (kb, hb, _ob) in itertools.combinations(allw, 2):
        if ka == kb and _same_header(w, ha, hb):
            ok_once = False
            why.append("stored twice: %r" % (ha,))
    for el in needed:
        pool = ev_writes if el[0] == "seg" else ma_writes
        n = sum(1 for h, _op in pool if _seg_matches(w, h, el))
        if n != 1:
            ok_once = False
            why.append("needed element %r stored %d times" % (el[:1] + el[3:], n))
    for kind, h, _op in allw:
        if not any(_seg_matches(w, h, el) for el in needed):
            ok_once = False
            why.append("stored but not needed: %r" % (type(h).__name__,))
    dec(z3.BoolVal(ok_once), "every needed part is stored exactly once and nothing else is", "recipes._create:once")
    calls_ok = len(stub.calls) == len(allw) and all(any(_same_entries(op.operator, op2.operator) for _k2, _h2, op2 in allw) for _k, _r, op in stub.calls)
    # the archive holds what was computed (nothing altered the parts between computation and storage)
    on_disk = [op for _h, op in eko.parts.disk] + [op for _h, op in eko.parts_matching.disk]
    calls_ok = calls_ok and len(on_disk) == len(stub.calls) and all(
        any(_same_entries(op.operator, d.operator) and _same_entries(op.error, d.error) for d in on_disk) for _k, _r, op in stub.calls)
    kinds_ok = all((k == "evolve") == isinstance(r, w.items.Evolution) for k, r, _o in stub.calls)
    dec(z3.BoolVal(calls_ok and kinds_ok), "each part is computed once, evolutions by evolve and matchings by match", "managed.solve:once")
    # ---- product --------------------------------------------------------------------------------
    for (t, nf), els in zip(zip(ts, targets), per_target):
        stored = [op for h, op in eko.operators.disk if isinstance(h, w.items.Target) and (h.nf == nf) and same(h.scale, t)]
        if len(stored) != 1:
            dec(z3.BoolVal(False), "exactly one operator stored for target nf=%s" % nf, "managed.solve:target")
            continue
        tens = []
        missing = False
        for el in els:
            pool = eko.parts.disk if el[0] == "seg" else eko.parts_matching.disk
            cands = [op for h, op in pool if _seg_matches(w, h, el)]
            if not cands:
                missing = True
                break
            tens.append(cands)
        if missing:
            dec(z3.BoolVal(False), "all parts of the path of target nf=%s are in the archive" % nf, "operators.retrieve:parts")
            continue
        goal = z3.Or([tensors_equal(stored[0].operator, product_later_left([c.operator for c in choice])) for choice in itertools.product(*tens)])
        dec(goal, "operator of target nf=%s == ordered product (later on the left) of the %d parts of its path" % (nf, len(els)),
            "operators.join:product")
        if with_error:
            goal = z3.Or([tensors_equal(stored[0].error, oracle_join(list(choice))[1]) for choice in itertools.product(*tens)])
            dec(goal, "error of target nf=%s == |A| dB + dA |B| accumulated along its path" % nf, "operators._dotop:error")
        else:
            dec(z3.BoolVal(stored[0].error is None), "no error array when the parts have none", "operators._dotop:error-none")


# ---------------------------------------------------------------------------
# cases
# ---------------------------------------------------------------------------
def case_solve(log, nf0, targets, shape=(2, 1, 2, 1), ratios="sym", coincide=(), max_paths=3000, ordered=True, with_error=False):
    w = load_world()
    log.encode(w.man.solve, w.rec.create, w.rec._create, w.rec._elements, w.ops.retrieve, w.ops._parts, w.ops._retrieve, w.ops.join,
               w.ops._dotop, w.ops._dot4, w.com.atlas, w.runcards.masses, w.mat.Atlas.matched_path, w.mat.Atlas.path,
               w.items.Evolution.from_atlas, w.items.Matching.from_atlas, w.items.Target.from_ep, w.struct.EKO.load_recipes,
               w.struct.EKO.__delattr__, w.inv.Inventory.__delitem__, w.inv.Inventory.empty)
    decide = Decider(log)
    kw = {"nf0": nf0, "targets": list(targets), "coincide": [list(c) for c in coincide], "ordered": ordered, "with_error": with_error}
    tag = "[nf0=%s targets=%s%s%s%s]" % (nf0, list(targets), (" " + ",".join("%s=%s" % c for c in coincide)) if coincide else "",
                                       "" if ordered else " matching scales in any order", " parts with errors" if with_error else "")

    def run():
        fresh_process_state(w)
        theory, operator, W, mu0, ts = make_cards(w, nf0, targets, ratios, coincide, ordered)
        stub = StubParts(w, shape, with_error=with_error)
        w.man.parts = stub
        del w.Factory.built[:]
        w.man.solve(theory, operator, "/nonexistent/eko.tar")
        eko = w.Factory.built[0]

        def dec(goal, what, key):
            sym = R.touched()
            v = prove_formula(goal, what + " " + tag)
            if not v.holds and not v.model:
                # the goal is a concrete False on this path: a point of the path (its scale coincidences) is the counterexample
                _rs, pt = S.reachable()
                v.model = pt or None
            decide(v, key, (MOD, "replay_solve", kw), sampler=lambda rng: _sampler(rng, len(targets)), nontrivial=sym)

        _verify(w, eko, stub, W, mu0, ts, nf0, targets, dec, with_error)
        log.twin("domain " + tag)
        log.collect_ctx()

    _r, pm = explore(run, max_paths=max_paths)
    log.path_stats(pm)


def case_twice(log, nf0, targets, vary, shape=(2, 1, 2, 1), max_paths=3000):
    """two solve() calls in ONE process (no reset in between), the second with cards that differ from the first in `vary`
    ('ratios': same masses, other matching ratios; 'masses': other masses, same ratios; 'init': other initial and target scales).
    A solve is a function of its cards: every obligation must hold for both runs."""
    w = load_world()
    log.encode(w.man.solve, w.rec.create, w.rec._create, w.rec._elements, w.ops.retrieve, w.ops._parts, w.ops.join, w.com.atlas, w.runcards.masses,
               w.mat.Atlas.__init__, w.mat.Atlas.matched_path)
    decide = Decider(log)
    kw = {"nf0": nf0, "targets": list(targets), "vary": vary}
    fam = {"ratios": ("m", "kb", "mu0", "t"), "masses": ("mb", "k", "mu0", "t"), "init": ("m", "k", "mub", "tb")}[vary]

    def run():
        fresh_process_state(w)
        for label, names in (("first run", ("m", "k", "mu0", "t")), ("second run in the same process, other %s" % vary, fam)):
            theory, operator, W, mu0, ts = make_cards(w, nf0, targets, "sym", (), True, names)
            stub = StubParts(w, shape)
            w.man.parts = stub
            del w.Factory.built[:]
            w.man.solve(theory, operator, "/nonexistent/eko.tar")
            eko = w.Factory.built[0]
            tag = "[nf0=%s targets=%s, %s]" % (nf0, list(targets), label)

            def dec(goal, what, key, tag=tag):
                sym = R.touched()
                v = prove_formula(goal, what + " " + tag)
                if not v.holds and not v.model:
                    _rs, pt = S.reachable()
                    v.model = pt or None
                decide(v, key, (MOD, "replay_twice", kw), sampler=_sampler_twice, nontrivial=sym)

            _verify(w, eko, stub, W, mu0, ts, nf0, targets, dec)
        log.twin("domain [nf0=%s targets=%s two runs]" % (nf0, list(targets)))
        log.collect_ctx()

    _r, pm = explore(run, max_paths=max_paths)
    log.path_stats(pm)


def _sampler_twice(rng):
    def three(lo, hi):
        return sorted(rnd(rng, lo, hi, 4) for _ in range(3))

    m = three(1, 12)
    mb = three(1, 12)
    p = {"mu0": rnd(rng, 1, 400, 1), "mub0": rnd(rng, 1, 400, 1)}
    for i, q in enumerate((4, 5, 6)):
        p["m%d" % q] = m[i] + i
        p["mb%d" % q] = mb[i] + i
        p["k%d" % q] = rng.choice([Fraction(1), Fraction(3, 2), Fraction(2)])
        p["kb%d" % q] = rng.choice([Fraction(1, 2), Fraction(3, 4), Fraction(5, 4)])
    for i in range(3):
        p["t%d" % i] = rnd(rng, 1, 600, 1)
        p["tb%d" % i] = rnd(rng, 1, 600, 1)
    return p


def case_join(log, n, shape=(2, 1, 2, 1), none_at=None):
    """join/_dotop on n operators with symbolic errors: value and error rule."""
    w = load_world()
    log.encode(w.ops.join, w.ops._dotop, w.ops._dot4)
    decide = Decider(log)
    kw = {"n": n, "shape": list(shape), "none_at": none_at}
    tag = "[n=%d shape=%s none_at=%s]" % (n, shape, none_at)

    def run():
        stub = StubParts(w, shape, with_error=True)
        ops = []
        for i in range(n):
            op = stub.evolve(None, None)
            if none_at == i:
                op = w.items.Operator(op.operator, None)
            ops.append(op)
        pristine = [_copy_op(w, op) for op in ops]
        got = w.ops.join(ops)
        val, err = oracle_join(pristine)

        def dec(goal, what, key):
            sym = R.touched()
            v = prove_formula(goal, what + " " + tag)
            decide(v, key, (MOD, "replay_join", kw), sampler=lambda rng: {"seed": rng.randint(0, 10**6)}, nontrivial=sym)

        dec(tensors_equal(got.operator, val), "join == product with later elements on the left", "operators.join:product")
        dec(tensors_equal(got.error, err), "error == |A| dB + dA |B| accumulated along the join (None if an input has none)", "operators._dotop:error")
        dec(zand([tensors_equal(a.operator, b.operator) for a, b in zip(ops, pristine)] + [tensors_equal(a.error, b.error) for a, b in zip(ops, pristine)]),
            "join leaves the operators it is given unchanged (they stay cached and are shared between targets)", "operators._dotop:inputs-unchanged")
        log.twin("domain " + tag)
        log.collect_ctx()

    _r, pm = explore(run)
    log.path_stats(pm)


def oracle_join(ops):
    """value and error of the join of operators given in path order (origin -> target): accumulate from the target side,
    err(A B) = |A| dB + dA |B| (the documented linear propagation), None as soon as one factor has no error."""
    val = ops[-1].operator
    err = ops[-1].error
    for op in reversed(ops[:-1]):
        if err is not None and op.error is not None:
            err = _add(dot4_plain(_absarr(val), _absarr(op.error)), dot4_plain(_absarr(err), _absarr(op.operator)))
        else:
            err = None
        val = dot4_plain(val, op.operator)
    return val, err


def _absarr(a):
    return _shim.emap(sym_abs, a)


def _add(a, b):
    out = np.empty(a.shape, dtype=object)
    for idx in np.ndindex(a.shape):
        out[idx] = a[idx] + b[idx]
    return out


def _sampler(rng, nt):
    ws = sorted(rnd(rng, 2, 300, 1) for _ in range(3))
    while len(set(ws)) < 3:
        ws = sorted(rnd(rng, 2, 300, 1) for _ in range(3))
    p = {"w1": ws[0], "w2": ws[1], "w3": ws[2], "mu0": rnd(rng, 1, 320, 1)}
    for i in range(nt):
        p["t%d" % i] = rng.choice([rnd(rng, 1, 320, 1), ws[rng.randint(0, 2)], p["mu0"]])
    return p


# ---------------------------------------------------------------------------
# replays: REAL managed.solve on a real archive, numerical parts replaced by deterministic random tensors
# ---------------------------------------------------------------------------
def _tensor_for(kind, fields, shape):
    import hashlib

    h = hashlib.sha1(repr((kind,) + tuple(fields)).encode()).digest()
    rng = np.random.default_rng(int.from_bytes(h[:8], "little"))
    return rng.uniform(-1.0, 1.0, size=shape)


def _scales_from_point(point, nt, coincide, ordered=True):
    """rational model -> exactly representable linear scales; equal rationals get the identical float."""
    names = ["w1", "w2", "w3", "mu0"] + ["t%d" % i for i in range(nt)]
    q = {}
    if all(("m%d" % i) in point for i in (4, 5, 6)):
        fixed = {4: 1.0, 5: 2.0, 6: 0.5}  # the ratios of the cases run with ratios="fixed"
        for i, n in zip((4, 5, 6), ("w1", "w2", "w3")):
            k, m = R.point_value(point, "k%d" % i, fixed[i]), R.point_value(point, "m%d" % i)
            if k is None or m is None:
                return None
            q[n] = Fraction(k) ** 2 * Fraction(m) ** 2
    dflt = {"w1": 4.0, "w2": 20.25, "w3": 29952.0, "mu0": 2.5}
    for n in names:
        if n in q:
            continue
        v = R.point_value(point, n, dflt.get(n, 50.0 + 7 * len(q)))
        if v is None:
            return None
        q[n] = Fraction(v)
    for a, b in coincide:
        q[a] = q[b]
    if (ordered and not (0 < q["w1"] < q["w2"] < q["w3"])) or any(not (0 < q[n] < 10**12) for n in names):
        return None
    lin = {}
    for n in names:
        lin[n] = float(q[n]) ** 0.5
    # equal rationals -> identical floats
    for a in names:
        for b in names:
            if q[a] == q[b]:
                lin[b] = lin[a]
    return lin


def _real_run(masses, ratios, mu0, tlin, nf0, targets, with_error=False):
    """REAL managed.solve on a temp archive (linear masses / ratios / scales given), numerical parts replaced by deterministic
    stand-ins depending on the full recipe; returns the list of deviations from the independently written path."""
    import pathlib
    import shutil
    import tempfile

    from eko import EKO
    from eko import basis_rotation as br
    from eko import interpolation
    from eko.io.items import Evolution, Matching, Operator
    from eko.runner import managed, parts
    from ekobox import cards

    tc = cards.example.theory()
    oc = cards.example.operator()
    oc.xgrid = interpolation.XGrid([0.5, 1.0])
    oc.configs.interpolation_polynomial_degree = 1
    for q_, m_, k in zip("cbt", masses, ratios):
        setattr(tc.heavy.matching_ratios, q_, k)
        getattr(tc.heavy.masses, q_).value = m_
    oc.init = (mu0, nf0)
    oc.mugrid = [(t_, nf) for t_, nf in zip(tlin, targets)]
    nfl = len(br.flavor_basis_pids)
    shape = (nfl, 2, nfl, 2)  # (flavour, x, flavour, x) as the real parts
    calls = []

    def fake_evolve(eko, recipe):
        calls.append(recipe)
        assert isinstance(recipe, Evolution)
        # depends on cliff, as the real parts.evolve does (is_threshold=recipe.cliff)
        f = (recipe.origin, recipe.target, recipe.nf, bool(recipe.cliff))
        return Operator(_tensor_for("E", f, shape), np.abs(_tensor_for("dE", f, shape)) * 1e-3 if with_error else None)

    def fake_match(eko, recipe):
        calls.append(recipe)
        assert isinstance(recipe, Matching)
        f = (recipe.scale, recipe.hq, bool(recipe.inverse))
        return Operator(_tensor_for("M", f, shape), np.abs(_tensor_for("dM", f, shape)) * 1e-3 if with_error else None)

    old = parts.evolve, parts.match
    parts.evolve, parts.match = fake_evolve, fake_match
    d = tempfile.mkdtemp(prefix="c02_replay_")
    try:
        path = pathlib.Path(d) / "eko.tar"
        managed.solve(tc, oc, path)
        got = {}
        goterr = {}
        with EKO.read(path) as e:
            for ep, op in e.items():
                got[(float(ep[0]), ep[1])] = np.array(op.operator)
                goterr[(float(ep[0]), ep[1])] = None if op.error is None else np.array(op.error)
    finally:
        parts.evolve, parts.match = old
        shutil.rmtree(d, ignore_errors=True)
    # ---- oracle ---------------------------------------------------------------------------------
    walls = [k * k * m_ ** 2 for m_, k in zip(masses, ratios)]
    mu20 = mu0 ** 2
    bad = []
    needed = set()
    N = 2 * nfl
    for t_, nf in zip(tlin, targets):
        t2 = t_ ** 2
        els = path_elements(walls, (mu20, nf0), (t2, nf))
        prod = np.eye(N)
        mats = []
        for el in els:
            needed.add(el)
            kind, f = ("E", (el[1], el[2], el[3], bool(el[4]))) if el[0] == "seg" else ("M", (el[1], el[2], bool(el[3])))
            ten = _tensor_for(kind, f, shape)
            mats.append((ten.reshape(N, N), np.abs(_tensor_for("d" + kind, f, shape)).reshape(N, N) * 1e-3))
            prod = ten.reshape(N, N) @ prod  # later on the left
        if with_error:
            # |A| dB + dA |B| accumulated from the target side
            val, err = mats[-1]
            for o, do in reversed(mats[:-1]):
                err = np.abs(val) @ do + err @ np.abs(o)
                val = val @ o
            ge = goterr.get((t2, nf))
            if ge is None:
                bad.append("target (%r, %r) has no error array although every part has one" % (t2, nf))
            elif not np.allclose(ge.reshape(N, N), err, rtol=1e-9, atol=1e-13):
                bad.append("error of target (%r, %r) is not |A| dB + dA |B| accumulated along its path (max deviation %.3g)" % (t2, nf, float(np.max(np.abs(ge.reshape(N, N) - err)))))
        g = got.get((t2, nf))
        if g is None:
            bad.append("no operator stored for target (%r, %r); stored: %r" % (t2, nf, sorted(got, key=str)))
        elif not np.allclose(g.reshape(N, N), prod, rtol=1e-9, atol=1e-11):
            bad.append("operator for target (%r, %r) is not the ordered product of the %d parts of its path (max deviation %.3g)"
                       % (t2, nf, len(els), float(np.max(np.abs(g.reshape(N, N) - prod)))))
    done = [("seg", c.origin, c.target, c.nf, bool(c.cliff)) if isinstance(c, Evolution) else ("match", c.scale, c.hq, bool(c.inverse)) for c in calls]
    if len(set(done)) != len(done):
        bad.append("a part was computed more than once: %r" % (sorted(done, key=str),))
    if set(done) != needed:
        bad.append("computed parts %r differ from the needed parts: not needed %r, never computed %r (evolution = (a, b, nf, cliff))"
                   % (sorted(set(done), key=str), sorted(set(done) - needed, key=str), sorted(needed - set(done), key=str)))
    return bad, "walls=%r origin=(%r,%r) targets=%r" % (walls, mu20, nf0, [(t_ ** 2, nf) for t_, nf in zip(tlin, targets)])


def replay_solve(point, nf0, targets, coincide=(), ordered=True, with_error=False):
    nt = len(targets)
    lin = _scales_from_point(point, nt, [tuple(c) for c in coincide], ordered)
    if lin is None:
        return None
    ks = [1.0, 2.0, 0.5]
    bad, where = _real_run([lin[n] / k for n, k in zip(("w1", "w2", "w3"), ks)], ks, lin["mu0"], [lin["t%d" % i] for i in range(nt)], nf0, targets, with_error)
    if bad:
        return {"detail": "%s: %s" % (where, "; ".join(bad))}
    return None


def replay_twice(point, nf0, targets, vary):
    """two REAL managed.solve runs in one interpreter, the second one with cards differing in `vary`"""
    nt = len(targets)

    def val(name, dflt):
        v = R.point_value(point, name, dflt)
        return None if v is None or not (1e-6 < v < 1e6) else v

    A = dict(m=[val("m%d" % q, d) for q, d in zip((4, 5, 6), (1.5, 4.5, 170.0))], k=[val("k%d" % q, d) for q, d in zip((4, 5, 6), (1.0, 1.0, 1.0))],
             mu0=val("mu0", 1.2), t=[val("t%d" % i, 10.0 + 50 * i) for i in range(nt)])
    B = dict(A)
    if vary == "ratios":
        B["k"] = [val("kb%d" % q, d) for q, d in zip((4, 5, 6), (2.5, 0.6, 1.5))]
    elif vary == "masses":
        B["m"] = [val("mb%d" % q, d) for q, d in zip((4, 5, 6), (2.5, 6.0, 190.0))]
    else:
        B["mu0"] = val("mub0", 3.3)
        B["t"] = [val("tb%d" % i, 30.0 + 70 * i) for i in range(nt)]
    out = []
    for name, c in (("first run", A), ("second run in the same process", B)):
        if any(x is None for x in c["m"] + c["k"] + c["t"] + [c["mu0"]]):
            return None
        walls = [k * k * m_ * m_ for m_, k in zip(c["m"], c["k"])]
        if not walls[0] < walls[1] < walls[2]:
            return None
        # scales are squared in the symbolic run; the cards take linear ones
        bad, where = _real_run(c["m"], c["k"], c["mu0"] ** 0.5, [x ** 0.5 for x in c["t"]], nf0, targets)
        if bad:
            out.append("%s (%s): %s" % (name, where, "; ".join(bad)))
    if out:
        return {"detail": " | ".join(out)}
    return None


def replay_join(point, n, shape, none_at=None):
    from eko.io.items import Operator
    from eko.runner import operators

    seed = int(R.point_value(point, "seed", 1) or 1)
    rng = np.random.default_rng(seed)
    shape = tuple(shape)
    ops = []
    for i in range(n):
        ops.append(Operator(rng.uniform(-1, 1, size=shape), None if none_at == i else rng.uniform(0, 0.1, size=shape)))
    given = list(ops)
    ops = [Operator(o.operator.copy(), None if o.error is None else o.error.copy()) for o in given]  # pristine copies for the oracle
    got = operators.join(given)
    A = shape[0] * shape[1]
    val = ops[-1].operator.reshape(A, A)
    err = None if ops[-1].error is None else ops[-1].error.reshape(A, A)
    for op in reversed(ops[:-1]):
        o = op.operator.reshape(A, A)
        if err is not None and op.error is not None:
            err = np.abs(val) @ np.abs(op.error.reshape(A, A)) + np.abs(err) @ np.abs(o)
        else:
            err = None
        val = val @ o
    bad = []
    if not np.allclose(got.operator.reshape(A, A), val, rtol=1e-10, atol=1e-13):
        bad.append("join != product with later elements on the left")
    if (got.error is None) != (err is None):
        bad.append("error is %s but should be %s" % ("None" if got.error is None else "an array", "None" if err is None else "an array"))
    elif err is not None and not np.allclose(got.error.reshape(A, A), err, rtol=1e-10, atol=1e-13):
        bad.append("error != |A| dB + dA |B| (max deviation %.3g)" % float(np.max(np.abs(got.error.reshape(A, A) - err))))
    if any(not np.array_equal(a.operator, b.operator) or ((a.error is None) != (b.error is None)) or (a.error is not None and not np.array_equal(a.error, b.error))
           for a, b in zip(given, ops)):
        bad.append("join modified the operators it was given (they stay cached and are shared between targets)")
    if bad:
        return {"detail": "join of %d random operators of shape %r (seed %d): %s" % (n, shape, seed, "; ".join(bad))}
    return None


# ---------------------------------------------------------------------------
def main():
    thorough = H.tier() == "thorough"
    import eko.runner.managed  # noqa: F401  (imported once; forked workers rebind globals privately)

    chk = H.Check("C02")
    chk.explanation = ("Decided: for every target the stored operator is the product, later steps on the left, of the stored evolution and matching parts along its "
                       "flavour-number path (upward, downward, mixed; targets sharing parts), each needed part is computed and stored exactly once, and the error rule of the join. "
                       "Not decided: the numerical content of the parts and the byte-level archive round trip (both replaced by contract stubs).")
    chk.bounds = [
        "nf0 in {3,4,5,6}; 1 target: all nff in {3,4,5,6,None} (20 configurations, paths of 1-7 elements, 0-3 matchings, upward and downward); "
        "2 targets: %s; 3 targets: %s" % ("all 64 explicit nf pairs per nf0 in {3,4,5,6} plus default-nf pairs" if thorough else "16 selected configurations sharing parts (2 with default target nf)",
                                          "13 selected configurations" if thorough else "1 selected configuration"),
        "masses, matching ratios (walls strictly ordered w1 < w2 < w3), initial scale and all target scales symbolic positive reals; "
        "coincidences target = wall / target = target / target = initial scale are reached by forking on header equality; in addition %d two-target "
        "configurations with one target imposed exactly on a matching scale that the other target crosses (both listing orders)" % (14 if thorough else 6),
        "part tensors of shape %s with independent symbolic entries (matrix products do not commute)" % ("(2,1,2,1), (1,2,1,2) and (2,2,2,2)" if thorough else "(2,1,2,1) and (1,2,1,2)"),
        "error rule: join of 2..%d operators with symbolic errors >= 0, one input without error; join must leave its inputs unchanged; "
        "%d multi-target solve configurations whose parts carry errors (operator and error of every target decided)" % (4 if thorough else 3, 8 if thorough else 3),
        "%d configurations with the three matching scales in any order (explicit target nf)" % (10 if thorough else 4),
        "state across calls: %d configurations of two solve() calls in one process whose cards differ in the matching ratios / the masses / the initial and "
        "target scales (all symbolic); every path of the exploration starts from fresh module state (module-level containers restored, functools caches cleared)" % (9 if thorough else 4),
    ]
    chk.out_of_claim = [
        "archive round trip (npy/lz4/tar/yaml, file names derived from hash(header)): the Inventory disk side is a header->content model",
        "the numerical content of the parts (parts.evolve / parts.match are stubs returning a fresh tensor per call)",
        "coincident matching scales; default (None) target nf with unsorted matching scales (numpy.digitize refuses them); MSbar masses (msbar_masses.compute is numerical)",
        "nf0 = None (default initial nf) in the solve cases; more than 3 targets",
    ]
    chk.stubs = [
        "EKO.create(path)/builder -> model EKO holding five model inventories (real Inventory cache logic, disk = list of [header, content]; "
        "saving and loading copy the arrays, as serialisation does, so in-place changes of a cached operator never reach the disk but do reach later users of the cache)",
        "parts.evolve / parts.match -> Operator(tensor of fresh symbols, None), one per call, calls recorded",
        "numpy.abs in eko.runner.operators -> algebraic atom A >= 0, A^2 = x^2; numpy.inf -> symbol INF above every finite scale",
        "hash(symbolic scalar) = 0 so that dict/set behaviour on headers is decided by ==, i.e. by the solver",
        "theory/operator cards are duck-typed namespaces exposing heavy.masses[i].value, heavy.masses_scheme (pole), heavy.matching_ratios, "
        "mu20, init, evolgrid, configs.evolution_method",
    ]
    chk.assumptions = ["floats are read as exact reals", "matching scale of quark q is (matching_ratio_q * mass_q)^2 (documented meaning of the cards)"]
    three = [(4, (4, 4, 5))]
    # (long cases are scheduled first)
    if thorough:
        three += [(5, (3, 4, 4)), (3, (6, 5, 6)), (4, (5, 5, 6)), (3, (3, 4, 5)), (6, (5, 4, 3)), (4, (3, 6, 4)), (5, (5, 5, 5)), (4, (None, 5, None)), (6, (6, 3, 3)), (3, (4, 4, 6)), (5, (6, 6, 4)), (4, (4, 5, 3))]
    for nf0, tg in three:
        chk.case("solve.3.%s-%s" % (nf0, ",".join(map(str, tg))), case_solve, nf0=nf0, targets=list(tg), ratios="fixed")
    two = [(5, (4, None)), (3, (None, 4)), (3, (4, 5)), (3, (5, 5)), (3, (6, 4)), (4, (4, 4)), (4, (5, 3)), (4, (6, 6)), (5, (3, 3)), (5, (3, 4)),
           (5, (6, 4)), (6, (3, 5)), (6, (4, 4)), (6, (6, 5)), (3, (3, 3)), (5, (5, 6))]
    if thorough:
        two = [(4, (None, None)), (6, (None, 3))] + [(a, (b, c)) for a in (3, 4, 5, 6) for b in (3, 4, 5, 6) for c in (3, 4, 5, 6)] + [t for t in two if None in t[1]]
    for nf0, tg in two:
        chk.case("solve.2.%s-%s,%s" % (nf0, tg[0], tg[1]), case_solve, nf0=nf0, targets=list(tg), ratios="fixed")
    # one target exactly on a matching scale that the other target crosses through the same segment (the two parts differ
    # only in the cliff flag, i.e. is_threshold), in both listing orders; the equality of the scales is imposed
    onwall = [(4, (4, 5), ("t0", "w2")), (4, (5, 4), ("t1", "w2")), (5, (5, 4), ("t0", "w2")), (5, (4, 5), ("t1", "w2")),
              (3, (4, 5), ("t0", "w2")), (3, (5, 4), ("t1", "w2"))]
    if thorough:
        onwall += [(6, (6, 5), ("t0", "w3")), (6, (5, 6), ("t1", "w3")), (3, (3, 4), ("t0", "w1")), (3, (4, 3), ("t1", "w1")),
                   (6, (4, 3), ("t0", "w1")), (6, (3, 4), ("t1", "w1")), (4, (None, 6), ("t0", "w3")), (4, (6, None), ("t1", "w3"))]
    for nf0, tg, co in onwall:
        chk.case("solve.onwall.%s-%s,%s.%s=%s" % (nf0, tg[0], tg[1], co[0], co[1]), case_solve, nf0=nf0, targets=list(tg), ratios="fixed", coincide=[co])
        if thorough:
            chk.case("solve.onwall.symratios.%s-%s,%s.%s=%s" % (nf0, tg[0], tg[1], co[0], co[1]), case_solve, nf0=nf0, targets=list(tg), coincide=[co])
    # matching scales in any order (k_c m_c may exceed k_b m_b ...): every quark still switches on/off at its own scale
    unordered = [(3, (6,)), (6, (3,)), (4, (6, 5)), (5, (3, 6))]
    if thorough:
        unordered += [(3, (5, 4)), (6, (4, 5)), (4, (3, 3)), (5, (6, 4, 3)), (3, (4,)), (5, (4,))]
    for nf0, tg in unordered:
        chk.case("solve.unordered.%s-%s" % (nf0, ",".join(map(str, tg))), case_solve, nf0=nf0, targets=list(tg), ratios="fixed", ordered=False)
    # state across calls in one process: a second solve with other cards must not see anything of the first
    twice = [(3, (5,), "ratios"), (5, (3, 4), "ratios"), (4, (6,), "masses"), (3, (4,), "init")]
    if thorough:
        twice += [(6, (3,), "ratios"), (4, (5, 6), "ratios"), (3, (6, 4), "masses"), (5, (4,), "init"), (4, (None,), "ratios")]
    for nf0, tg, vary in twice:
        chk.case("twice.%s.%s-%s" % (vary, nf0, ",".join(map(str, tg))), case_twice, nf0=nf0, targets=list(tg), vary=vary)
    # parts carrying errors, targets sharing parts (in particular a matching, which stays cached between targets)
    witherr = [(3, (4, 4)), (5, (4, 3)), (4, (5, 6))]
    if thorough:
        witherr += [(3, (5, 4)), (6, (5, 5)), (4, (3, 5)), (3, (4, 4, 5)), (6, (3, 4))]
    for nf0, tg in witherr:
        chk.case("solve.errors.%s-%s" % (nf0, ",".join(map(str, tg))), case_solve, nf0=nf0, targets=list(tg), ratios="fixed", with_error=True)
    nfo = (3, 4, 5, 6, None)
    for nf0 in (3, 4, 5, 6):
        for nff in nfo:
            chk.case("solve.1.%s-%s" % (nf0, nff), case_solve, nf0=nf0, targets=[nff])
    # index pairing of the rank-4 product: other tensor shapes
    for nf0, tg in [(3, (6,)), (6, (3,)), (4, (5, 6))]:
        chk.case("solve.shape1212.%s-%s" % (nf0, tg), case_solve, nf0=nf0, targets=list(tg), shape=(1, 2, 1, 2), ratios="fixed")
        if thorough:
            chk.case("solve.shape2222.%s-%s" % (nf0, tg), case_solve, nf0=nf0, targets=list(tg), shape=(2, 2, 2, 2), ratios="fixed")
    for n in (2, 3) + ((4,) if thorough else ()):
        chk.case("join.error.n%d" % n, case_join, n=n)
        chk.case("join.error.n%d.none" % n, case_join, n=n, none_at=n - 2)
    chk.case("join.error.n2.shape1212", case_join, n=2, shape=(1, 2, 1, 2))
    if thorough:
        chk.case("join.error.n2.shape2222", case_join, n=2, shape=(2, 2, 2, 2))
    return chk.run()


if __name__ == "__main__":
    import sys

    sys.exit(main())
