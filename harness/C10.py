"""C10  Evolution kernels are trivial at equal couplings and compose where exact.

Real functions executed symbolically: non_singlet.dispatcher (all methods, orders 1-4), singlet.dispatcher (fast path and LO),
non_singlet_qed.dispatcher, singlet_qed / valence_qed dispatchers (exp_matrix stubbed by its series), singlet.eko_iterate.

Goals
  unit:        every kernel with a1 := a0 (same symbol) is identically the identity;
  composition: for the non-singlet exact / expanded / ordered-truncated kernels and the LO singlet kernel,
               F(a2) = E(a2,a1) E(a1,a0) and G(a2) = E(a2,a0) have the same logarithmic derivative in a2
               ( dE(a2,x)/da2 * E(a2,y) == dE(a2,y)/da2 * E(a2,x) ) and F(a1) = G(a1) because E(a1,a1) = 1  =>  F == G;
  iterated singlet: E(a2,a1) E(a1,a0) - E(a2,a0) = O(eps^3) for one step each (a1 = a0(1+eps), a2 = a0(1+eps)(1+r eps)).
"""
from fractions import Fraction

from .kern import *  # noqa
from symx.solver import explore, prove_zero
from symx import harness as H

MOD = "harness.C10"
METHODS = ["ITERATE_EXACT", "ITERATE_EXPANDED", "PERTURBATIVE_EXACT", "PERTURBATIVE_EXPANDED", "TRUNCATED", "ORDERED_TRUNCATED", "DECOMPOSE_EXACT", "DECOMPOSE_EXPANDED"]
COMPOSING = {"exact": "ITERATE_EXACT", "expanded": "ITERATE_EXPANDED", "ordered-truncated": "ORDERED_TRUNCATED"}


def case_unit_ns(log, order, shape="complex"):
    ns, sg, ei, as4, ad = kernel_modules()
    from eko.kernels import EvoMethods

    log.encode(ns.dispatcher, sg.dispatcher)

    def run():
        a0 = SR.var("a0")
        assume(a0, ">0")
        bet, bs, roots = sym_rge(order, shape)
        if order == 4 and shape == "real":
            assume(roots[2] - a0, ">0")
        gam = ns_gammas(order)
        gs = singlet_gammas(order, "general")
        nf = SR.var("nf")
        with rge_env((ns, sg), bet, bs, roots):
            for mname in METHODS:
                m = EvoMethods[mname]
                E = Cx.lift(ns.dispatcher((order, 0), m, gam, a0, a0, nf))
                v = prove_zero(E - 1, "non-singlet %s order %d at a1 == a0 is 1" % (mname, order))
                log.decide(v, key="ns.%s:%d:unit" % (mname, order), replay=(MOD, "replay_unit", {"order": order, "method": mname, "sector": "ns"}), sampler=_sampler)
                ES = sg.dispatcher((order, 0), m, gs, a0, a0, nf, 3, (order + 1, 0))
                for i in range(2):
                    for j in range(2):
                        v = prove_zero(Cx.lift(ES[i, j]) - (1 if i == j else 0), "singlet %s order %d at a1 == a0: [%d,%d]" % (mname, order, i, j))
                        log.decide(v, key="singlet.%s:%d:unit" % (mname, order), replay=(MOD, "replay_unit", {"order": order, "method": mname, "sector": "singlet"}), sampler=_sampler)
        log.twin("domain")
        log.collect_ctx()

    _r, pm = explore(run)
    log.path_stats(pm)


def _mat_exp_series(A, dim):
    """sum A^k/k! for a matrix of jets/scalars with positive valuation (or exact zeros)."""
    out = realnp.empty((dim, dim), dtype=object)
    for i in range(dim):
        for j in range(dim):
            out[i, j] = Jet.lift(1 if i == j else 0)
    term = out.copy()
    for k in range(1, jetmod.CAP[0] + 2):
        term = (term @ A) * Fraction(1, k)
        if all((isinstance(t, Jet) and not t.c) or (isinstance(t, (SR, Cx)) and t.is_zero()) or (isinstance(t, (int, float)) and t == 0) for t in term.flat):
            break
        out = out + term
    return out


class _AdSeries:
    """ekore.anomalous_dimensions with exp_matrix (LAPACK eig) replaced by the defining series."""

    def __init__(self, real, dim):
        self._real, self._dim = real, dim
        self.calls = []

    def __getattr__(self, n):
        return getattr(self._real, n)

    def exp_matrix(self, m):
        self.calls.append(m)
        return _mat_exp_series(m, m.shape[0]), None, None


def case_unit_qed(log, order, nf):
    nsq = sym_module("eko.kernels.non_singlet_qed")
    sq = sym_module("eko.kernels.singlet_qed")
    vq = sym_module("eko.kernels.valence_qed")
    ns, sg, ei, as4, ad = kernel_modules()
    as4.np.exact_const_sqrt = True
    from eko.kernels import EvoMethods

    log.encode(nsq.dispatcher, sq.dispatcher, vq.dispatcher, sq.eko_iterate)
    oq, oe = order

    def run():
        jetmod.set_cap(4)
        a0 = SR.var("a0")
        aem = SR.var("aem")
        mu = SR.var("mu2")
        for x in (a0, mu):
            assume(x, ">0")
        assume(aem, ">=0")
        assume(Fraction(1, 10) - a0, ">0")
        assume(Fraction(1, 50) - aem, ">0")
        nfs = SR(nf)
        g = realnp.empty((oq + 1, oe + 1), dtype=object)
        for i in range(oq + 1):
            for j in range(oe + 1):
                g[i, j] = SR.var("g%d%d" % (i, j)) if (i, j) != (0, 0) else SR(0)
        for steps in (1, 2):
            E = Cx.lift(nsq.dispatcher(order, EvoMethods.ITERATE_EXACT, g, [a0] * (steps + 1), [aem] * steps, True, nfs, steps, mu, mu))
            v = prove_zero(E - 1, "non-singlet QED kernel (%d steps) at equal couplings and scales is 1" % steps)
            log.decide(v, key="nsqed:unit", replay=(MOD, "replay_unit_qed", {"order": list(order), "nf": nf, "sector": "ns"}), sampler=_sampler)
        for mod, dim, name in ((sq, 4, "singlet"), (vq, 2, "valence")):
            G = realnp.empty((oq + 1, oe + 1, dim, dim), dtype=object)
            for i in range(oq + 1):
                for j in range(oe + 1):
                    for k in range(dim):
                        for l in range(dim):
                            G[i, j, k, l] = SR.var("G%d%d_%d%d" % (i, j, k, l)) if (i, j) != (0, 0) else SR(0)
            a_half = realnp.empty((2, 2), dtype=object)
            for s in range(2):
                a_half[s, 0] = a0
                a_half[s, 1] = aem
            saved = sq.ad
            sq.ad = _AdSeries(saved, dim)
            try:
                E = mod.dispatcher(order, EvoMethods.ITERATE_EXACT, G, [a0, a0, a0], a_half, nfs, 2, (1, 0))
            finally:
                sq.ad = saved
            for k in range(dim):
                for l in range(dim):
                    d = as_jet(E[k, l]) - (1 if k == l else 0)
                    for _i, c in residual_coeffs(d, min(d.prec, 4)):
                        v = prove_zero(c, "%s QED kernel at equal couplings: [%d,%d]" % (name, k, l))
                        log.decide(v, key="%sqed:unit" % name, replay=(MOD, "replay_unit_qed", {"order": list(order), "nf": nf, "sector": name}), sampler=_sampler)
        log.twin("domain")
        log.collect_ctx()

    _r, pm = explore(run)
    log.path_stats(pm)


def case_compose_ns(log, order, kind, shape="complex"):
    ns, sg, ei, as4, ad = kernel_modules()
    from eko.kernels import EvoMethods

    m = EvoMethods[COMPOSING[kind]]
    log.encode(ns.dispatcher)
    rp = (MOD, "replay_compose", {"order": order, "kind": kind, "sector": "ns"})
    log.register_replay("fallback:replay_compose", rp, _sampler)

    def run():
        a0, a1 = SR.var("a0"), SR.var("a1")
        a2 = SR.var("a2", seed=True)
        for a in (a0, a1, a2):
            assume(a, ">0")
        bet, bs, roots = sym_rge(order, shape)
        if order == 4 and shape == "real":
            for a in (a0, a1, a2):
                assume(roots[2] - a, ">0")
        for a in (a0, a1, a2):
            assume(1 + sum(b * a ** (i + 1) for i, b in enumerate(bs)), ">0")
        gam = ns_gammas(order)
        nf = SR.var("nf")
        with rge_env((ns, sg), bet, bs, roots):
            Ex = Cx.lift(ns.dispatcher((order, 0), m, gam, a2, a1, nf))
            Ey = Cx.lift(ns.dispatcher((order, 0), m, gam, a2, a0, nf))
            E11 = Cx.lift(ns.dispatcher((order, 0), m, gam, a1, a1, nf))
        dEx = Cx(SR(Ex.re._dd()), SR(Ex.im._dd()))
        dEy = Cx(SR(Ey.re._dd()), SR(Ey.im._dd()))
        nx = Cx(Ex.re.novar(), Ex.im.novar())
        ny = Cx(Ey.re.novar(), Ey.im.novar())
        v = prove_zero(dEx * ny - dEy * nx, "non-singlet %s order %d: d/da2 log E(a2,a1) == d/da2 log E(a2,a0)" % (kind, order), timeout_ms=60000)
        log.decide(v, key="ns.%s:%d:compose" % (kind, order), replay=rp, sampler=_sampler)
        v = prove_zero(E11 - 1, "non-singlet %s order %d: E(a1,a1) == 1" % (kind, order))
        log.decide(v, key="ns.%s:%d:compose" % (kind, order), replay=rp, sampler=_sampler)
        for k in range(order):
            v = prove_zero(SR(0) + gam[k] - SR.var("g%d" % k), "non-singlet %s order %d: the caller's tower is unchanged after three kernel calls (gamma[%d])" % (kind, order, k))
            log.decide(v, key="ns.%s:%d:compose" % (kind, order), replay=rp, sampler=_sampler)
        log.twin("domain")
        log.collect_ctx()

    _r, pm = explore(run)
    log.path_stats(pm)


def case_compose_lo_singlet(log):
    ns, sg, ei, as4, ad = kernel_modules()
    from eko.kernels import EvoMethods

    log.encode(sg.dispatcher, sg.lo_exact, ad.exp_matrix_2D)
    rp = (MOD, "replay_compose", {"order": 1, "kind": "exact", "sector": "singlet"})
    log.register_replay("fallback:replay_compose", rp, _sampler)

    def run():
        a0, a1 = SR.var("a0"), SR.var("a1")
        a2 = SR.var("a2", seed=True)
        for a in (a0, a1, a2):
            assume(a, ">0")
        assume(a2 - a1, "!=0")
        assume(a2 - a0, "!=0")
        assume(a1 - a0, "!=0")
        bet, bs, roots = sym_rge(1)
        gs = singlet_gammas(1, "general")
        nf = SR.var("nf")
        with rge_env((ns, sg), bet, bs, roots):
            Ex = sg.dispatcher((1, 0), EvoMethods.ITERATE_EXACT, gs, a2, a1, nf, 1, (1, 0))
            Ey = sg.dispatcher((1, 0), EvoMethods.ITERATE_EXACT, gs, a2, a0, nf, 1, (1, 0))
        # both solve dE/da2 = gamma0/(beta0 a2) E : check each, then equality of F and G follows from E(a1,a1)=1 (unit cases)
        M = gs[0] * (1 / (bet[0] * a2))
        for nm, E in (("E(a2,a1)", Ex), ("E(a2,a0)", Ey)):
            dE = realnp.array([[Cx.lift(E[i, j]).re.tangent() for j in range(2)] for i in range(2)], dtype=object)
            En = realnp.array([[Cx.lift(E[i, j]).re.novar() for j in range(2)] for i in range(2)], dtype=object)
            R = dE - M @ En
            for i in range(2):
                for j in range(2):
                    v = prove_zero(R[i, j], "LO singlet %s solves dE/da2 = gamma0/(beta0 a2) E: [%d,%d]" % (nm, i, j), timeout_ms=60000)
                    log.decide(v, key="singlet.lo:compose", replay=rp, sampler=_sampler)
                    v = prove_zero(Cx.lift(E[i, j]).im, "LO singlet %s real for real gamma: [%d,%d]" % (nm, i, j))
                    log.decide(v, key="singlet.lo:compose", replay=rp, sampler=_sampler)
        log.twin("domain")
        log.collect_ctx()

    _r, pm = explore(run)
    log.path_stats(pm)


def case_compose_iterate(log, order):
    ns, sg, ei, as4, ad = kernel_modules()
    log.encode(sg.eko_iterate)
    rp = (MOD, "replay_compose_iterate", {"order": order})
    log.register_replay("fallback:replay_compose_iterate", rp, _sampler)

    def run():
        jetmod.set_cap(5)
        a0 = SR.var("a0")
        r = SR.var("r")
        assume(a0, ">0")
        assume(r, ">0")
        eps = Jet.lam()
        a1 = a0 * (1 + eps)
        a2 = a1 * (1 + eps * r)
        bet, bs, roots = sym_rge(order) if order < 4 else sym_rge(order, "complex")
        gs = singlet_gammas(order, "general")
        o = (order, 0)
        saved = sg.ad
        sg.ad = AdSeries(saved)  # exp_matrix_2D by its contract (C23) as a power series in the step
        try:
            E21 = sg.eko_iterate(gs, a2, a1, bet, o, 1)
            E10 = sg.eko_iterate(gs, a1, a0, bet, o, 1)
            E20 = sg.eko_iterate(gs, a2, a0, bet, o, 1)
        finally:
            sg.ad = saved
        D = E21 @ E10 - E20
        for i in range(2):
            for j in range(2):
                for k, c in residual_coeffs(D[i, j], 3):
                    v = prove_zero(c, "iterate order %d: [E(a2,a1)E(a1,a0) - E(a2,a0)][%d,%d] eps^%d coefficient" % (order, i, j, k), timeout_ms=60000)
                    log.decide(v, key="singlet.iterate:%d:compose" % order, replay=rp, sampler=_sampler)
        log.twin("domain")
        log.collect_ctx()

    _r, pm = explore(run)
    log.path_stats(pm)


# ---------------------------------------------------------------------------
def _sampler(rng):
    return _near(_sampler0(rng))


_NEAR = [0]


def _near(p):
    """every third sample has nearly coincident couplings (a1 = a0 (1 + delta), delta = 1e-3 / 1e-6): special-casing of short legs"""
    _NEAR[0] += 1
    if _NEAR[0] % 3 == 0 and "a0" in p and "a1" in p:
        p["a1"] = p["a0"] * (1 + (Fraction(1, 1000) if _NEAR[0] % 2 else Fraction(1, 1000000)))
    return p


def _sampler0(rng):
    p = {"a0": rnd(rng, 0.005, 0.04), "a1": rnd(rng, 0.005, 0.04), "a2": rnd(rng, 0.005, 0.04), "aem": rnd(rng, 0.001, 0.01, 10000), "mu2": rnd(rng, 2, 100), "r": rnd(rng, 0.5, 2)}
    for k in range(4):
        p["g%d" % k] = rnd(rng, -3, 3) * 4**k
        for i in range(2):
            for j in range(2):
                p["g%d_%d%d" % (k, i, j)] = rnd(rng, -3, 3) * 4**k
    return p


def _ns_g(point, order):
    import numpy as np

    # one complex ndarray reused for every leg, as the tower is in the callers (in-place updates of it are part of the behaviour)
    return np.array([complex(float(point.get("g%d" % k, 1.0 + k)), 0.3) for k in range(order)])


def _s_g(point, order):
    import numpy as np

    g = np.zeros((order, 2, 2), dtype=complex)
    for k in range(order):
        for i in range(2):
            for j in range(2):
                g[k, i, j] = complex(float(point.get("g%d_%d%d" % (k, i, j), 1.0 + i - 2 * j + k)), 0.2 * (i + 1))
    return g


def replay_unit(point, order, method, sector):
    import numpy as np
    import eko.kernels.non_singlet as ns
    import eko.kernels.singlet as sg
    from eko.kernels import EvoMethods

    a0 = float(point.get("a0", 0.02))
    if not 0 < a0 < 0.1:
        return None
    m = EvoMethods[method]
    for nf in (3, 4, 5, 6):
        if sector == "ns":
            E = ns.dispatcher((order, 0), m, _ns_g(point, order), a0, a0, nf)
            if not abs(complex(E) - 1) < 1e-9:
                return {"detail": "non-singlet %s order %d nf %d at a1 == a0 = %r: kernel %r != 1" % (method, order, nf, a0, E)}
        else:
            E = np.array(sg.dispatcher((order, 0), m, _s_g(point, order), a0, a0, nf, 3, (order + 1, 0)), dtype=complex)
            if not np.abs(E - np.eye(2)).max() < 1e-9:
                return {"detail": "singlet %s order %d nf %d at a1 == a0 = %r: kernel %r != 1" % (method, order, nf, a0, E.tolist())}
    return None


def replay_unit_qed(point, order, nf, sector):
    import numpy as np
    import eko.kernels.non_singlet_qed as nsq
    import eko.kernels.singlet_qed as sq
    import eko.kernels.valence_qed as vq
    from eko.kernels import EvoMethods

    a0 = float(point.get("a0", 0.02))
    aem = float(point.get("aem", 0.007))
    mu = float(point.get("mu2", 10.0))
    if not (0 < a0 < 0.1 and 0 <= aem < 0.02 and mu > 0):
        return None
    oq, oe = order
    rng = np.random.default_rng(1)
    if sector == "ns":
        g = rng.normal(size=(oq + 1, oe + 1)) + 0.3j
        g[0, 0] = 0
        E = nsq.dispatcher(tuple(order), EvoMethods.ITERATE_EXACT, g, np.array([a0] * 3), np.array([aem] * 2), True, nf, 2, mu, mu)
        return {"detail": "non-singlet QED kernel at equal couplings and scales = %r != 1" % (E,)} if abs(complex(E) - 1) > 1e-9 else None
    dim, mod = (4, sq) if sector == "singlet" else (2, vq)
    G = rng.normal(size=(oq + 1, oe + 1, dim, dim)) + 0.2j
    G[0, 0] = 0
    E = mod.dispatcher(tuple(order), EvoMethods.ITERATE_EXACT, G, np.array([a0] * 3), np.array([[a0, aem]] * 2), nf, 2, (1, 0))
    return {"detail": "%s QED kernel at equal couplings = %r != identity" % (sector, np.array(E).tolist())} if np.abs(np.array(E) - np.eye(dim)).max() > 1e-9 else None


def replay_compose(point, order, kind, sector):
    import numpy as np
    import eko.kernels.non_singlet as ns
    import eko.kernels.singlet as sg
    from eko.kernels import EvoMethods

    if not all(k in point for k in ("a0", "a1", "a2")):
        return None
    a0, a1, a2 = (float(point[k]) for k in ("a0", "a1", "a2"))
    if not all(0 < a < 0.1 for a in (a0, a1, a2)) or min(abs(a0 - a1), abs(a1 - a2), abs(a0 - a2)) < 1e-12:  # short legs are part of the claim
        return None
    m = EvoMethods[COMPOSING[kind]]
    for nf in (3, 4, 5, 6):
        if sector == "ns":
            g = _ns_g(point, order)
            f = lambda x, y: complex(ns.dispatcher((order, 0), m, g, x, y, nf))
            lhs, rhs = f(a2, a1) * f(a1, a0), f(a2, a0)
            if abs(lhs - rhs) > 1e-9 * max(abs(rhs), 1e-30):
                return {"detail": "non-singlet %s order %d nf %d: E(a2,a1)E(a1,a0) = %r but E(a2,a0) = %r (a0,a1,a2 = %r,%r,%r)" % (kind, order, nf, lhs, rhs, a0, a1, a2)}
            fb = f(a0, a1) * f(a1, a0)
            if abs(fb - 1) > 1e-9:
                return {"detail": "non-singlet %s order %d nf %d: forward and back = %r != 1" % (kind, order, nf, fb)}
        else:
            g = _s_g(point, 1)
            f = lambda x, y: np.array(sg.dispatcher((1, 0), m, g, x, y, nf, 1, (1, 0)), dtype=complex)
            lhs, rhs = f(a2, a1) @ f(a1, a0), f(a2, a0)
            if np.abs(lhs - rhs).max() > 1e-9 * max(np.abs(rhs).max(), 1e-30):
                return {"detail": "LO singlet nf %d: E(a2,a1)E(a1,a0) != E(a2,a0): %r vs %r" % (nf, lhs.tolist(), rhs.tolist())}
    return None


def replay_compose_iterate(point, order):
    import math
    import numpy as np
    import eko.kernels.singlet as sg
    from eko import beta as B

    a0 = float(point.get("a0", 0.02))
    r = float(point.get("r", 1.0))
    if not (0 < a0 < 0.05 and 0.2 < r < 5):
        return None
    g = _s_g(point, order)
    nf = 4
    bet = [B.beta_qcd((2 + i, 0), nf) for i in range(order)]
    epss = [0.2, 0.1, 0.05, 0.025]
    errs = []
    for e in epss:
        a1 = a0 * (1 + e)
        a2 = a1 * (1 + e * r)
        f = lambda x, y: np.array(sg.eko_iterate(g, x, y, bet, (order, 0), 1), dtype=complex)
        errs.append(float(np.abs(f(a2, a1) @ f(a1, a0) - f(a2, a0)).max()))
    pairs = [(e, x) for e, x in zip(epss, errs) if x > 1e-13]
    if len(pairs) < 2:
        return None
    ex = math.log(pairs[-2][1] / pairs[-1][1]) / math.log(pairs[-2][0] / pairs[-1][0])
    if ex < 2.5:
        return {"detail": "iterate order %d: composition defect %r at eps=%r scales like eps^%.2f < 3" % (order, errs, epss, ex)}
    return None


def main():
    chk = H.Check("C10")
    thorough = H.tier() == "thorough"
    chk.bounds = ["unit: all 8 methods x orders 1-4 through both QCD dispatchers with symbolic beta_k (every nf at once); QED dispatchers at orders (1..3,1..2), nf=5 (quick) / 3-6 (thorough), 1-2 steps",
                  "composition: non-singlet exact / expanded / ordered-truncated at orders 1-4 and LO singlet, three symbolic couplings",
                  "iterated singlet: one step each, composition defect O(eps^3), orders 2-3 (4 in thorough), general non-commuting gamma"]
    chk.stubs = ["eko.beta -> symbolic beta_k (BetaProxy)", "as4 roots -> symbolic roots + Vieta (order 4)", "ekore exp_matrix (LAPACK eig) -> defining power series (QED unit cases)"]
    chk.out_of_claim = ["floating point", "composition of the iterated kernel beyond the local order (global discretisation error is C12)"]
    chk.assumptions = ["uniqueness of solutions of linear ODEs turns equal logarithmic derivatives + equal initial value into equality"]
    for o in (1, 2, 3, 4):
        chk.case("unit.ns+singlet.o%d" % o, case_unit_ns, order=o)
        for kind in COMPOSING:
            chk.case("compose.ns.%s.o%d" % (kind, o), case_compose_ns, order=o, kind=kind)
    if thorough:
        chk.case("unit.ns+singlet.o4.real", case_unit_ns, order=4, shape="real")
        for kind in COMPOSING:
            chk.case("compose.ns.%s.o4.real" % kind, case_compose_ns, order=4, kind=kind, shape="real")
    chk.case("compose.singlet.lo", case_compose_lo_singlet)
    for o in ((2, 3, 4) if thorough else (2, 3)):
        chk.case("compose.iterate.o%d" % o, case_compose_iterate, order=o)
    for nf in ((3, 4, 5, 6) if thorough else (5,)):
        for od in ([(1, 1), (2, 2), (3, 1)] if not thorough else [(q, e) for q in (1, 2, 3, 4) for e in (1, 2)]):
            chk.case("unit.qed.o%d%d.nf%d" % (od[0], od[1], nf), case_unit_qed, order=od, nf=nf)
    # "composes up to its discretisation error": that error is the one documented for the midpoint rule, i.e. its eps^3 part falls
    # exactly like 1/n^2 with the number of iterations (shared with C12)
    from . import C12 as c12

    chk.case("iterate.rate.o2", c12.case_iterate_rate, order=2, its=(1, 2, 3))
    return chk.run()


if __name__ == "__main__":
    import sys

    sys.exit(main())
