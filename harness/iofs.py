"""In-memory file-system model for the eko I/O layer (C37, C38, C39)  --  DESIGN.md section 1.5.

Model side
----------
`FS` is a dictionary `path -> content` plus a directory set.  Every mutating primitive is a numbered
*step*; a step first consults the armed crash index (`if k == step: raise InjectedFault`) -- `k` is a
`ZInt`, so the `if` forks through the path manager and one `explore()` covers every crash point -- and
then acts and appends to the write log.  `Binder` substitutes the model for `Path`, `pathlib`, `open`,
`tarfile`, `shutil`, `tempfile`, `yaml` (and `Operator`, the npy/lz4 boundary) *in the globals* of
eko.io.struct / inventory / metadata / paths / raw.  Nothing under /repo is edited.

Real side
---------
`Injector` makes the corresponding *real* primitive raise (used only by replays and by translator
validation), `RealWorld` / `ModelWorld` run the same scripted session on the real file system under
/tmp and on the model.
"""
import builtins
import contextlib
import hashlib
import io
import os
import pathlib
import posixpath
import shutil as _shutil
import tarfile as _tarfile
import tempfile as _tempfile
import types

import yaml as _yaml
import z3

from symx.solver import ZInt, ZBool, symbool_to_z3
from symx.val import SR, SymBool

TRUNC = "<truncated>"  # a file that has been created/truncated but whose content was not written
DIR = "<dir>"
CUR = None  # the FS the model Path objects act on


class InjectedFault(OSError):
    """The crash injected at a numbered step."""


class UserAbort(RuntimeError):
    """Exception raised by 'user code' inside the context body."""


# ---------------------------------------------------------------------------
# contents
# ---------------------------------------------------------------------------
def _symbolic(x):
    if isinstance(x, (SR, ZInt, ZBool, SymBool)):
        return True
    if isinstance(x, dict):
        return any(_symbolic(k) or _symbolic(v) for k, v in x.items())
    if isinstance(x, (list, tuple)):
        return any(_symbolic(e) for e in x)
    return False


def _clone(x):
    if isinstance(x, dict):
        return {k: _clone(v) for k, v in x.items()}
    if isinstance(x, (list, tuple)):
        return [_clone(e) for e in x]
    return x


class YamlDoc:
    """Text of a YAML document.  Concrete objects are kept as the text the real PyYAML produces (so a
    later load is the real round trip); objects with symbolic leaves are kept structurally."""

    __slots__ = ("obj", "text")

    def __init__(self, obj, text=None):
        self.obj = obj
        self.text = text

    def __repr__(self):
        return "YamlDoc(%r)" % (self.obj,)


class OpBytes:
    """Bytes of a stored operator: opaque payload tag + whether the error array is present."""

    __slots__ = ("tag", "err")

    def __init__(self, tag, err):
        self.tag = tag
        self.err = err

    def __repr__(self):
        return "OpBytes(%r,err=%r)" % (self.tag, self.err)


class Tar:
    def __init__(self):
        self.members = {}  # name -> DIR | content (insertion ordered)
        self.complete = False  # end-of-archive written (TarFile.close reached)

    def copy(self):
        t = Tar()
        t.members = dict(self.members)
        t.complete = self.complete
        return t

    def __repr__(self):
        return "Tar(%s,%r)" % ("complete" if self.complete else "PARTIAL", list(self.members))


def zeq(a, b):
    """z3 formula: content a equals content b (symbolic payload tags compared by the solver)."""
    if isinstance(a, ZInt) or isinstance(b, ZInt):
        return ZInt._u(a) == ZInt._u(b)
    if isinstance(a, ZBool) or isinstance(b, ZBool):
        ea = a.e if isinstance(a, ZBool) else z3.BoolVal(bool(a))
        eb = b.e if isinstance(b, ZBool) else z3.BoolVal(bool(b))
        return ea == eb
    if isinstance(a, SR) or isinstance(b, SR):
        r = a == b
        return z3.BoolVal(r) if isinstance(r, bool) else symbool_to_z3(r)
    if isinstance(a, YamlDoc) and isinstance(b, YamlDoc):
        if a.text is not None and b.text is not None:
            return z3.BoolVal(a.text == b.text)
        return zeq(a.obj, b.obj)
    if isinstance(a, OpBytes) and isinstance(b, OpBytes):
        return z3.And(zeq(a.tag, b.tag), z3.BoolVal(bool(a.err) == bool(b.err)))
    if isinstance(a, Tar) and isinstance(b, Tar):
        return z3.And(z3.BoolVal(a.complete == b.complete), zeq(a.members, b.members))
    if isinstance(a, dict) and isinstance(b, dict):
        if set(a) != set(b):
            return z3.BoolVal(False)
        return z3.And([z3.BoolVal(True)] + [zeq(a[k], b[k]) for k in a])
    if isinstance(a, (list, tuple)) and isinstance(b, (list, tuple)):
        if len(a) != len(b):
            return z3.BoolVal(False)
        return z3.And([z3.BoolVal(True)] + [zeq(x, y) for x, y in zip(a, b)])
    if type(a) is not type(b) and not (isinstance(a, (int, float)) and isinstance(b, (int, float))):
        return z3.BoolVal(False)
    return z3.BoolVal(bool(a == b))


# ---------------------------------------------------------------------------
# the file system
# ---------------------------------------------------------------------------
class FS:
    def __init__(self, faults=()):
        self.files = {}
        self.dirs = {"/", "/tmp", "/work"}
        self.log = []  # (kind, path) of every mutation that took effect
        self.trace = []  # (kind, rel) of every step of the current session
        self.nstep = 0
        self.faults = list(faults)  # crash indices (ZInt or int), consumed in order
        self.hit = []  # dict(step, kind, rel, nth, session) for every injected crash
        self.tmpdirs = []
        self.armed = False
        self.session = 0

    # -- bookkeeping --
    def begin_session(self, armed=True):
        self.session += 1
        self.trace = []
        self.armed = armed

    def end_session(self):
        self.armed = False

    def rel(self, p):
        p = str(p)
        for t in self.tmpdirs:
            if p == t:
                return "<tmp>"
            if p.startswith(t + "/"):
                return p[len(t) + 1:]
        return posixpath.basename(p)

    def step(self, kind, path, exc=InjectedFault):
        """A numbered primitive. Raises the injected fault *before* the primitive takes effect."""
        self.nstep += 1
        lab = (kind, "" if path is None else (str(path) if kind in ("tar-add", "user", "compute") else self.rel(path)))
        self.trace.append(lab)
        if not self.armed:
            return
        i = len(self.hit)
        if i < len(self.faults):
            if self.faults[i] == self.nstep:  # ZBool -> forks
                nth = sum(1 for t in self.trace if t == lab)
                self.hit.append({"step": self.nstep, "kind": lab[0], "rel": lab[1], "nth": nth, "session": self.session})
                raise exc("injected fault at step %d %r" % (self.nstep, lab))

    def mark(self):
        return len(self.log)

    def writes_since(self, m):
        return self.log[m:]

    def _w(self, kind, path):
        self.log.append((kind, str(path)))

    def _need_parent(self, p):
        par = posixpath.dirname(p)
        if par not in self.dirs:
            raise FileNotFoundError(2, "No such file or directory (model)", p)

    # -- primitives --
    def create(self, p):
        p = str(p)
        self.step("create", p)
        self._need_parent(p)
        if p in self.dirs:
            raise IsADirectoryError(p)
        self.files[p] = TRUNC
        self._w("create", p)

    def write(self, p, data):
        p = str(p)
        self.step("write", p)
        self.files[p] = data
        self._w("write", p)

    def unlink(self, p, missing_ok=False):
        p = str(p)
        self.step("unlink", p)
        if p not in self.files:
            if missing_ok:
                return
            raise FileNotFoundError(2, "No such file or directory (model)", p)
        del self.files[p]
        self._w("unlink", p)

    def mkdir(self, p):
        p = str(p)
        self.step("mkdir", p)
        if p in self.dirs or p in self.files:
            raise FileExistsError(p)
        self._need_parent(p)
        self.dirs.add(p)
        self._w("mkdir", p)

    def rmdir(self, p):
        p = str(p)
        self.step("rmdir", p)
        if p not in self.dirs:
            raise FileNotFoundError(p)
        if self.children(p):
            raise OSError("Directory not empty (model): %s" % p)
        self.dirs.discard(p)
        self._w("rmdir", p)

    def rmtree(self, p):
        p = str(p)
        self.step("rmtree", p)
        if p not in self.dirs:
            raise FileNotFoundError(2, "No such file or directory (model)", p)
        for f in [f for f in self.files if f.startswith(p + "/")]:
            del self.files[f]
        for d in [d for d in self.dirs if d == p or d.startswith(p + "/")]:
            self.dirs.discard(d)
        self._w("rmtree", p)

    def replace(self, src, dst):
        src, dst = str(src), str(dst)
        self.step("replace", dst)
        if src not in self.files:
            raise FileNotFoundError(2, "No such file or directory (model)", src)
        self._need_parent(dst)
        self.files[dst] = self.files.pop(src)
        self._w("replace", dst)

    def mkdtemp(self, prefix="tmp"):
        self.step("mkdtemp", None)
        p = "/tmp/%s%d" % (prefix, len(self.tmpdirs) + 1)
        self.dirs.add(p)
        self.tmpdirs.append(p)
        self._w("mkdtemp", p)
        return p

    def copytree(self, src, dst):
        src, dst = str(src), str(dst)
        self.step("copytree", dst)
        if dst in self.dirs:
            raise FileExistsError(dst)
        for d in sorted(d for d in self.dirs if d == src or d.startswith(src + "/")):
            self.dirs.add(dst + d[len(src):])
        for f in sorted(f for f in self.files if f.startswith(src + "/")):
            self.files[dst + f[len(src):]] = self.files[f]
        self._w("copytree", dst)

    # -- queries --
    def children(self, p):
        p = str(p)
        out = set()
        for x in list(self.files) + list(self.dirs):
            if x != p and posixpath.dirname(x) == p:
                out.add(x)
        return sorted(out)

    def tree(self, root):
        """rel path -> content (DIR for directories) of everything below root."""
        root = str(root)
        out = {}
        for d in self.dirs:
            if d.startswith(root + "/"):
                out[d[len(root) + 1:]] = DIR
        for f, c in self.files.items():
            if f.startswith(root + "/"):
                out[f[len(root) + 1:]] = c
        return out

    def snapshot(self):
        return ({k: (v.copy() if isinstance(v, Tar) else v) for k, v in self.files.items()}, set(self.dirs))


# ---------------------------------------------------------------------------
# pathlib / open / yaml / tarfile / shutil / tempfile substitutes
# ---------------------------------------------------------------------------
class MPath(pathlib.PurePosixPath):
    """pathlib.Path look-alike acting on the current model file system."""

    def exists(self):
        return str(self) in CUR.files or str(self) in CUR.dirs

    def is_file(self):
        return str(self) in CUR.files

    def is_dir(self):
        return str(self) in CUR.dirs

    def resolve(self, strict=False):
        return self

    def absolute(self):
        return self

    def unlink(self, missing_ok=False):
        CUR.unlink(self, missing_ok)

    def mkdir(self, mode=0o777, parents=False, exist_ok=False):
        if exist_ok and self.is_dir():
            return
        CUR.mkdir(self)

    def rmdir(self):
        CUR.rmdir(self)

    def touch(self):
        if not self.exists():
            CUR.create(self)
            CUR.files[str(self)] = ""

    def write_text(self, data, encoding=None, errors=None, newline=None):
        CUR.create(self)
        CUR.write(self, data)

    def read_text(self, encoding=None, errors=None):
        if str(self) not in CUR.files:
            raise FileNotFoundError(2, "No such file or directory (model)", str(self))
        return CUR.files[str(self)]

    def iterdir(self):
        if str(self) not in CUR.dirs:
            raise FileNotFoundError(2, "No such file or directory (model)", str(self))
        for c in CUR.children(self):
            yield MPath(c)

    def open(self, mode="r", *a, **k):
        return m_open(self, mode)

    def replace(self, target):
        CUR.replace(self, target)
        return MPath(target)

    rename = replace


class MFile:
    def __init__(self, path, mode):
        self.path = str(path)
        self.mode = mode
        self.closed = False
        if any(c in mode for c in "wx"):
            CUR.create(self.path)
        elif "a" in mode:
            raise NotImplementedError("append mode is not used by eko.io")
        else:
            if self.path not in CUR.files:
                raise FileNotFoundError(2, "No such file or directory (model)", self.path)

    def __enter__(self):
        return self

    def __exit__(self, *a):
        self.closed = True
        return False

    def close(self):
        self.closed = True

    def write(self, data):
        if not any(c in self.mode for c in "wx"):
            raise io.UnsupportedOperation("not writable")
        CUR.write(self.path, data)
        return 1

    def read(self):
        return CUR.files[self.path]

    def seek(self, n):
        return 0


def m_open(path, mode="r", *a, **k):
    return MFile(path, mode)


def _normal(obj):
    return obj


class MYaml:
    """PyYAML facade: documents without symbolic leaves go through the real PyYAML both ways."""

    YAMLError = _yaml.YAMLError

    def __getattr__(self, name):
        return getattr(_yaml, name)

    @staticmethod
    def _doc(obj, safe):
        if _symbolic(obj):
            return YamlDoc(_clone(obj), None)
        text = _yaml.safe_dump(obj) if safe else _yaml.dump(obj)
        return YamlDoc(obj, text)

    def dump(self, obj, stream=None, **k):
        doc = self._doc(obj, False)
        if stream is None:
            return doc
        stream.write(doc)

    def safe_dump(self, obj, stream=None, **k):
        doc = self._doc(obj, True)
        if stream is None:
            return doc
        stream.write(doc)

    def safe_load(self, doc):
        if isinstance(doc, MFile):
            doc = doc.read()
        if doc is TRUNC or doc == "":
            return None
        if isinstance(doc, YamlDoc):
            if doc.text is not None:
                return _yaml.safe_load(doc.text)
            return _clone(doc.obj)
        return _yaml.safe_load(doc)


class _Member:
    def __init__(self, name, isdir):
        self.name = name
        self._isdir = isdir

    def isdir(self):
        return self._isdir


class MTar:
    def __init__(self, name, mode):
        self.name = str(name)
        self.mode = mode
        self.closed = False
        if mode.startswith("w"):
            CUR.step("tar-open", self.name)
            CUR._need_parent(self.name)
            self.obj = Tar()
            CUR.files[self.name] = self.obj
            CUR._w("tar-open", self.name)
        else:
            CUR.step("tar-read", self.name)
            c = CUR.files.get(self.name)
            if c is None:
                raise FileNotFoundError(2, "No such file or directory (model)", self.name)
            if not isinstance(c, Tar) or (not c.members and not c.complete):
                raise _tarfile.ReadError("file could not be opened successfully (model)")
            self.obj = c

    @property
    def tar(self):
        # the open file (inode), wherever a rename has moved it meanwhile -- or nowhere after an unlink
        return self.obj

    def __enter__(self):
        return self

    def __exit__(self, et, ev, tb):
        # tarfile.TarFile.__exit__: close() only without exception, otherwise the file object is
        # closed without writing the end-of-archive blocks
        if et is None:
            self.close()
        else:
            self.closed = True
        return False

    def close(self):
        if self.closed:
            return
        if self.mode.startswith("w"):
            CUR.step("tar-close", self.name)
            self.tar.complete = True
            CUR._w("tar-close", self.name)
        self.closed = True

    def _addone(self, arcname, content):
        CUR.step("tar-add", arcname)
        self.tar.members[arcname] = content
        CUR._w("tar-add", self.name)

    def add(self, name, arcname=None, recursive=True, **k):
        name = str(name)
        arcname = name if arcname is None else arcname
        if name in CUR.dirs:
            self._addone(arcname, DIR)
            if recursive:
                for c in CUR.children(name):  # tarfile.add: sorted(os.listdir(name))
                    self.add(c, arcname + "/" + posixpath.basename(c))
        elif name in CUR.files:
            self._addone(arcname, CUR.files[name])
        else:
            raise FileNotFoundError(2, "No such file or directory (model)", name)

    def getmembers(self):
        return [_Member(n, c is DIR) for n, c in self.tar.members.items()]

    def getnames(self):
        return list(self.tar.members)

    def extractall(self, path=".", members=None, *, numeric_owner=False, filter=None):
        path = str(path)
        CUR.step("extractall", path)
        for n, c in self.tar.members.items():
            dst = posixpath.normpath(posixpath.join(path, n))
            if c is DIR:
                if dst not in CUR.dirs:
                    CUR.dirs.add(dst)
            else:
                CUR.files[dst] = c
        CUR._w("extractall", path)


class MTarfile:
    ReadError = _tarfile.ReadError
    TarError = _tarfile.TarError
    TarFile = MTar

    @staticmethod
    def open(name=None, mode="r", *a, **k):
        return MTar(name, mode)


class MShutil:
    def __getattr__(self, name):
        raise NotImplementedError("shutil.%s is not modelled" % name)

    @staticmethod
    def rmtree(p, *a, **k):
        CUR.rmtree(p)

    @staticmethod
    def copytree(src, dst, *a, **k):
        CUR.copytree(src, dst)
        return dst


class MTempfile:
    @staticmethod
    def mkdtemp(suffix=None, prefix="tmp", dir=None):
        return CUR.mkdtemp(prefix)


class MOs:
    """the few os functions a patched struct.py might use (os.replace for an atomic close)."""

    def __getattr__(self, name):
        return getattr(os, name)

    @staticmethod
    def replace(src, dst):
        CUR.replace(src, dst)

    rename = replace

    @staticmethod
    def unlink(p):
        CUR.unlink(p)

    remove = unlink

    @staticmethod
    def fspath(p):
        return str(p)

    class path:
        @staticmethod
        def exists(p):
            return str(p) in CUR.files or str(p) in CUR.dirs


class _Arr:
    """stands for the ndarray of a stored operator (only .shape is looked at by EKO.load)."""

    shape = (1, 1, 1, 1)


class MOperator:
    """Stub of eko.io.items.Operator at the npy/lz4 boundary: the payload is an opaque tag."""

    def __init__(self, tag=None, err=False, operator=None, error=None):
        self.tag = tag
        self.operator = _Arr()
        self.error = _Arr() if err else None

    def save(self, stream):
        stream.write(OpBytes(self.tag, self.error is not None))
        stream.seek(0)
        return self.error is None

    @classmethod
    def load(cls, stream):
        b = stream.read()
        if not isinstance(b, OpBytes):
            raise ValueError("LZ4F_decompress failed (model): truncated operator file")
        return cls(b.tag, b.err)

    def __repr__(self):
        return "MOperator(%r,err=%r)" % (self.tag, self.error is not None)


def _sym_isinstance(obj, cls):
    # the names float / int are themselves rebound in the analysed module (see _sym_float, _sym_int)
    def real(c):
        return builtins.float if c is _sym_float else (builtins.int if c is _sym_int else c)

    cls = tuple(real(c) for c in cls) if isinstance(cls, tuple) else real(cls)
    floaty = cls is builtins.float or (isinstance(cls, tuple) and builtins.float in cls)
    if floaty and isinstance(obj, SR):
        return True
    return builtins.isinstance(obj, cls)


def _sym_float(x=0.0):
    """float() that lets a symbolic real through unchanged (it already denotes a real number)."""
    if isinstance(x, SR):
        return x
    return builtins.float(x)


def _sym_int(x=0, *a):
    if isinstance(x, ZInt):
        return x
    return builtins.int(x, *a)


_MISSING = object()


class Binder:
    """Substitute the model for the file-system names in the globals of the eko.io modules."""

    def __init__(self, fs, np=None):
        self.fs = fs
        self.np = np
        self.saved = []

    def _set(self, mod, name, val, only_if_present=False):
        old = mod.__dict__.get(name, _MISSING)
        if only_if_present and old is _MISSING:
            return
        self.saved.append((mod, name, old))
        setattr(mod, name, val)

    def install(self):
        global CUR
        import eko.io.struct as st
        import eko.io.inventory as inv
        import eko.io.metadata as md
        import eko.io.paths as pa
        import eko.io.raw as rw

        CUR = self.fs
        y = MYaml()
        pl = types.SimpleNamespace(Path=MPath, PurePath=pathlib.PurePath, PurePosixPath=pathlib.PurePosixPath)
        self._set(st, "Path", MPath)
        self._set(st, "tempfile", MTempfile())
        self._set(st, "tarfile", MTarfile())
        self._set(st, "shutil", MShutil())
        self._set(st, "yaml", y)
        self._set(st, "Operator", MOperator)
        self._set(st, "os", MOs(), only_if_present=True)
        self._set(st, "isinstance", _sym_isinstance)
        self._set(st, "float", _sym_float)
        self._set(st, "int", _sym_int)
        if self.np is not None:
            self._set(st, "np", self.np)
        self._set(inv, "yaml", y)
        self._set(inv, "open", m_open)
        self._set(inv, "Operator", MOperator)
        self._set(inv, "Path", MPath)
        self._set(inv, "os", MOs(), only_if_present=True)
        self._set(md, "yaml", y)
        self._set(md, "open", m_open)
        self._set(md, "pathlib", pl)
        self._set(md, "os", MOs(), only_if_present=True)
        self._set(pa, "yaml", y)
        self._set(pa, "pathlib", pl)
        self._set(rw, "Path", MPath)
        return self

    def uninstall(self):
        global CUR
        for mod, name, old in reversed(self.saved):
            if old is _MISSING:
                delattr(mod, name)
            else:
                setattr(mod, name, old)
        self.saved = []
        CUR = None

    def __enter__(self):
        return self.install()

    def __exit__(self, *a):
        self.uninstall()
        return False


def preload():
    """Import the heavy modules in the parent so that forked case workers inherit them."""
    import eko.io.struct, eko.io.inventory, eko.io.metadata, eko.io.paths, eko.io.raw, eko.io.access  # noqa
    import eko.runner.managed, eko.runner.recipes, eko.runner.operators, eko.runner.parts  # noqa
    import ekobox.cards  # noqa


def encoded_functions():
    import eko.io.struct as st
    import eko.io.inventory as inv
    import eko.io.metadata as md
    import eko.io.paths as pa
    import eko.io.raw as rw
    import eko.io.access as ac

    return [st.EKO.close, st.EKO.dump, st.EKO.__exit__, st.EKO.read, st.EKO.load, st.EKO.create, st.EKO.update, st.EKO.__setitem__,
            st.EKO.__getitem__, st.EKO.__delitem__, st.EKO.__contains__, st.EKO.__iter__, st.EKO.items, st.EKO.unload, st.EKO.load_recipes,
            st.EKO.approx, st.Builder.build, st.Builder.__exit__, st.Builder.__post_init__, st.inventories,
            inv.Inventory.__getitem__, inv.Inventory.__setitem__, inv.Inventory.__delitem__, inv.Inventory.sync, inv.Inventory.lookup,
            inv.Inventory.__iter__, inv.Inventory.empty, inv.encode, inv.header_name, inv.operator_name,
            md.Metadata.update, md.Metadata.load, pa.InternalPaths.bootstrap, rw.safe_extractall, rw.is_within_directory,
            ac.AccessConfigs.assert_open, ac.AccessConfigs.assert_writeable]


# ---------------------------------------------------------------------------
# cards used by every scenario (real objects)
# ---------------------------------------------------------------------------
def example_cards(mugrid=None):
    from ekobox import cards
    from eko import interpolation

    th = cards.example.theory()
    opc = cards.example.operator()
    opc.xgrid = interpolation.XGrid([0.1, 0.5, 1.0])
    opc.configs.interpolation_polynomial_degree = 1
    opc.mugrid = list(mugrid) if mugrid is not None else [(10.0, 5)]
    th.order = (1, 0)
    return th, opc


SOLVE_MUGRID = [(10.0, 5), (20.0, 5), (3.0, 4)]  # three evolution points, two flavour-number schemes


def solve_cards():
    """the cards of the managed.solve scenario: several evolution points, so that 'after the first stored operator' exists"""
    return example_cards(SOLVE_MUGRID)


# two of the keys agree to 7 significant digits: distinct keys, however close, are distinct entries (file stems included)
KEYS = [(100.0, 5), (100.00001, 5), (900.0, 6)]


# ---------------------------------------------------------------------------
# real-side fault injection (replays, translator validation)
# ---------------------------------------------------------------------------
class Injector:
    """Make the n-th matching call of a real primitive raise OSError *before* it takes effect
    (kind 'write': the file is opened/truncated, the first write raises)."""

    def __init__(self, fault=None):
        self.fault = fault  # dict(kind, rel, nth) or None
        self.count = 0
        self.fired = False
        self.saved = []
        self.trace = []

    def _match(self, kind, path):
        f = self.fault
        self.trace.append((kind, str(path)))
        if f is None or self.fired or f["kind"] != kind:
            return False
        rel = f["rel"]
        p = str(path) if path is not None else ""
        if kind == "mkdtemp" or rel == "*":
            ok = True
        elif rel == "<tmp>":
            ok = posixpath.basename(p.rstrip("/")).startswith("eko-")
        elif kind == "tar-add":
            ok = p == rel
        else:
            ok = p == rel or p.endswith("/" + rel)
        if not ok:
            return False
        self.count += 1
        if self.count == f["nth"]:
            self.fired = True
            return True
        return False

    def _fire(self, kind, path):
        raise OSError("injected fault (real) at %s %s" % (kind, path))

    def _patch(self, obj, name, new):
        self.saved.append((obj, name, getattr(obj, name)))
        setattr(obj, name, new)

    def __enter__(self):
        inj = self
        real_open = builtins.open
        real_io_open = io.open

        class WProxy:
            def __init__(self, f, path):
                self._f = f
                self._p = path

            def write(self, data):
                if inj._match("write", self._p):
                    self._f.close()
                    inj._fire("write", self._p)
                return self._f.write(data)

            def __enter__(self):
                return self

            def __exit__(self, *a):
                self._f.close()
                return False

            def __getattr__(self, n):
                return getattr(self._f, n)

        def mk_open(real):
            def _open(file, mode="r", *a, **k):
                writing = isinstance(mode, str) and any(c in mode for c in "wxa")
                if writing and isinstance(file, (str, os.PathLike)):
                    p = os.fspath(file)
                    if p.endswith(".tar") or ".tar." in posixpath.basename(p):
                        return real(file, mode, *a, **k)  # the archive itself is handled by the tar-* kinds
                    if inj._match("create", p):
                        inj._fire("create", p)
                    f = real(file, mode, *a, **k)
                    if inj.fault is not None and inj.fault["kind"] == "write":
                        return WProxy(f, p)
                    return f
                return real(file, mode, *a, **k)

            return _open

        self._patch(builtins, "open", mk_open(real_open))
        self._patch(io, "open", mk_open(real_io_open))

        def wrap(obj, name, kind, argpos=0, pathfn=None):
            real = getattr(obj, name)

            def w(*a, **k):
                p = pathfn(*a, **k) if pathfn else (a[argpos] if len(a) > argpos else None)
                if inj._match(kind, os.fspath(p) if isinstance(p, os.PathLike) else p):
                    inj._fire(kind, p)
                return real(*a, **k)

            self._patch(obj, name, w)

        wrap(os, "unlink", "unlink")
        wrap(os, "mkdir", "mkdir")
        wrap(os, "rmdir", "rmdir")
        wrap(os, "replace", "replace", argpos=1)
        wrap(os, "rename", "replace", argpos=1)
        wrap(_shutil, "rmtree", "rmtree")
        wrap(_shutil, "copytree", "copytree", argpos=1)
        wrap(_tempfile, "mkdtemp", "mkdtemp", pathfn=lambda *a, **k: None)

        real_topen = _tarfile.open

        def topen(name=None, mode="r", *a, **k):
            kind = "tar-open" if str(mode).startswith("w") else "tar-read"
            if inj._match(kind, os.fspath(name)):
                inj._fire(kind, name)
            return real_topen(name, mode, *a, **k)

        self._patch(_tarfile, "open", topen)
        real_addfile = _tarfile.TarFile.addfile

        def addfile(self_, tarinfo, fileobj=None):
            if inj._match("tar-add", tarinfo.name):
                inj._fire("tar-add", tarinfo.name)
            return real_addfile(self_, tarinfo, fileobj)

        self._patch(_tarfile.TarFile, "addfile", addfile)
        real_close = _tarfile.TarFile.close

        def tclose(self_):
            if not self_.closed and self_.mode == "w" and inj._match("tar-close", self_.name):
                # what a crash leaves behind: the member data without the end-of-archive blocks
                self_.fileobj.flush()
                if not self_._extfileobj:
                    self_.fileobj.close()
                self_.closed = True
                inj._fire("tar-close", self_.name)
            return real_close(self_)

        self._patch(_tarfile.TarFile, "close", tclose)
        real_extractall = _tarfile.TarFile.extractall

        def extractall(self_, path=".", *a, **k):
            if inj._match("extractall", os.fspath(path)):
                inj._fire("extractall", path)
            return real_extractall(self_, path, *a, **k)

        self._patch(_tarfile.TarFile, "extractall", extractall)
        return self

    def __exit__(self, *a):
        for obj, name, old in reversed(self.saved):
            setattr(obj, name, old)
        self.saved = []
        return False


def sha_file(p):
    p = pathlib.Path(p)
    if not p.exists():
        return None
    return hashlib.sha256(p.read_bytes()).hexdigest()


def sha_tree(root, mtime=False):
    """rel path -> sha256 of the bytes (with mtime=True also inode and mtime_ns, which reveal a rewrite with identical bytes)."""
    root = pathlib.Path(root)
    if not root.exists():
        return None
    out = {}
    for q in sorted(root.rglob("*")):
        if q.is_dir():
            out[str(q.relative_to(root))] = DIR
        else:
            h = hashlib.sha256(q.read_bytes()).hexdigest()
            st = q.stat()
            out[str(q.relative_to(root))] = (h, st.st_ino, st.st_mtime_ns) if mtime else h
    return out


def real_archive_state(path):
    """('absent',) | ('tar', names, {name: sha}) | ('unreadable', msg)   for a real archive."""
    path = pathlib.Path(path)
    if not path.exists():
        return ("absent",)
    try:
        with _tarfile.open(path) as t:
            names = t.getnames()
            cont = {}
            for m in t.getmembers():
                if m.isfile():
                    cont[m.name] = hashlib.sha256(t.extractfile(m).read()).hexdigest()
        return ("tar", names, cont)
    except Exception as e:  # noqa
        return ("unreadable", "%s: %s" % (type(e).__name__, e))


@contextlib.contextmanager
def scratch():
    """A private directory under /tmp; the temp dirs the real EKO code makes (tempfile.mkdtemp) are
    redirected into it, so cleaning up never touches anybody else's files."""
    d = pathlib.Path(_tempfile.mkdtemp(prefix="symx-io-"))
    old = _tempfile.tempdir
    (d / "tmp").mkdir()
    _tempfile.tempdir = str(d / "tmp")
    try:
        yield d
    finally:
        _tempfile.tempdir = old
        _shutil.rmtree(d, ignore_errors=True)


def real_op(tag, err=False):
    import numpy as np
    from eko.io.items import Operator

    return Operator(np.full((2, 2, 2, 2), float(tag)), error=np.full((2, 2, 2, 2), 0.25) if err else None)


# ---------------------------------------------------------------------------
# scripted sessions, run unchanged on the model and on the real file system
# ---------------------------------------------------------------------------
def new_xgrid():
    from eko import interpolation

    return interpolation.XGrid([0.2, 0.6, 1.0])


def some_recipes():
    from eko.io.items import Evolution, Matching

    return Evolution(2.0, 30.0, 4, cliff=True), Matching(30.0, 5, False)


class World:
    """What a scripted session needs: where the archive is, how to make a payload, user-code steps."""

    path = None

    def mkop(self, tag, err=False):
        raise NotImplementedError

    def user(self, n):
        pass


class ModelWorld(World):
    def __init__(self, fs, tags=None):
        self.fs = fs
        self.path = MPath("/work/out.tar")
        self.tags = tags or {}

    def tag(self, t):
        return self.tags.get(t, t)

    def mkop(self, tag, err=False):
        return MOperator(self.tag(tag), bool(err))

    def user(self, n):
        self.fs.step("user", "u%d" % n, exc=UserAbort)


class RealWorld(World):
    def __init__(self, path, tags=None, fault=None):
        self.path = pathlib.Path(path)
        self.tags = tags or {}
        self.fault = fault
        self.fired = False

    def tag(self, t):
        return self.tags.get(t, t)

    def mkop(self, tag, err=False):
        return real_op(self.tag(tag), bool(err))

    def user(self, n):
        f = self.fault
        if f is not None and f["kind"] == "user" and f["rel"] == "u%d" % n and not self.fired:
            self.fired = True
            raise UserAbort("user code raised at u%d" % n)


def apply_op(eko, o, world):
    """One scripted operation on an open EKO. Returns what the operation returns."""
    kind = o[0]
    if kind == "set":
        eko[KEYS[o[1]]] = world.mkop(o[2], o[3] if len(o) > 3 else False)
    elif kind == "get":
        return eko[KEYS[o[1]]]
    elif kind == "del":
        del eko[KEYS[o[1]]]
    elif kind == "contains":
        return KEYS[o[1]] in eko
    elif kind == "iter":
        return list(eko)
    elif kind == "items":
        return [(ep, op) for ep, op in eko.items()]
    elif kind == "sync":
        eko.operators.sync()
    elif kind == "unload":
        eko.unload()
    elif kind == "xgrid":
        eko.xgrid = new_xgrid()
    elif kind == "update":
        eko.update()
    elif kind == "metadata_update":
        eko.metadata.version = "9.9.9"  # a visible change of the metadata, then the documented way to store it
        eko.metadata.update()
    elif kind == "dump":
        eko.dump()
    elif kind == "close":
        eko.close()
    elif kind == "exit":
        eko.__exit__(None, None, None)
    elif kind == "load_recipes_evol":
        eko.load_recipes([some_recipes()[0]])
    elif kind == "load_recipes_match":
        eko.load_recipes([some_recipes()[1]])
    elif kind == "inv":
        from eko.io.items import Target

        ev, ma = some_recipes()
        name = o[1]
        if name == "recipes":
            eko.recipes[ev] = None
        elif name == "recipes_matching":
            eko.recipes_matching[ma] = None
        elif name == "parts":
            eko.parts[ev] = world.mkop(o[2])
        elif name == "parts_matching":
            eko.parts_matching[ma] = world.mkop(o[2])
        elif name == "operators":
            eko.operators[Target.from_ep(KEYS[1])] = world.mkop(o[2])
        else:
            raise ValueError(name)
    elif kind == "user":
        world.user(o[1])
    else:
        raise ValueError("unknown scripted op %r" % (o,))
    return None


def body(eko, ops, world):
    for o in ops:
        apply_op(eko, o, world)


def session_new(world, ops):
    from eko.io.struct import EKO

    th, opc = example_cards()
    with EKO.create(world.path) as b:
        eko = b.load_cards(th, opc).build()
        body(eko, ops, world)


def session_edit(world, ops):
    from eko.io.struct import EKO

    with EKO.edit(world.path) as eko:
        body(eko, ops, world)


def session_solve(world, ops=()):
    from eko.runner import managed

    th, opc = solve_cards()
    managed.solve(th, opc, world.path)


SESSIONS = {"new": session_new, "edit": session_edit, "solve": session_solve}


def model_tree_names(fs, root):
    return sorted(fs.tree(root))


def real_tree_names(root):
    root = pathlib.Path(root)
    return sorted(str(q.relative_to(root)) for q in root.rglob("*"))


# ---------------------------------------------------------------------------
# running a scenario on the real file system (replays, translator validation)
# ---------------------------------------------------------------------------
def has_eof_marker(path):
    """A tar archive written to the end finishes with (at least) two zero blocks."""
    b = pathlib.Path(path).read_bytes()
    return len(b) >= 1024 and len(b) % 512 == 0 and not any(b[-1024:])


def real_content(path):
    """Plain dict {ep: (payload tag, has_error)} read back through the real EKO.read, or None."""
    from eko.io.struct import EKO

    try:
        out = {}
        with EKO.read(pathlib.Path(path)) as eko:
            for ep in list(eko):
                op = eko[ep]
                out[(float(ep[0]), int(ep[1]))] = (float(op.operator.flat[0]), op.error is not None)
        return out
    except Exception:  # noqa
        return None


def dict_after(prev, ops, tags):
    """The plain-dict oracle: content after applying the scripted ops to `prev`."""
    d = dict(prev or {})
    for o in ops:
        if o[0] == "set":
            d[KEYS[o[1]]] = (float(tags.get(o[2], o[2])), bool(o[3]) if len(o) > 3 else False)
    return d


def run_real(scenario, ops, pre_ops, faults, tags, d, compute_hook=None):
    """Run [pre-session], then one session per fault (+ nothing else) on the real file system.
    Returns list of dict(exc, fired, exists, sha, eof, content) per attempted session + prev sha."""
    path = d / "out.tar"
    if scenario == "edit":
        session_new(RealWorld(path, tags), pre_ops)
    prev = sha_file(path)
    prev_content = real_content(path) if prev else None
    out = []
    for f in faults:
        w = RealWorld(path, tags, fault=f)
        exc = None
        with Injector(f if (f is None or f["kind"] not in ("user", "compute")) else None) as inj:
            hook = compute_hook(f) if (compute_hook and f is not None and f["kind"] == "compute") else contextlib.nullcontext()
            with hook:
                try:
                    SESSIONS[scenario](w, ops)
                except BaseException as e:  # noqa
                    exc = e
        fired = inj.fired or w.fired or (f is not None and f["kind"] == "compute" and exc is not None)
        rec = {"exc": exc, "fired": fired, "exists": path.exists(), "sha": sha_file(path)}
        rec["size"] = path.stat().st_size if path.exists() else None
        rec["eof"] = has_eof_marker(path) if path.exists() else None
        rec["content"] = real_content(path) if path.exists() else None
        rec["state"] = real_archive_state(path)
        out.append(rec)
        if exc is None:
            break
    return prev, prev_content, out


# ---------------------------------------------------------------------------
class Decider:
    """log.decide with a bounded number of replays per violation key: the first counterexample of every
    key is replayed against the real code; later counterexamples under a key that has already been
    replayed and confirmed are recorded as `sat` obligations (counted in a note) without their own
    replay; a key whose counterexamples failed to reproduce `max_unreproduced` times is not replayed
    any further either (each further one is recorded as inconclusive, never as a pass)."""

    def __init__(self, log, max_unreproduced=2):
        self.log = log
        self.confirmed = {}
        self.failed = {}
        self.max_unreproduced = max_unreproduced

    def __call__(self, v, key, replay=None, **kw):
        log = self.log
        if v.holds:
            return log.decide(v, key=key, replay=replay, **kw)
        rec = {"case": log.case, "what": v.what, "status": v.status, "time_s": round(v.time, 4), "residual_terms": v.nterms}
        if key in self.confirmed:
            self.confirmed[key] += 1
            log.obligations.append(dict(rec, note="same key as an already replayed violation"))
            return False
        if self.failed.get(key, 0) >= self.max_unreproduced:
            self.failed[key] += 1
            log.obligations.append(dict(rec, note="not replayed: earlier counterexamples of this key did not reproduce"))
            if self.failed[key] == self.max_unreproduced + 1:
                log.inconclusive.append("%s/%s: solver answered %s; further counterexamples under key %s are not replayed (the first %d did not reproduce)"
                                        % (log.case, v.what, v.status, key, self.max_unreproduced))
            return False
        ok = log.decide(v, key=key, replay=replay, **kw)
        if any(x["key"] == key for x in log.violations):
            self.confirmed[key] = 0
        else:
            self.failed[key] = self.failed.get(key, 0) + 1
        return ok

    def finish(self):
        for k, n in self.confirmed.items():
            if n:
                self.log.notes.append("%d further counterexamples under key %s (first one replayed, these not individually)" % (n, k))
        for k, n in self.failed.items():
            if n > self.max_unreproduced:
                self.log.notes.append("%d counterexamples under key %s were not replayed after %d failed reproductions" % (n - self.max_unreproduced, k, self.max_unreproduced))
