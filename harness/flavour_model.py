"""Independent plain model of eko's flavour space, used as the oracle of C31, C33, C32, C52, C01.

Everything here is transcribed from the documentation (doc/source/theory/FlavorSpace.rst and
Matching.rst, and the docstrings of eko.evolution_operator.physical / matching_condition), NOT
from eko.basis_rotation / eko.evolution_operator.flavors: exact Fractions, plain dicts and lists.

  flavour basis (FlavorSpace.rst, "Flavor Basis"):  gamma, tbar, bbar, cbar, sbar, ubar, dbar, g, d, u, s, c, b, t
  q+- = q +- qbar
  QCD evolution basis:  S = sum q+, V = sum q-, T3 = u+ - d+, T8 = u+ + d+ - 2 s+, T15 = u+ + d+ + s+ - 3 c+, ...
  intrinsic QCD basis(nf): S_(nf), V_(nf), T/V_{k^2-1} (k <= nf), h+-, for h > nf
  unified basis: S = S_u + S_d, Sdelta = S_u - S_d (nf=6), Tu3 = u+ - c+, Tu8 = u+ + c+ - 2 t+, Td3 = d+ - s+, Td8 = d+ + s+ - 2 b+
  intrinsic unified basis(nf): Sdelta_(nf) = (n_d/n_u) S_u,(nf) - S_d,(nf)   (2u+ - d+ - s+ for nf=3; 3/2 (u+ + c+) - d+ - s+ - b+ for nf=5)
"""
from fractions import Fraction as F

PIDS = (22, -6, -5, -4, -3, -2, -1, 21, 1, 2, 3, 4, 5, 6)
NAMES = ("ph", "tbar", "bbar", "cbar", "sbar", "ubar", "dbar", "g", "d", "u", "s", "c", "b", "t")
QUARK = {"d": 1, "u": 2, "s": 3, "c": 4, "b": 5, "t": 6}
QNAME = {v: k for k, v in QUARK.items()}
EVOL_ORDER = (2, 1, 3, 4, 5, 6)  # u d s c b t: T_{k^2-1} = q_1+ + .. + q_{k-1}+ - (k-1) q_k+
UP = (2, 4, 6)
DOWN = (1, 3, 5)
QED_NS = {"d3": 3, "u3": 4, "d8": 5, "u8": 6}  # non-singlet label -> smallest nf in which it is a basis element
QED_NS_BY_NF = {v: k for k, v in QED_NS.items()}


def light_eko(*subpackages):
    """Replays only: register bare package objects for `eko` (and the named sub-packages) so that importing one
    module of the package does not execute eko/__init__.py (io, runner, numba, scipy: ~10 s per interpreter).
    The modules under test themselves are imported and executed unmodified from $EKO_REPO/src."""
    import os
    import sys
    import types

    if "eko" in sys.modules:
        return
    root = next((p for p in sys.path if os.path.isfile(os.path.join(p, "eko", "basis_rotation.py"))), None)
    if root is None:
        return
    for name in ("eko",) + tuple("eko." + s for s in subpackages):
        pkg = types.ModuleType(name)
        pkg.__path__ = [os.path.join(root, *name.split("."))]
        sys.modules[name] = pkg
    for s in subpackages:
        setattr(sys.modules["eko"], s, sys.modules["eko." + s])


def vname(prefix, label):
    """name of the solver symbol attached to a basis label / pid (shared by harness and replay)"""
    return "%s_%s" % (prefix, str(label).replace("-", "m").replace("+", "p"))


def _pm(q, sign, w=1):
    return {q: F(w), -q: F(sign) * F(w)}


def _acc(d, e):
    for k, v in e.items():
        d[k] = d.get(k, F(0)) + v
    return d


def n_up(nf):
    return nf // 2


def n_down(nf):
    return nf - nf // 2


def content(label, nf, qed):
    """Flavour content {pid: weight} of an element of the intrinsic (unified) evolution basis with nf light flavours."""
    if label == "ph":
        return {22: F(1)}
    if label == "g":
        return {21: F(1)}
    if len(label) == 2 and label[0] in QUARK and label[1] in "+-":
        return _pm(QUARK[label[0]], 1 if label[1] == "+" else -1)
    sign = {"S": 1, "T": 1, "V": -1}[label[0]]
    out = {}
    if label in ("S", "V"):
        for q in range(1, nf + 1):
            _acc(out, _pm(q, sign))
        return out
    if qed:
        if label in ("Sdelta", "Vdelta"):
            r = F(n_down(nf), n_up(nf))
            for q in range(1, nf + 1):
                _acc(out, _pm(q, sign, r if q in UP else -1))
            return out
        tag = label[1:]
        if tag not in QED_NS:
            raise KeyError(label)
        fam = UP if tag[0] == "u" else DOWN
        if tag[1] == "3":
            _acc(out, _pm(fam[0], sign))
            _acc(out, _pm(fam[1], sign, -1))
        else:
            _acc(out, _pm(fam[0], sign))
            _acc(out, _pm(fam[1], sign))
            _acc(out, _pm(fam[2], sign, -2))
        return out
    n = int(label[1:])
    k = round((n + 1) ** 0.5)
    if k * k - 1 != n or not 2 <= k <= 6:
        raise KeyError(label)
    for q in EVOL_ORDER[: k - 1]:
        _acc(out, _pm(q, sign))
    _acc(out, _pm(EVOL_ORDER[k - 1], sign, -(k - 1)))
    return out


def basis(nf, qed, photon=True):
    """Ordered labels of the intrinsic (unified) evolution basis with nf light flavours."""
    if qed:
        labs = ["g", "ph", "S", "Sdelta", "V", "Vdelta"]
        for k in range(3, nf + 1):
            labs += ["T" + QED_NS_BY_NF[k], "V" + QED_NS_BY_NF[k]]
    else:
        labs = (["ph"] if photon else []) + ["g", "S", "V"]
        for k in range(2, nf + 1):
            labs += ["T%d" % (k * k - 1), "V%d" % (k * k - 1)]
    for h in range(nf + 1, 7):
        labs += [QNAME[h] + "+", QNAME[h] + "-"]
    return labs


def row(label, nf, qed):
    c = content(label, nf, qed)
    return [c.get(p, F(0)) for p in PIDS]


def rows(labels, nf, qed):
    return [row(l, nf, qed) for l in labels]


# ---------------------------------------------------------------------------
# exact linear algebra over Q
# ---------------------------------------------------------------------------
def matmul(a, b):
    return [[sum((a[i][k] * b[k][j] for k in range(len(b))), F(0)) for j in range(len(b[0]))] for i in range(len(a))]


def transpose(a):
    return [list(r) for r in zip(*a)]


def inverse(m):
    n = len(m)
    a = [list(map(F, r)) + [F(int(i == j)) for j in range(n)] for i, r in enumerate(m)]
    for c in range(n):
        p = next((r for r in range(c, n) if a[r][c] != 0), None)
        if p is None:
            raise ZeroDivisionError("singular matrix")
        a[c], a[p] = a[p], a[c]
        pv = a[c][c]
        a[c] = [x / pv for x in a[c]]
        for r in range(n):
            if r != c and a[r][c] != 0:
                f = a[r][c]
                a[r] = [x - f * y for x, y in zip(a[r], a[c])]
    return [r[n:] for r in a]


def pinv_rows(R):
    """Moore-Penrose pseudo inverse of a full-row-rank matrix R (rows = basis distributions): R^T (R R^T)^-1.
    Orthogonality of the rows is NOT assumed.  Returned as a 14 x len(R) matrix."""
    Rt = transpose(R)
    return matmul(Rt, inverse(matmul(R, Rt)))


# ---------------------------------------------------------------------------
# anomalous-dimension sectors (Operator Anomalous Dimension Basis) -> evolution-basis elements "target.input"
# ---------------------------------------------------------------------------
NS = {"ns-": 10201, "ns+": 10101, "nsV": 10200, "ns-u": 10202, "ns-d": 10203, "ns+u": 10102, "ns+d": 10103}
SINGLET_QCD = {100: "S", 21: "g"}
SINGLET_QED = {21: "g", 22: "ph", 100: "S", 101: "Sdelta"}
VALENCE_QED = {10200: "V", 10204: "Vdelta"}


def sector_labels(qed):
    if not qed:
        return [(a, b) for a in (100, 21) for b in (100, 21)] + [(NS["ns-"], 0), (NS["ns+"], 0), (NS["nsV"], 0)]
    return ([(a, b) for a in (21, 22, 100, 101) for b in (21, 22, 100, 101)] + [(a, b) for a in (10200, 10204) for b in (10200, 10204)]
            + [(NS[k], 0) for k in ("ns+d", "ns-d", "ns+u", "ns-u")])


def sector_elements(lab, nf, qed):
    """Evolution-basis elements (target, input) driven by the anomalous-dimension sector `lab` with nf light flavours."""
    a, b = lab
    if not qed:
        if b != 0:
            return [(SINGLET_QCD[a], SINGLET_QCD[b])]
        if a == NS["nsV"]:
            return [("V", "V")]
        pre = {NS["ns+"]: "T", NS["ns-"]: "V"}[a]
        return [("%s%d" % (pre, k * k - 1),) * 2 for k in range(2, nf + 1)]
    if b != 0:
        tab = SINGLET_QED if a in SINGLET_QED else VALENCE_QED
        return [(tab[a], tab[b])]
    pre, fam = {NS["ns+u"]: ("T", "u"), NS["ns+d"]: ("T", "d"), NS["ns-u"]: ("V", "u"), NS["ns-d"]: ("V", "d")}[a]
    return [(pre + tag,) * 2 for tag, k in QED_NS.items() if tag[0] == fam and k <= nf]


def is_diagonal_sector(lab):
    return lab[1] == 0 or lab[0] == lab[1]


# ---------------------------------------------------------------------------
# evolution-basis block structure of the physical operator and of the matching condition
# (docstrings of PhysicalOperator / MatchingCondition and Matching.rst): {(target, input): member key | "id"}
# ---------------------------------------------------------------------------
def physical_blocks(nf, qed):
    m = {}
    for lab in sector_labels(qed):
        for el in sector_elements(lab, nf, qed):
            m[el] = lab
    for h in range(nf + 1, 7):
        for s in "+-":
            m[(QNAME[h] + s,) * 2] = "id"
    return m


def matching_blocks(nf, qed):
    """nf = number of light flavours below the threshold; h = quark nf+1 is matched, quarks above stay intrinsic."""
    h = QNAME[nf + 1]
    m = {("S", "S"): (100, 100), ("S", "g"): (100, 21), ("g", "S"): (21, 100), ("g", "g"): (21, 21), ("V", "V"): (200, 200)}
    for lab in basis(nf, qed, photon=False):
        if lab[0] in "TV" and lab != "V" or lab in ("Sdelta", "Vdelta"):
            m[(lab, lab)] = (200, 200)
    if qed:
        m[("ph", "ph")] = "id"
    m[(h + "+", "S")] = (90, 100)
    m[(h + "+", "g")] = (90, 21)
    m[(h + "+", h + "+")] = (90, 90)
    m[("S", h + "+")] = (100, 90)
    m[("g", h + "+")] = (21, 90)
    m[(h + "-", h + "-")] = (91, 91)
    for k in range(nf + 2, 7):
        for s in "+-":
            m[(QNAME[k] + s,) * 2] = "id"
    return m


def light_partons(nf, qed):
    """pids of the active parton space: gluon, light (anti)quarks, photon only with QED."""
    return [p for p in PIDS if p == 21 or (p == 22 and qed) or (p not in (21, 22) and abs(p) <= nf)]
