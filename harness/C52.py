"""C52  Heavy flavours that are never active are transported unchanged.

Decomposition (induction over the parts of a flavour-number path):
  base      every part of a path that never activates quark h -- an evolution operator with nf < h light flavours
            (PhysicalOperator.ad_to_evol_map) or a matching nf -> nf+1 with nf+1 < h (MatchingCondition.split_ad_to_evol_map,
            forward or backward: the label set is the same) -- blown up by OperatorBase.to_flavor_basis_tensor has rows and
            columns of h and hbar equal to those of the identity, for ARBITRARY symbolic member matrices (grid 1, 2).
  step      if two rank-4 tensors have identity rows/columns for the pids in H, so has their product computed by the real
            eko.runner.operators.join (reduce of _dotop / _dot4); every other entry of both factors is a free symbol.
  path      recipes._elements on the real Atlas: for every (nf0, nf_target) the parts have nf <= max(nf0, nf_target) and the
            matchings activate quarks <= max(nf0, nf_target) only (finite enumeration, concrete).
Real code executed symbolically: the two maps, OperatorBase.promote_names/to_flavor_basis_tensor, OpMember, flavors.get_range /
pids_from_intrinsic_(unified_)evol / rotate_pm_to_flavor, runner.operators.join/_dotop/_dot4.
"""
from fractions import Fraction

import z3

from .common import *  # noqa
from symx.solver import explore, prove_formula
from symx.val import SymbolicEscape, EngineError
from symx import harness as H
from . import flavour_model as M
from . import flavour_ops as O
from .flavour_sym import prove_all_zero, failed, decide_once

MOD = "harness.C52"


def _tag(qed):
    return "qed" if qed else "qcd"


def _inactive(kind, nf):
    """quarks never activated by this part: above nf for an evolution, above nf+1 for the matching nf -> nf+1"""
    return list(range(nf + 1 if kind == "physical" else nf + 2, 7))


def case_base(log, kind, nfs, qed, g):
    mods = O.modules()
    member, physical, matching, fl = mods
    log.encode(physical.PhysicalOperator.ad_to_evol_map if kind == "physical" else matching.MatchingCondition.split_ad_to_evol_map,
               member.OperatorBase.to_flavor_basis_tensor, member.OpMember.id_like, fl.get_range, fl.pids_from_intrinsic_evol,
               fl.pids_from_intrinsic_unified_evol, fl.rotate_pm_to_flavor)
    fname = "PhysicalOperator.ad_to_evol_map" if kind == "physical" else "MatchingCondition.split_ad_to_evol_map"
    for nf in nfs:
        kw = {"kind": kind, "nf": nf, "qed": qed, "g": g}

        def run(nf=nf, kw=kw):
            try:
                val, members, _op = O.run_map(mods, kind, nf, qed, g)
            except (SymbolicEscape, EngineError):
                raise
            except Exception as e:  # noqa
                v = failed("%s(nf=%d, %s, grid %d) returns a tensor: raised %s: %s" % (kind, nf, _tag(qed), g, type(e).__name__, e))
                decide_once(log, v, key="%s[%s]:raises" % (fname, _tag(qed)), replay=(MOD, "replay_base", kw), candidates=[{"__seed__": 1}])
                return
            for h in _inactive(kind, nf):
                for p in (h, -h):
                    ip = M.PIDS.index(p)
                    rows_, cols_ = [], []
                    for a in range(g):
                        for b in range(g):
                            for i in range(14):
                                d = 1 if (i == ip and a == b) else 0
                                rows_.append(O.lift(val[ip, a, i, b]) - d)
                                cols_.append(O.lift(val[i, a, ip, b]) - d)
                    v = prove_all_zero(rows_, "%s(nf=%d, %s, grid %d): row of pid %d == identity row (receives only itself, weight one) for all members" % (kind, nf, _tag(qed), g, p))
                    decide_once(log, v, key="%s[%s]:inactive-row" % (fname, _tag(qed)), replay=(MOD, "replay_base", dict(kw, pid=p)), sampler=_seed)
                    v = prove_all_zero(cols_, "%s(nf=%d, %s, grid %d): column of pid %d == identity column (feeds only itself) for all members" % (kind, nf, _tag(qed), g, p))
                    decide_once(log, v, key="%s[%s]:inactive-column" % (fname, _tag(qed)), replay=(MOD, "replay_base", dict(kw, pid=p)), sampler=_seed)
            log.twin("domain")
            log.collect_ctx()

        _r, pm = explore(run)
        log.path_stats(pm)


def _seed(rng):
    return {"__seed__": rng.randint(1, 10**6)}


# ---------------------------------------------------------------------------
# inductive step: products
# ---------------------------------------------------------------------------
def tname(t, o, a, i, b):
    return "%s_%d_%d_%d_%d" % (t, o, a, i, b)


def _sym_tensor(t, g, hidx):
    import numpy as np

    T = np.empty((14, g, 14, g), dtype=object)
    for o in range(14):
        for a in range(g):
            for i in range(14):
                for b in range(g):
                    if o in hidx or i in hidx:
                        T[o, a, i, b] = 1 if (o == i and a == b) else 0
                    else:
                        T[o, a, i, b] = SR.var(tname(t, o, a, i, b))
    return T


def case_product(log, nfmax, g, nfactors):
    ops = sym_module("eko.runner.operators")
    from eko.io.items import Operator

    log.encode(ops.join, ops._dotop, ops._dot4)
    hidx = [M.PIDS.index(s * h) for h in range(nfmax + 1, 7) for s in (1, -1)]
    kw = {"nfmax": nfmax, "g": g, "nfactors": nfactors}

    def run():
        parts = [Operator(_sym_tensor("ABCD"[k], g, hidx), None) for k in range(nfactors)]
        try:
            res = ops.join(parts).operator
        except (SymbolicEscape, EngineError):
            raise
        except Exception as e:  # noqa
            v = failed("join of %d parts (grid %d): raised %s: %s" % (nfactors, g, type(e).__name__, e))
            decide_once(log, v, key="runner.operators.join:raises", replay=(MOD, "replay_product", kw), candidates=[{"__seed__": 1}])
            return
        for ip in hidx:
            rows_, cols_ = [], []
            for a in range(g):
                for b in range(g):
                    for i in range(14):
                        d = 1 if (i == ip and a == b) else 0
                        rows_.append(O.lift(res[ip, a, i, b]) - d)
                        cols_.append(O.lift(res[i, a, ip, b]) - d)
            v = prove_all_zero(rows_ + cols_, "join of %d tensors with identity rows/columns for quarks > %d (grid %d): row and column of pid %d of the product are the identity's"
                               % (nfactors, nfmax, g, M.PIDS[ip]))
            decide_once(log, v, key="runner.operators.join:inactive", replay=(MOD, "replay_product", dict(kw, pid=M.PIDS[ip])), sampler=_seed)
        log.twin("domain")

    _r, pm = explore(run)
    log.path_stats(pm)


# ---------------------------------------------------------------------------
# path structure (finite, concrete)
# ---------------------------------------------------------------------------
def _path_facts():
    import numpy as np
    from eko.matchings import Atlas
    from eko.io.items import Evolution, Matching
    from eko.runner import recipes

    bad, n = [], 0
    walls = [2.0, 20.0, 30000.0]
    for nf0 in (3, 4, 5, 6):
        for mu0 in (1.0, 10.0, 100.0, 1e5):
            atlas = Atlas(list(walls), (mu0, nf0))
            for nf1 in (3, 4, 5, 6):
                for mu1 in (1.5, 15.0, 150.0, 1e6):
                    top = max(nf0, nf1)
                    for r in recipes._elements((mu1, nf1), atlas):
                        n += 1
                        if isinstance(r, Evolution) and not (min(nf0, nf1) <= r.nf <= top):
                            bad.append(((mu0, nf0), (mu1, nf1), repr(r)))
                        if isinstance(r, Matching) and not (min(nf0, nf1) < r.hq <= top):
                            bad.append(((mu0, nf0), (mu1, nf1), repr(r)))
    return n, bad


def case_path(log):
    from eko.runner import recipes
    from eko.matchings import Atlas

    log.encode(recipes._elements, Atlas.path, Atlas.matched_path)

    def run():
        n, bad = _path_facts()
        what = "every part of a path (nf0 -> nf1) has nf <= max(nf0, nf1) and matches only quarks <= max(nf0, nf1): %d parts over 256 paths" % n
        if bad:
            log.decide(failed(what + "; violated e.g. by %r" % (bad[0],)), key="recipes._elements:path", replay=(MOD, "replay_path", {}), candidates=[{}])
        else:
            log.ok(prove_formula(z3.BoolVal(True), what), {"nontrivial": False})

    _r, pm = explore(run)
    log.path_stats(pm)


# ---------------------------------------------------------------------------
# replays
# ---------------------------------------------------------------------------
def _check_identity(T, pids, what):
    import numpy as np

    g = T.shape[1]
    if not np.all(np.isfinite(T)):
        return {"detail": what + ": tensor contains nan/inf"}
    for p in pids:
        ip = M.PIDS.index(p)
        for a in range(g):
            for b in range(g):
                for i in range(14):
                    d = 1.0 if (i == ip and a == b) else 0.0
                    if abs(T[ip, a, i, b] - d) > 1e-9:
                        return {"detail": "%s: pid %d at grid point %d receives weight %r from pid %d at grid point %d (must be %r)" % (what, p, a, float(T[ip, a, i, b]), M.PIDS[i], b, d)}
                    if abs(T[i, a, ip, b] - d) > 1e-9:
                        return {"detail": "%s: pid %d at grid point %d feeds weight %r into pid %d at grid point %d (must be %r)" % (what, p, b, float(T[i, a, ip, b]), M.PIDS[i], a, d)}
    return None


def replay_base(point, kind, nf, qed, g, pid=None):
    from .C32 import _point_from

    try:
        _, probe = O.real_tensor(kind, nf, qed, g, {}, fill=0.0)
        pt = _point_from(point if "__seed__" in point else dict(point, __seed__=7), {O.mname(k, i, j) for k in probe for i in range(g) for j in range(g)})
        T, _m = O.real_tensor(kind, nf, qed, g, pt)
    except Exception as e:  # noqa
        return {"detail": "%s map / to_flavor_basis_tensor (nf=%d, qed=%s, grid %d) raises %s: %s" % (kind, nf, qed, g, type(e).__name__, e)}
    pids = [s * h for h in _inactive(kind, nf) for s in (1, -1)]
    return _check_identity(T, pids, "%s with nf=%d (%s, grid %d), random members" % ("evolution operator" if kind == "physical" else "matching %d->%d" % (nf, nf + 1), nf, _tag(qed), g))


def replay_product(point, nfmax, g, nfactors, pid=None):
    import random
    import numpy as np
    from eko.io.items import Operator
    from eko.runner import operators as ops

    rng = random.Random(int(point.get("__seed__", 11)))
    hidx = [M.PIDS.index(s * h) for h in range(nfmax + 1, 7) for s in (1, -1)]
    parts = []
    for k in range(nfactors):
        T = np.zeros((14, g, 14, g))
        for o in range(14):
            for a in range(g):
                for i in range(14):
                    for b in range(g):
                        if o in hidx or i in hidx:
                            T[o, a, i, b] = 1.0 if (o == i and a == b) else 0.0
                        else:
                            n = tname("ABCD"[k], o, a, i, b)
                            T[o, a, i, b] = float(Fraction(point[n])) if n in point else rng.uniform(-1, 1)
        parts.append(Operator(T, None))
    try:
        res = ops.join(parts).operator
    except Exception as e:  # noqa
        return {"detail": "eko.runner.operators.join raises %s: %s" % (type(e).__name__, e)}
    return _check_identity(res, [M.PIDS[i] for i in hidx], "product of %d tensors that carry quarks > %d unchanged (grid %d)" % (nfactors, nfmax, g))


def replay_path(point):
    n, bad = _path_facts()
    return {"detail": "path activates a quark above max(nf0, nf1): %r" % (bad[:3],)} if bad else None


def main():
    chk = H.Check("C52")
    deep = H.tier() == "thorough"
    chk.bounds = ["parts: evolution operator nf in 3..5 (thorough: also the vacuous nf=6), matching nf -> nf+1 for nf in 3..4 (thorough: 3..5), QCD and QED, grid size 1, 2 (thorough: 3)",
                  "every entry of every member matrix the maps read is a free real symbol (arbitrary order, method, polarised/time-like, forward/backward matching: they only change member values)",
                  "product: two factors (thorough: three) whose other entries are free symbols, inactive sets {quarks > nfmax}, nfmax in 3..5, grid 1 (thorough: 2); induction gives any number of parts",
                  "path structure enumerated for nf0, nf1 in 3..6 with 4 origin and 4 target scales on one atlas (slicing of the walls does not depend on the scale values)"]
    chk.out_of_claim = ["'weight exactly one' at float level: the weights involved are 1 and 1/2 (dyadic), proved exactly over the reals",
                        "error tensors", "the numerical content of the members", "the archive round trip of the stored operator"]
    chk.stubs = ["op_members: dict creating a symbolic g x g member for every key the real map reads (error matrix 0)", "Operator.error = None in the product (error propagation takes abs())"]
    chk.assumptions = ["a path that never activates quark h consists of evolutions with nf < h and matchings of quarks < h (decided by case path on the real Atlas/recipes code)"]
    O.modules()
    gs = (1, 2, 3) if deep else (1, 2)
    for g in gs:
        for qed in (False, True):
            chk.case("base.physical.%s.g%d" % (_tag(qed), g), case_base, kind="physical", nfs=(3, 4, 5, 6) if deep else (3, 4, 5), qed=qed, g=g)
            chk.case("base.matching.%s.g%d" % (_tag(qed), g), case_base, kind="matching", nfs=(3, 4, 5) if deep else (3, 4), qed=qed, g=g)
    for nfmax in (3, 4, 5):
        chk.case("product.nfmax%d.g1.x2" % nfmax, case_product, nfmax=nfmax, g=1, nfactors=2)
        if deep:
            chk.case("product.nfmax%d.g2.x2" % nfmax, case_product, nfmax=nfmax, g=2, nfactors=2)
            chk.case("product.nfmax%d.g1.x3" % nfmax, case_product, nfmax=nfmax, g=1, nfactors=3)
    chk.case("path", case_path)
    return chk.run()


if __name__ == "__main__":
    import sys

    sys.exit(main())
