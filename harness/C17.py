"""C17  Coupling evaluations are independent of the evaluation history.

Real code executed symbolically: Couplings.a and Couplings.compute (memoisation cache, copy-on-read / copy-on-write, copy of the reference
values, matching applied in place) on a real Couplings object with concrete matching scales; the query scales are free positive symbols
(np.isclose / lepton-number / cache-key comparisons fork), the fixed-flavour RGE solutions (couplings_expanded_*, compute_exact_*) are replaced
by ONE uninterpreted function U of their arguments (fresh result symbols per call + congruence axioms "equal arguments => equal results" for every
pair of calls), the cache dictionary by a list-backed mapping whose key comparison is the symbolic tuple equality (a Python dict would compare
hashes of symbols).

history : queries q_1..q_k (k <= 3), q_i = (scale_i symbolic, nf_i enumerated); after each query the caller adds symbolic deltas IN PLACE to both
          entries of the returned array.  Goal: for every i the array returned to the caller equals what a freshly constructed object returns for
          q_i -- for all scales, deltas and every feasible path; and a_ref is unchanged.
inductive: the cache is pre-loaded with up to two arbitrary VALID entries (symbolic keys, value = U(key)); one query, then caller mutation.
          Goals: answer == fresh answer; afterwards every cache entry still equals U(its key) (validity is preserved, so the single-step result
          extends to histories of any length).
"""
from fractions import Fraction
import itertools

import numpy as realnp
import z3

from .cplkit import *  # noqa
from symx.solver import explore, prove_zero, assume_z3
from symx import harness as H

MOD = "harness.C17"
MASSES2 = [3.0, 25.0, 30000.0]
RATIOS = [2.0, 0.5, 1.5]  # matching scales 6, 12.5, 45000 GeV^2; non-unit ratios so that every order >= 2 has a non-trivial matching factor
REF = (3.0, 4)  # mu_ref = 3 GeV (mu^2 = 9, between the charm and bottom walls), nf = 4


class SymCache:
    """mapping with the dict interface (getitem raising KeyError, setitem, get, in, iteration, items/keys/values, len); keys are compared by tuple
    equality, i.e. element-wise `==`, symbolic comparisons fork."""

    def __init__(self):
        self._items = []

    @staticmethod
    def _eq(k1, k2):
        if len(k1) != len(k2):
            return False
        for x, y in zip(k1, k2):
            r = (x == y)
            if not (r if isinstance(r, bool) else bool(r)):
                return False
        return True

    def __getitem__(self, key):
        for k, v in self._items:
            if self._eq(k, key):
                return v
        raise KeyError(key)

    def __setitem__(self, key, val):
        for i, (k, _v) in enumerate(self._items):
            if self._eq(k, key):
                self._items[i] = (k, val)
                return
        self._items.append((key, val))

    def __contains__(self, key):
        return any(self._eq(k, key) for k, _v in self._items)

    def get(self, key, default=None):
        try:
            return self[key]
        except KeyError:
            return default

    def items(self):
        return list(self._items)

    def keys(self):
        return [k for k, _v in self._items]

    def values(self):
        return [v for _k, v in self._items]

    def __iter__(self):
        return iter(self.keys())

    def __len__(self):
        return len(self._items)


class Ufun:
    """uninterpreted RGE solution: result symbols per call, congruence axioms against every earlier call"""

    def __init__(self):
        self.calls = []

    def __call__(self, tag, *args):
        flat = [SR(0) + (x if not isinstance(x, bool) else int(x)) for x in args]
        k = len(self.calls)
        res = [SR.var("U%d_0" % k), SR.var("U%d_1" % k)]
        for ptag, pflat, pres in self.calls:
            if ptag != tag or len(pflat) != len(flat):
                continue
            eqs = []
            trivially_false = False
            for x, y in zip(flat, pflat):
                d = (x - y).v.canon().n
                if d.is_zero():
                    continue
                if d.is_const():
                    trivially_false = True
                    break
                eqs.append(S.poly_to_z3(d) == 0)
            if trivially_false:
                continue
            same = [S.poly_to_z3((a - b).v.n) == 0 for a, b in zip(res, pres)]
            assume_z3(z3.Implies(z3.And(eqs) if eqs else z3.BoolVal(True), z3.And(same)))
        self.calls.append((tag, flat, res))
        return symarr(list(res))


class MatchNumpy(CplNumpy):
    """np for eko.matchings: digitize over walls that contain +inf (a symbolic scale is never >= inf)"""

    def digitize(self, x, bins, right=False):
        if not isinstance(x, SR):
            return CplNumpy.digitize(self, x, bins, right=right)
        i = 0
        for b in list(bins):
            if isinstance(b, float) and b == float("inf"):
                break
            c = (x > b) if right else (x >= b)
            if c if isinstance(c, bool) else bool(c):
                i += 1
            else:
                break
        return i


def _load():
    cpl = cpl_module("eko.couplings")
    cpl.float = sym_float
    import importlib
    from symx import shim as _sh

    _sh.install(importlib.import_module("eko.matchings"), np=MatchNumpy())  # nf_default (np.digitize) for default-flow queries
    return cpl


def _install_U(cpl, U, sc):
    """replace the four RGE back ends by U (module-level functions for `expanded`, bound methods for `exact`)"""
    saved = (cpl.couplings_expanded_fixed_alphaem, cpl.couplings_expanded_alphaem_running)
    cpl.couplings_expanded_fixed_alphaem = lambda order, a, nf, s0, s1: U("rge", a[0], a[1], nf, 0, s0, s1)
    cpl.couplings_expanded_alphaem_running = lambda order, a, nf, nl, s0, s1, dec: U("rge", a[0], a[1], nf, nl, s0, s1)
    return saved


def _make(cpl, U, order, method, em_running):
    from eko.quantities.couplings import CouplingEvolutionMethod, CouplingsInfo
    from eko.quantities.heavy_quarks import QuarkMassScheme

    info = CouplingsInfo(alphas=0.2, alphaem=0.0075, ref=REF, em_running=em_running)
    meth = CouplingEvolutionMethod.EXACT if method == "exact" else CouplingEvolutionMethod.EXPANDED
    sc = cpl.Couplings(info, order, meth, list(MASSES2), QuarkMassScheme.POLE, list(RATIOS))
    sc.cache = SymCache()
    sc.a_ref = symarr([SR.var("aref0"), SR.var("aref1")])
    sc.compute_exact_fixed_alphaem = lambda a, nf, s0, s1: U("rge", a[0], a[1], nf, 0, s0, s1)
    sc.compute_exact_alphaem_running = lambda a, nf, nl, s0, s1: U("rge", a[0], a[1], nf, nl, s0, s1)
    return sc


def _domain_scale(s, box=None):
    lo, hi = box or (1, 100000)
    assume(s - lo, ">0")
    assume(hi - s, ">0")


def case_history(log, order, method, em_running, nfs_list, box=None):
    cpl = _load()
    log.encode(cpl.Couplings.a, cpl.Couplings.compute)
    D = Decider(log, max_replays=3)

    def mk(nfs):
        def run():
            U = Ufun()
            saved = _install_U(cpl, U, None)
            try:
                k = len(nfs)
                scales = [SR.var("s%d" % i) for i in range(k)]
                for s in scales:
                    _domain_scale(s, box)
                deltas = [(SR.var("d%d" % i), SR.var("e%d" % i)) for i in range(k)]
                sc = _make(cpl, U, order, method, em_running)
                aref = [sc.a_ref[0], sc.a_ref[1]]
                rp = (MOD, "replay_history", {"order": list(order), "method": method, "em_running": em_running, "nfs": list(nfs)})
                hist = []
                for i in range(k):
                    ret = sc.a(scales[i], nfs[i])
                    hist.append([ret[0], ret[1]])
                    # the caller scribbles over what it got
                    ret[0] = ret[0] + deltas[i][0]
                    ret[1] = ret[1] + deltas[i][1]
                for i in range(k):
                    fresh = _make(cpl, U, order, method, em_running).a(scales[i], nfs[i])
                    for j in range(2):
                        v = prove_zero(SR(0) + hist[i][j] - fresh[j], "order %r %s, history nf=%r: answer %d (entry %d) equals the answer of a fresh object" % (tuple(order), method, nfs, i + 1, j))
                        D(v, key="Couplings.a:history", replay=rp, sampler=_sampler)
                for j in range(2):
                    v = prove_zero(SR(0) + sc.a_ref[j] - aref[j], "order %r %s, history nf=%r: a_ref[%d] unchanged" % (tuple(order), method, nfs, j))
                    D(v, key="Couplings.a:a_ref", replay=rp, sampler=_sampler)
                log.twin("domain")
            finally:
                cpl.couplings_expanded_fixed_alphaem, cpl.couplings_expanded_alphaem_running = saved

        return run

    for nfs in nfs_list:
        _r, pm = explore(mk(tuple(nfs)), max_paths=6000)
        log.path_stats(pm)


def case_inductive(log, order, method, em_running, nf_q, npre, box=None):
    cpl = _load()
    log.encode(cpl.Couplings.a, cpl.Couplings.compute)
    D = Decider(log, max_replays=3)

    def run():
        U = Ufun()
        saved = _install_U(cpl, U, None)
        try:
            sc = _make(cpl, U, order, method, em_running)
            # arbitrary valid pre-state: keys (a0, a1, nf, nl, from, to) symbolic except the integers, value = U(key)
            for p in range(npre):
                a0, a1, s0, s1 = (SR.var("p%d_%s" % (p, n)) for n in ("a0", "a1", "from", "to"))
                for s in (s0, s1):
                    _domain_scale(s)
                for nfp in ((nf_q if nf_q is not None else 5,) if p == 0 else (REF[1],)):
                    nl = 3
                    key = (a0, a1, nfp, nl, s0, s1)
                    sc.cache[key] = U("rge", a0, a1, nfp, nl if (em_running and order[1] > 0) else 0, s0, s1)
            s = SR.var("s0")
            _domain_scale(s, box)
            d, e = SR.var("d0"), SR.var("e0")
            ret = sc.a(s, nf_q)
            got = [ret[0], ret[1]]
            ret[0] = ret[0] + d
            ret[1] = ret[1] + e
            fresh = _make(cpl, U, order, method, em_running).a(s, nf_q)
            rp = (MOD, "replay_history", {"order": list(order), "method": method, "em_running": em_running, "nfs": [nf_q, nf_q]})
            for j in range(2):
                v = prove_zero(SR(0) + got[j] - fresh[j], "order %r %s, %d arbitrary valid cache entries, query nf=%r: answer (entry %d) equals the answer of a fresh object" % (tuple(order), method, npre, nf_q, j))
                D(v, key="Couplings.a:history", replay=rp, sampler=_sampler)
            # validity preserved
            for key, val in list(sc.cache.items()):
                want = U("rge", key[0], key[1], key[2], key[3] if (em_running and order[1] > 0) else 0, key[4], key[5])
                for j in range(2):
                    v = prove_zero(SR(0) + val[j] - want[j], "order %r %s: after the query and the caller's mutation every cache entry still equals the RGE solution of its key (entry %d)" % (tuple(order), method, j))
                    D(v, key="Couplings.compute:cache_valid", replay=rp, sampler=_sampler)
            log.twin("domain")
        finally:
            cpl.couplings_expanded_fixed_alphaem, cpl.couplings_expanded_alphaem_running = saved

    _r, pm = explore(run, max_paths=6000)
    log.path_stats(pm)


def _sampler(rng):
    walls = [6.0, 12.5, 9.0, 1.777**2, 45000.0]
    p = {}
    for i in range(3):
        p["s%d" % i] = Fraction(rng.choice(walls)).limit_denominator(10**9) if rng.random() < 0.4 else rnd(rng, 2, 900)
        p["d%d" % i] = rnd(rng, -1, 1)
        p["e%d" % i] = rnd(rng, -1, 1)
    return p


# ---------------------------------------------------------------------------
def replay_history(point, order, method, em_running, nfs):
    """the real Couplings object: history with in-place mutation of the returned arrays vs fresh objects (bitwise the same code path, so
    exact agreement is required up to 1e-12 relative)."""
    import numpy as np
    from eko.couplings import Couplings
    from eko.quantities.couplings import CouplingEvolutionMethod, CouplingsInfo
    from eko.quantities.heavy_quarks import QuarkMassScheme

    def make():
        info = CouplingsInfo(alphas=0.2, alphaem=0.0075, ref=REF, em_running=em_running)
        meth = CouplingEvolutionMethod.EXACT if method == "exact" else CouplingEvolutionMethod.EXPANDED
        return Couplings(info, tuple(order), meth, list(MASSES2), QuarkMassScheme.POLE, list(RATIOS))

    scales = [float(point.get("s%d" % i, [30.0, 3.0, 30.0][i % 3])) for i in range(len(nfs))]
    if any(not 1 < s < 1e5 for s in scales):
        return None
    # also the adversarial variants: repeat the first query, and revisit its scale
    nfs = list(nfs)
    nfs3 = (nfs + [nfs[-1]] * 3)[:3]
    variants = [(scales, nfs), ([scales[0]] * 3, nfs3), ([scales[0], scales[-1], scales[0]], nfs3)]
    for sv, nfs in variants:
        sc = make()
        ref0 = sc.a_ref.copy()
        outs = []
        for i, (s, nf) in enumerate(zip(sv, nfs)):
            r = sc.a(s, nf)
            outs.append(r.copy())
            r[0] += float(point.get("d%d" % i, 0.37)) + 0.1
            r[1] += float(point.get("e%d" % i, -0.21)) - 0.1
        for i, (s, nf) in enumerate(zip(sv, nfs)):
            f = make().a(s, nf)
            if not np.allclose(outs[i], f, rtol=1e-12, atol=0):
                return {"detail": "query %d (mu^2=%r, nf=%r) after history %r returned %r, a fresh object returns %r (order %r, %s, em_running=%r)" % (i + 1, s, nf, list(zip(sv, nfs))[:i], list(outs[i]), list(f), tuple(order), method, em_running)}
        if not np.array_equal(ref0, sc.a_ref):
            return {"detail": "a_ref changed from %r to %r by the history %r" % (list(ref0), list(sc.a_ref), list(zip(sv, nfs)))}
    return None


def main():
    chk = H.Check("C17")
    thorough = H.tier() == "thorough"
    preimport("eko.couplings")
    chk.bounds = ["histories of 1-3 queries; query scales free symbols in (1, 1e5) GeV^2 (histories containing a default-flow query: (4, 40) GeV^2 around the charm and bottom matching scales; a single default-flow query and, in the thorough tier, pairs explicit+default: full range) (forks cover scales equal to the reference, to a matching scale, to the tau "
                  "mass and to earlier queries), requested nf in {3,4,5, None = default flow} around the reference nf=4 (quick: all 9 explicit pairs, 6 pairs with default-flow queries, the triple (4,4,4); thorough: 9 triples)",
                  "caller mutates both entries of every returned array in place by free symbolic amounts",
                  "orders (3,0) (constant + logarithmic matching terms, matching ratios 2, 0.5, 1.5) and (3,1) [running alpha_em: two-leg evolution through the tau mass]; methods expanded and exact (dispatch only: the RGE solution is uninterpreted)",
                  "inductive step: 0-2 arbitrary valid cache entries with symbolic keys, one query, validity of the whole cache afterwards -> histories of any length"]
    chk.out_of_claim = ["floating-point hashing of cache keys (keys compared as real numbers)",
                        "thread safety"]
    chk.stubs = ["couplings_expanded_fixed_alphaem / couplings_expanded_alphaem_running / compute_exact_* -> one uninterpreted function of (a_ref, nf, nl, from, to) "
                 "returning a NEW array per call, with congruence axioms for every pair of calls",
                 "Couplings.cache -> list-backed mapping with symbolic tuple equality (same KeyError / assignment interface)",
                 "builtin float() -> identity on symbolic values"]
    chk.assumptions = ["matching scales concrete (6, 12.5, 45000 GeV^2), reference (9 GeV^2, nf=4): the cache logic does not depend on their values"]
    O = (3, 0)  # NNLO: the matching factors carry a constant term, so the upward and downward tables differ visibly
    pairs = [list(p) for p in itertools.product((3, 4, 5), repeat=2)]
    triples = [[4, 4, 4]] if not thorough else [[4, 4, 4], [5, 4, 5], [3, 5, 3], [3, 4, 5], [4, 3, 4], [5, 3, 5], [3, 3, 3], [5, None, 3], [None, 4, None]]
    chk.case("history.expanded.o30.len1", case_history, order=O, method="expanded", em_running=False, nfs_list=[[3], [4], [5]])
    chk.case("history.expanded.o30.len1.d", case_history, order=O, method="expanded", em_running=False, nfs_list=[[None]])
    for pr in pairs:
        chk.case("history.expanded.o30.len2.%d%d" % tuple(pr), case_history, order=O, method="expanded", em_running=False, nfs_list=[pr])
    # default-flow queries (nf_to=None -> nf from the position of the scale among the matching scales) mixed with explicit ones
    DBOX = (4, 40)  # default-flow cases: scales around the charm and bottom matching scales (6, 12.5), above the tau mass -> default nf in {3,4,5}
    for pr in ([3, None], [4, None], [5, None], [None, 3], [None, 5], [None, None]):
        wide = thorough and None in pr and pr != [None, None]
        chk.case("history.expanded.o30.len2.%s" % "".join("d" if x is None else str(x) for x in pr), case_history, order=O, method="expanded", em_running=False, nfs_list=[pr],
                 box=None if wide else DBOX)
    for t in triples:
        chk.case("history.expanded.o30.len3.%s" % "".join("d" if x is None else str(x) for x in t), case_history, order=O, method="expanded", em_running=False, nfs_list=[t],
                 box=DBOX if None in t else None)
    for pr in ([4, 4], [5, 3], [3, None]):
        chk.case("history.exact.o30.len2.%s" % "".join("d" if x is None else str(x) for x in pr), case_history, order=O, method="exact", em_running=False, nfs_list=[pr],
                 box=DBOX if None in pr else None)
    for pr in ([[4, 4]] if not thorough else [[4, 4], [3, 4]]):
        chk.case("history.expanded.o31.running.len2.%d%d" % tuple(pr), case_history, order=(3, 1), method="expanded", em_running=True, nfs_list=[pr])
    chk.case("history.exact.o31.running.len2.44", case_history, order=(3, 1), method="exact", em_running=True, nfs_list=[[4, 4]])
    for nf_q in (3, 4, 5, None):
        for npre in ((1, 2) if (thorough or nf_q == 4) else (1,)):
            chk.case("inductive.expanded.o30.nf%s.pre%d" % ("d" if nf_q is None else nf_q, npre), case_inductive, order=O, method="expanded", em_running=False, nf_q=nf_q, npre=npre,
                     box=DBOX if nf_q is None else None)
    chk.case("inductive.exact.o31.running.nf4.pre1", case_inductive, order=(3, 1), method="exact", em_running=True, nf_q=4, npre=1)
    return chk.run()


if __name__ == "__main__":
    import sys

    sys.exit(main())
