"""C22  Backward matching and decoupling inversions are true inverses.

Real functions executed symbolically:
  eko.evolution_operator.quad_ker.build_ome          (np rebound to the shim; np.linalg.inv = adjugate)
  eko.couplings.invert_matching_coeffs / compute_matching_coeffs_up / compute_matching_coeffs_down
  eko.msbar_masses.compute_matching_coeffs_up / compute_matching_coeffs_down

Goals
  ome.expanded : with A_0..A_2 fully symbolic (non-commuting) n x n matrices and a_s = lam*alpha a jet,
                 build_ome(BACKWARD_EXPANDED) @ build_ome(FORWARD) - 1 = O(lam^(m+1)) and the same for the product
                 in the other order (left and right inverse), m = matching order 0..3, n = 2, 3.
  ome.exact    : build_ome(BACKWARD_EXACT) @ F == 1 and F @ build_ome(BACKWARD_EXACT) == 1 identically in a_s
                 (a plain symbol), where F = 1 + sum_k a_s^(k+1) A_k is built by the harness, and
                 build_ome(FORWARD) == F.
  decoupling   : with c[n,l] symbolic (exact zeros of the real upward table kept as zeros, every non-zero entry
                 generalised to a free symbol), d = the real downward table,
                 f(a) = a (1 + sum_{n<o} sum_l c[n,l] a^n L^l), g likewise with d:   g(f(a)) - a = O(a^(o+1)) and
                 f(g(a)) - a = O(a^(o+1)) for o = 2,3,4 (the loop bound `range(1, order[0])` of Couplings.a), L symbolic;
                 masses: (1 + sum d a^n L^l)(1 + sum c a^n L^l) - 1 = O(a^o) with the same coupling on both sides
                 (msbar_masses.evolve evaluates a_s in the upper patch for both directions).
                 The same obligations are also decided for the real tables with nf a symbolic real.
"""
from fractions import Fraction

import numpy as realnp

from .cplkit import *  # noqa
from symx.solver import explore, prove_zero
from symx import harness as H

MOD = "harness.C22"


def _sym_matrices(order, n):
    A = realnp.empty((3, n, n), dtype=object)
    for k in range(3):
        for i in range(n):
            for j in range(n):
                A[k, i, j] = SR.var("A%d_%d%d" % (k, i, j))
    return A


_as_jet = as_jet


# ---------------------------------------------------------------------------
def case_ome_expanded(log, n, ms):
    for m in ms:
        _ome_expanded(log, n, m)


def _ome_expanded(log, n, m):
    qk = sym_module("eko.evolution_operator.quad_ker")
    log.encode(qk.build_ome)
    jetmod.set_cap(m + 2)
    rp = (MOD, "replay_ome", {"n": n, "m": m, "exact": False})
    D = Decider(log)

    def run():
        A = _sym_matrices(m, n)
        alpha = SR.var("alpha")
        assume(alpha, ">0")
        a_s = Jet.lam() * alpha
        fwd = qk.build_ome(A, (m, 0), a_s, qk.MatchingMethods.FORWARD)
        bwd = qk.build_ome(A, (m, 0), a_s, qk.MatchingMethods.BACKWARD_EXPANDED)
        for tag, prod in (("expanded @ forward", bwd @ fwd), ("forward @ expanded", fwd @ bwd)):
            for i in range(n):
                for j in range(n):
                    d = _as_jet(prod[i, j]) - (1 if i == j else 0)
                    if d.prec < m + 1:
                        raise EngineError("product known only to O(lam^%d)" % d.prec)
                    for k in range(0, m + 1):
                        v = prove_zero(d._known(k), "%s [%d,%d]: a_s^%d coefficient of (product - 1) == 0 (order %d, %dx%d)" % (tag, i, j, k, m, n, n))
                        D(v, key="build_ome:expanded", replay=rp, sampler=_sampler)
        log.twin("domain")
        log.collect_ctx()

    _r, pm = explore(run)
    log.path_stats(pm)


def case_ome_exact(log, n, ms):
    for m in ms:
        _ome_exact(log, n, m)


def _ome_exact(log, n, m):
    qk = sym_module("eko.evolution_operator.quad_ker")
    log.encode(qk.build_ome)
    rp = (MOD, "replay_ome", {"n": n, "m": m, "exact": True})
    D = Decider(log)

    def run():
        A = _sym_matrices(m, n)
        a_s = SR.var("alpha")
        assume(a_s, ">0")
        F = realnp.empty((n, n), dtype=object)
        for i in range(n):
            for j in range(n):
                F[i, j] = SR(1 if i == j else 0)
                for k in range(m):
                    F[i, j] = F[i, j] + a_s ** (k + 1) * A[k, i, j]
        fwd = qk.build_ome(A, (m, 0), a_s, qk.MatchingMethods.FORWARD)
        inv = qk.build_ome(A, (m, 0), a_s, qk.MatchingMethods.BACKWARD_EXACT)
        for i in range(n):
            for j in range(n):
                v = prove_zero(SR(0) + fwd[i, j] - F[i, j], "forward[%d,%d] == 1 + sum a_s^k A_k (order %d, %dx%d)" % (i, j, m, n, n))
                D(v, key="build_ome:forward", replay=rp, sampler=_sampler)
        for tag, prod in (("exact @ forward", inv @ F), ("forward @ exact", F @ inv)):
            for i in range(n):
                for j in range(n):
                    d = SR(0) + prod[i, j] - (1 if i == j else 0)
                    v = prove_zero(d, "%s [%d,%d] == identity (order %d, %dx%d)" % (tag, i, j, m, n, n), timeout_ms=60000)
                    D(v, key="build_ome:exact", replay=rp, sampler=_sampler)
        log.twin("domain")
        log.collect_ctx()

    _r, pm = explore(run)
    log.path_stats(pm)


def _sampler(rng):
    p = {"alpha": rnd(rng, 0.01, 0.05), "L": rnd(rng, -1.4, 1.4), "nf": Fraction(rng.randint(3, 5))}
    for k in range(3):
        for i in range(3):
            for j in range(3):
                p["A%d_%d%d" % (k, i, j)] = rnd(rng, -3, 3) * 3**k
    for n in range(1, 4):
        for l in range(n + 1):
            p["c%d%d" % (n, l)] = rnd(rng, -5, 5) * 4 ** (n - 1)
    return p


# ---------------------------------------------------------------------------
# decoupling coefficients
# ---------------------------------------------------------------------------
def _generalise(tab, prefix="c"):
    """exact zeros stay zero; every other entry becomes a free symbol (so the result holds for any table of that shape)."""
    out = realnp.empty(tab.shape, dtype=object)
    names = []
    for n in range(tab.shape[0]):
        for l in range(tab.shape[1]):
            e = tab[n, l]
            z = e.is_zero() if isinstance(e, SR) else (e == 0)
            if z:
                out[n, l] = 0
            else:
                out[n, l] = SR.var("%s%d%d" % (prefix, n, l))
                names.append((n, l))
    return out, names


def _exact(tab):
    """Entries of the real table that do not depend on nf are Python floats; lift them into the engine (exact rationals they
    denote) so that the inversion is carried out in exact arithmetic rather than in floating point."""
    out = realnp.empty(tab.shape, dtype=object)
    for idx in realnp.ndindex(tab.shape):
        e = tab[idx]
        out[idx] = e if isinstance(e, SR) else SR(Q(Poly.const(e)))
    return out


def _apply(a, tab, L, order):
    """a * (1 + sum_{n=1}^{order-1} sum_{l=0}^{n} tab[n,l] a^n L^l)   (the update rule documented in Couplings.a)"""
    fact = 1
    for n in range(1, order):
        for l in range(n + 1):
            fact = fact + a**n * L**l * tab[n, l]
    return a * fact


def _factor(a, tab, L, order):
    fact = 1
    for n in range(1, order):
        for l in range(n + 1):
            fact = fact + a**n * L**l * tab[n, l]
    return fact


def case_coupling_inverse(log, scheme, generalised):
    cpl = sym_module("eko.couplings")
    log.encode(cpl.invert_matching_coeffs, cpl.compute_matching_coeffs_up, cpl.compute_matching_coeffs_down)
    jetmod.set_cap(6)
    rp = (MOD, "replay_coupling", {"scheme": scheme, "generalised": generalised})
    D = Decider(log)

    def run():
        nf = SR.var("nf")
        assume(nf - 3, ">=0")
        assume(5 - nf, ">=0")
        L = SR.var("L")
        alpha = SR.var("alpha")
        assume(alpha, ">0")
        real_up = cpl.compute_matching_coeffs_up
        up = _exact(real_up(scheme, nf))
        if generalised:
            up, _names = _generalise(up)
            cpl.compute_matching_coeffs_up = lambda s, n: up
        else:
            cpl.compute_matching_coeffs_up = lambda s, n: _exact(real_up(s, n))  # same table, floats lifted exactly, arguments passed through
        try:
            down = cpl.compute_matching_coeffs_down(scheme, nf)
        finally:
            cpl.compute_matching_coeffs_up = real_up
        a = Jet.lam() * alpha
        for order in (2, 3, 4):
            for tag, comp in (("down(up(a))", _apply(_apply(a, up, L, order), down, L, order)), ("up(down(a))", _apply(_apply(a, down, L, order), up, L, order))):
                d = _as_jet(comp) - a
                for k in range(0, order + 1):
                    v = prove_zero(d._known(k), "%s - a: a^%d coefficient == 0 (order %d, %s, %s table)" % (tag, k, order, scheme, "generalised" if generalised else "real"))
                    D(v, key="invert_matching_coeffs:coupling", replay=rp, sampler=_sampler)
        log.twin("domain")
        log.collect_ctx()

    _r, pm = explore(run)
    log.path_stats(pm)


def case_mass_inverse(log, generalised):
    mm = sym_module("eko.msbar_masses")
    cpl = sym_module("eko.couplings")
    log.encode(mm.compute_matching_coeffs_up, mm.compute_matching_coeffs_down, cpl.invert_matching_coeffs)
    jetmod.set_cap(6)
    rp = (MOD, "replay_mass", {"generalised": generalised})
    D = Decider(log)

    def run():
        nf = SR.var("nf")
        assume(nf - 3, ">=0")
        assume(5 - nf, ">=0")
        L = SR.var("L")
        alpha = SR.var("alpha")
        assume(alpha, ">0")
        real_up = mm.compute_matching_coeffs_up
        up = _exact(real_up(nf))
        if generalised:
            up, _names = _generalise(up)
            mm.compute_matching_coeffs_up = lambda n: up
        else:
            mm.compute_matching_coeffs_up = lambda n: _exact(real_up(n))  # same table, floats lifted exactly, argument passed through
        try:
            down = mm.compute_matching_coeffs_down(nf)
        finally:
            mm.compute_matching_coeffs_up = real_up
        a = Jet.lam() * alpha
        for order in (2, 3, 4):
            prod = _as_jet(_factor(a, up, L, order) * _factor(a, down, L, order)) - 1
            for k in range(0, order):
                v = prove_zero(prod._known(k), "mass: down x up - 1: a^%d coefficient == 0 (order %d, %s table)" % (k, order, "generalised" if generalised else "real"))
                D(v, key="invert_matching_coeffs:mass", replay=rp, sampler=_sampler)
        log.twin("domain")
        log.collect_ctx()

    _r, pm = explore(run)
    log.path_stats(pm)


# ---------------------------------------------------------------------------
# the requested inversion method reaches build_ome: operator_matrix_element.matching_method -> build_ome
# ---------------------------------------------------------------------------
def case_requested_method(log, n=2, m=2):
    """For every value of the operator card's inversion method (None = forward, exact, expanded) the matching operator built by
    build_ome(A, order, a_s, matching_method(request)) is what was requested: forward F; exact: the exact inverse of F; expanded: its series inverse
    and NOT more than that is claimed."""
    import importlib
    from eko.io.types import InversionMethod

    qk = sym_module("eko.evolution_operator.quad_ker")
    om = importlib.import_module("eko.evolution_operator.operator_matrix_element")
    log.encode(om.matching_method, qk.build_ome)
    jetmod.set_cap(m + 2)
    D = Decider(log)

    def mk(req):
        def run():
            A = _sym_matrices(m, n)
            alpha = SR.var("alpha")
            assume(alpha, ">0")
            rp = (MOD, "replay_requested_method", {"req": None if req is None else req.value, "n": n, "m": m})
            meth = om.matching_method(req)
            name = "forward" if req is None else req.value
            F = realnp.empty((n, n), dtype=object)
            for i in range(n):
                for j in range(n):
                    F[i, j] = SR(1 if i == j else 0)
                    for k in range(m):
                        F[i, j] = F[i, j] + alpha ** (k + 1) * A[k, i, j]
            if req is InversionMethod.EXPANDED:
                a_s = Jet.lam() * alpha
                B = qk.build_ome(A, (m, 0), a_s, meth)
                Fj = qk.build_ome(A, (m, 0), a_s, qk.MatchingMethods.FORWARD)
                prod = B @ Fj
                for i in range(n):
                    for j in range(n):
                        d = _as_jet(prod[i, j]) - (1 if i == j else 0)
                        for k in range(0, m + 1):
                            v = prove_zero(d._known(k), "requested 'expanded': a_s^%d coefficient of (operator @ forward - 1)[%d,%d] == 0" % (k, i, j))
                            D(v, key="matching_method:expanded", replay=rp, sampler=_sampler)
            else:
                B = qk.build_ome(A, (m, 0), alpha, meth)
                target = B if req is None else B @ F
                for i in range(n):
                    for j in range(n):
                        want = F[i, j] if req is None else (1 if i == j else 0)
                        v = prove_zero(SR(0) + target[i, j] - want, "requested '%s': %s [%d,%d]" % (name, "operator == forward matching" if req is None else "operator @ forward == identity exactly", i, j), timeout_ms=60000)
                        D(v, key="matching_method:%s" % name, replay=rp, sampler=_sampler)
            log.twin("domain")
            log.collect_ctx()

        return run

    for req in (None, InversionMethod.EXACT, InversionMethod.EXPANDED):
        _r, pm = explore(mk(req))
        log.path_stats(pm)


def replay_requested_method(point, req, n, m):
    import importlib
    import numpy as np
    from eko.io.types import InversionMethod

    qk = importlib.import_module("eko.evolution_operator.quad_ker")
    om = importlib.import_module("eko.evolution_operator.operator_matrix_element")
    A = _mats(point, n)
    a = float(point.get("alpha", 0.03))
    if not 0.005 < a < 0.06:
        return None
    r = None if req is None else InversionMethod(req)
    B = qk.build_ome(A, (m, 0), a, om.matching_method(r))
    F = np.eye(n, dtype=complex)
    for k in range(m):
        F = F + a ** (k + 1) * A[k]
    if r is None:
        e = np.abs(B - F).max()
        return {"detail": "forward request: operator differs from 1 + sum a^k A_k by %g" % e} if e > 1e-12 else None
    e = np.abs(B @ F - np.eye(n)).max()
    if r is InversionMethod.EXACT and e > 1e-10:
        return {"detail": "inversion method 'exact' requested: |operator @ forward - 1| = %g at a_s=%r (order %d, %dx%d): not the matrix inverse" % (e, a, m, n, n)}
    if r is InversionMethod.EXPANDED:
        e2 = np.abs(qk.build_ome(A, (m, 0), a / 2, om.matching_method(r)) @ (np.eye(n) + sum((a / 2) ** (k + 1) * A[k] for k in range(m))) - np.eye(n)).max()
        if e > 1e-13 and e2 > 0 and np.log2(e / e2) < m + 0.5:
            return {"detail": "inversion method 'expanded' requested: defect %g -> %g when halving a_s, slower than a_s^%d" % (e, e2, m + 1)}
    return None


# ---------------------------------------------------------------------------
# the downward tables do not depend on what was asked before (both schemes used in one process)
# ---------------------------------------------------------------------------
def case_coupling_sequence(log):
    """compute_matching_coeffs_down called for one scheme and then for the other (and in the opposite order) with the same concrete nf, upward tables
    generalised to free symbols per scheme: each downward table must invert the upward table of ITS OWN scheme, whatever was requested before."""
    cpl = sym_module("eko.couplings")
    log.encode(cpl.compute_matching_coeffs_down, cpl.invert_matching_coeffs)
    jetmod.set_cap(6)
    D = Decider(log)

    def mk(first, second, nf):
        def run():
            L = SR.var("L")
            alpha = SR.var("alpha")
            assume(alpha, ">0")
            real_up = cpl.compute_matching_coeffs_up
            tabs = {}
            for sch in ("POLE", "MSBAR"):
                t, _n = _generalise(_exact(real_up(sch, nf)), prefix="c%s" % sch[0])
                tabs[sch] = t
            cpl.compute_matching_coeffs_up = lambda s_, n: tabs[s_]
            try:
                downs = [(sch, cpl.compute_matching_coeffs_down(sch, nf)) for sch in (first, second, first)]
            finally:
                cpl.compute_matching_coeffs_up = real_up
            a = Jet.lam() * alpha
            rp = (MOD, "replay_coupling_sequence", {"first": first, "second": second, "nf": nf})
            for pos, (sch, down) in enumerate(downs):
                comp = _apply(_apply(a, tabs[sch], L, 4), down, L, 4)
                d = _as_jet(comp) - a
                for k in range(0, 5):
                    v = prove_zero(d._known(k), "call %d of the sequence %s,%s,%s (nf=%d): a^%d coefficient of down_%s(up_%s(a)) - a == 0" % (pos + 1, first, second, first, nf, k, sch, sch))
                    D(v, key="compute_matching_coeffs_down:sequence", replay=rp, sampler=_sampler)
            log.twin("domain")

        return run

    for nf in (3, 4, 5):
        for first, second in (("POLE", "MSBAR"), ("MSBAR", "POLE")):
            _r, pm = explore(mk(first, second, nf))
            log.path_stats(pm)


def replay_coupling_sequence(point, first, second, nf):
    """real functions in one clean interpreter: the two schemes one after the other; every downward table against the exact series inverse of its own upward table"""
    from eko import couplings as cpl

    L = Fraction(point.get("L", Fraction(1, 2)))
    for sch in (first, second, first):
        down = cpl.compute_matching_coeffs_down(sch, nf)
        up = cpl.compute_matching_coeffs_up(sch, nf)
        res = _compose_poly(up.tolist(), down.tolist(), L, 4)
        scale = max(1.0, max(abs(float(x)) for x in res))
        for k in range(0, 5):
            want = 1 if k == 1 else 0
            if abs(float(res[k]) - want) > 1e-9 * scale:
                return {"detail": "after the calls %s -> %s: down_%s(up_%s(a)) has a^%d coefficient %r (expected %d) for nf=%d, L=%s" % (first, second, sch, sch, k, float(res[k]), want, nf, L)}
    return None


# ---------------------------------------------------------------------------
# mass decoupling as applied by msbar_masses.evolve: up-then-down and down-then-up round trips
# ---------------------------------------------------------------------------
def case_mass_roundtrip(log, order):
    """The real evolve across one threshold and back (reference ON the wall, so only the matching factors act).  The stand-in coupling object
    returns a_s^(nf+1) = A (jet) and a_s^(nf) = A * zeta_g^2(A, L) -- the real downward coupling table -- so that a factor expanded in the coupling
    of the wrong patch is visible: m^2 after the round trip = m^2 (1 + O(A^order))."""
    from . import C18 as K

    mm, cpl = K._load()
    K._install_lifted_up(mm)
    log.encode(mm.evolve, mm.compute_matching_coeffs_up.__wrapped__, mm.compute_matching_coeffs_down, cpl.compute_matching_coeffs_down)
    jetmod.set_cap(order + 1)
    D = Decider(log)

    def mk(nfl):
        def run():
            L = SR.var("L")
            Ls = [SR.var("L0"), SR.var("L1"), SR.var("L2")]
            Ls[nfl - 3] = L
            alpha = SR.var("alpha")
            assume(alpha, ">0")
            A = Jet.lam() * alpha
            dtab = _exact(cpl.compute_matching_coeffs_down("MSBAR", SR(nfl)))
            a_low = _apply(A, dtab, L, order)
            avals = {n: A for n in (3, 4, 5, 6)}
            avals[nfl] = a_low
            xif2 = 1.0  # (how evolve places its walls for xif2 != 1 / ratio values != 1 is C18's evolve.scale)
            rp = (MOD, "replay_mass_roundtrip", {"order": order, "nfl": nfl})
            for tag, (n1, n2) in (("up then down", (nfl, nfl + 1)), ("down then up", (nfl + 1, nfl))):
                m1, _sc, _st = K._run_evolve(mm, order, n1, n2, avals, Ls, xif2, SR(1))
                m2, _sc, _st = K._run_evolve(mm, order, n2, n1, avals, Ls, xif2, m1)
                d = _as_jet(m2) - 1
                if d.prec < order:
                    raise EngineError("round trip known only to O(a^%d)" % d.prec)
                for k in range(0, order):
                    v = prove_zero(d._known(k), "evolve order %d threshold %d|%d, %s: a^%d coefficient of m^2_out/m^2_in - 1 == 0" % (order, nfl, nfl + 1, tag, k))
                    D(v, key="evolve:roundtrip", replay=rp, sampler=_sampler)
            log.twin("domain")
            log.collect_ctx()

        return run

    for nfl in (3, 4, 5):
        _r, pm = explore(mk(nfl))
        log.path_stats(pm)


def replay_mass_roundtrip(point, order, nfl):
    """real evolve with a real Couplings object (MSBAR) built as msbar_masses.compute builds it (masses, ratios*xif2), reference ON the matching
    scale k*m^2, up and back down.  The remainder m^2_out/m^2_in - 1 is fitted as c_{o-1} a^(o-1) + c_o a^o + c_{o+1} a^(o+1) over a scan of alpha_s
    (least squares, a = a_s^(nf+1) at the matching scale); the coefficient below the implemented order must vanish."""
    import math
    import numpy as np
    from eko import msbar_masses as mm
    from .C18 import _real_sc

    L = float(point.get("L", 0.6))
    if abs(L) < 0.3 or abs(L) > 1.39:
        L = 0.6 if L >= 0 else -0.6
    r = math.exp(L)
    ratios = [1.0, 1.0, 1.0]
    ratios[nfl - 3] = r
    masses2 = [2.0, 22.0, 30000.0]
    w = masses2[nfl - 3] * r
    As, Rs = [], []
    for al in (0.10, 0.08, 0.065, 0.05, 0.04, 0.03, 0.022, 0.016):
        sc = _real_sc(order, "exact", 5, masses2, list(ratios), alphas=al, mu=91.0)
        up = mm.evolve(4.0, w, sc, ratios, 1.0, w, nf_ref=nfl, nf_to=nfl + 1)
        back = mm.evolve(up, w, sc, ratios, 1.0, w, nf_ref=nfl + 1, nf_to=nfl)
        A = float(sc.a(w, nfl + 1)[0])
        if not (0 < A < 0.03):
            continue
        As.append(A)
        Rs.append(back / 4.0 - 1)
    if len(As) < 5:
        return None
    As, Rs = np.array(As), np.array(Rs)
    p = order - 1
    M = np.stack([As**p, As ** (p + 1), As ** (p + 2)], axis=1)
    # weight so that every point counts relative to its own size a^p
    coef, *_ = np.linalg.lstsq(M / (As**p)[:, None], Rs / As**p, rcond=None)
    # size of the coefficient a mismatch of the expansion parameter would produce: 2*|c20^mass|*(2/3)|L| at order 4; 10% of it is far above the fit noise
    if abs(coef[0]) > 0.25 * abs(L):
        return {"detail": "mass evolved up and back down across the threshold %d|%d at mu^2 = %r m^2 (order %d): remainder m^2_out/m^2_in - 1 fitted over a_s in [%.4f, %.4f] has "
                "a^%d coefficient %r (required 0; a^%d, a^%d coefficients %r, %r)" % (nfl, nfl + 1, r, order, As.min(), As.max(), p, float(coef[0]), p + 1, p + 2, float(coef[1]), float(coef[2]))}
    return None


# ---------------------------------------------------------------------------
# replays (real code, floats, independent oracles)
# ---------------------------------------------------------------------------
def _mats(point, n):
    import numpy as np

    A = np.zeros((3, n, n), dtype=complex)
    for k in range(3):
        for i in range(n):
            for j in range(n):
                x = float(point.get("A%d_%d%d" % (k, i, j), 1.0 + i - 2 * j + k))
                A[k, i, j] = complex(x, 0.37 * x * (1 + i) - 0.2 * j)  # random complex matrices (the identity is polynomial)
    return A


def replay_ome(point, n, m, exact):
    import numpy as np
    import importlib

    qk = importlib.import_module("eko.evolution_operator.quad_ker")
    A = _mats(point, n)
    a = float(point.get("alpha", 0.03))
    if not 0 < a < 0.06:
        return None
    fwd_ref = np.eye(n, dtype=complex)
    for k in range(m):
        fwd_ref = fwd_ref + a ** (k + 1) * A[k]
    fwd = qk.build_ome(A, (m, 0), a, qk.MatchingMethods.FORWARD)
    if np.abs(fwd - fwd_ref).max() > 1e-10 * max(1, np.abs(fwd_ref).max()):
        return {"detail": "build_ome(FORWARD) differs from 1 + sum a^k A_k by %g (order %d, n=%d)" % (np.abs(fwd - fwd_ref).max(), m, n)}
    if exact:
        inv = qk.build_ome(A, (m, 0), a, qk.MatchingMethods.BACKWARD_EXACT)
        e = max(np.abs(inv @ fwd_ref - np.eye(n)).max(), np.abs(fwd_ref @ inv - np.eye(n)).max())
        if e > 1e-9:
            return {"detail": "build_ome(BACKWARD_EXACT) is not the matrix inverse of the forward operator: |inv.F - 1| = %g (order %d, n=%d, a_s=%r)" % (e, m, n, a)}
        return None
    # expanded: defect must scale like a^(m+1)
    errs, lams = [], [1.0, 0.5, 0.25, 0.125]
    for l in lams:
        x = a * l
        F = np.eye(n, dtype=complex)
        for k in range(m):
            F = F + x ** (k + 1) * A[k]
        B = qk.build_ome(A, (m, 0), x, qk.MatchingMethods.BACKWARD_EXPANDED)
        errs.append(float(max(np.abs(B @ F - np.eye(n)).max(), np.abs(F @ B - np.eye(n)).max())))
    if max(errs) < 1e-14:
        return None
    import math

    pairs = [(l, e) for l, e in zip(lams, errs) if e > 1e-15]
    if len(pairs) < 2:
        return None
    ex = math.log(pairs[-2][1] / pairs[-1][1]) / math.log(pairs[-2][0] / pairs[-1][0])
    if ex < m + 0.5:
        return {"detail": "expanded backward matching times forward - 1 = %r at a_s*(1,1/2,1/4,1/8) scales like a_s^%.2f < a_s^%d (order %d, n=%d)" % (errs, ex, m + 1, m, n)}
    return None


def _compose_poly(tab_inner, tab_outer, L, order, deg=8):
    """coefficients (in a) of outer(inner(a)) by exact polynomial arithmetic on Fractions -- independent of eko."""
    def poly_of(tab):
        p = [Fraction(0), Fraction(1)]
        for n in range(1, order):
            p.append(sum(Fraction(tab[n][l]) * L**l for l in range(n + 1)))
        return p

    def mul(p, q):
        r = [Fraction(0)] * min(deg + 1, len(p) + len(q) - 1)
        for i, x in enumerate(p):
            for j, y in enumerate(q):
                if i + j <= deg:
                    r[i + j] += x * y
        return r

    inner, outer = poly_of(tab_inner), poly_of(tab_outer)
    res = [Fraction(0)] * (deg + 1)
    pw = [Fraction(1)]
    for k, c in enumerate(outer):
        if k > 0:
            pw = mul(pw, inner)
        for i, x in enumerate(pw):
            if i <= deg:
                res[i] += c * x
    return res


def replay_coupling(point, scheme, generalised):
    import numpy as np
    from eko import couplings as cpl

    nf = int(round(float(point.get("nf", 4))))
    if not 3 <= nf <= 5:
        return None
    L = Fraction(point.get("L", Fraction(1, 2)))
    up = cpl.compute_matching_coeffs_up(scheme, nf)
    if generalised:
        gen = np.zeros_like(up)
        for n in range(4):
            for l in range(4):
                if up[n, l] != 0:
                    gen[n, l] = float(point.get("c%d%d" % (n, l), up[n, l]))
        up = gen
    down = cpl.invert_matching_coeffs(up)
    for order in (2, 3, 4):
        for tag, res in (("down(up(a))", _compose_poly(up.tolist(), down.tolist(), L, order)), ("up(down(a))", _compose_poly(down.tolist(), up.tolist(), L, order))):
            scale = max(1.0, max(abs(float(x)) for x in res))
            for k in range(0, order + 1):
                want = 1 if k == 1 else 0
                if abs(float(res[k]) - want) > 1e-9 * scale:
                    return {"detail": "%s has a^%d coefficient %r (expected %d) at order %d, scheme %s, nf=%d, L=%s, up table %r" % (tag, k, float(res[k]), want, order, scheme, nf, L, up.tolist())}
    return None


def replay_mass(point, generalised):
    import numpy as np
    from eko import msbar_masses as mm
    from eko import couplings as cpl

    nf = int(round(float(point.get("nf", 4))))
    if not 3 <= nf <= 5:
        return None
    L = Fraction(point.get("L", Fraction(1, 2)))
    up = mm.compute_matching_coeffs_up(nf)
    if generalised:
        gen = np.zeros_like(up)
        for n in range(4):
            for l in range(4):
                if up[n, l] != 0:
                    gen[n, l] = float(point.get("c%d%d" % (n, l), up[n, l]))
        real_up = mm.compute_matching_coeffs_up
        mm.compute_matching_coeffs_up = lambda n: gen
        try:
            down = mm.compute_matching_coeffs_down(nf)
        finally:
            mm.compute_matching_coeffs_up = real_up
        up = gen
    else:
        down = mm.compute_matching_coeffs_down(nf)
    for order in (2, 3, 4):
        fu = [Fraction(1)] + [sum(Fraction(up[n][l]) * L**l for l in range(n + 1)) for n in range(1, order)]
        fd = [Fraction(1)] + [sum(Fraction(down[n][l]) * L**l for l in range(n + 1)) for n in range(1, order)]
        for k in range(0, order):
            c = sum(fu[i] * fd[k - i] for i in range(k + 1))
            want = 1 if k == 0 else 0
            if abs(float(c) - want) > 1e-9 * max(1.0, max(abs(float(x)) for x in fu + fd)):
                return {"detail": "mass decoupling: (down factor)(up factor) has a^%d coefficient %r (expected %d) at order %d, nf=%d, L=%s" % (k, float(c), want, order, nf, L)}
    return None


# ---------------------------------------------------------------------------
def main():
    chk = H.Check("C22")
    thorough = H.tier() == "thorough"
    chk.bounds = ["matching orders 0-3; matrices 2x2 and 3x3 (the sizes eko uses: non-singlet+heavy, singlet+heavy) with all 3*n*n entries free symbols",
                  "expanded inverse: series in a_s carried one order beyond the asserted one (tracked precision); both products (left and right inverse)",
                  "exact inverse: identity in a_s as a plain symbol through the shim's adjugate inverse (n <= 3)",
                  "decoupling: orders 2-4 (loop bound of Couplings.a / msbar_masses.evolve), L symbolic, nf real in [3,5]; tables generalised to free "
                  "symbols on the support of the real tables (c[1,0] = 0 for the coupling, c[1,*] = 0 for the mass) and the real tables themselves"]
    chk.bounds.append("mass round trip through the real msbar_masses.evolve (orders 3, 4; thresholds 3|4, 4|5, 5|6; symbolic L): the stand-in coupling object returns "
                      "a_s^(nf+1) = A and a_s^(nf) = A*zeta_g^2(A,L) (real MSBAR downward table), m^2_out/m^2_in - 1 = O(A^order) in both orders of traversal")
    chk.bounds.append("sequence: both mass schemes requested one after the other in one process (both orders, first scheme again afterwards), nf in {3,4,5} concrete, tables symbolic per scheme")
    chk.bounds.append("requested inversion method (None / exact / expanded) through operator_matrix_element.matching_method into build_ome: 2x2, order 2")
    chk.out_of_claim = ["floating-point conditioning of numpy.linalg.inv (LAPACK) -- replaced by the exact adjugate",
                        "matrix sizes other than 2 and 3; complex entries are covered because the identities are polynomial (real symbols suffice)",
                        "which table / logarithm Couplings.a and msbar_masses.evolve pick per threshold (C16, C18); here only that their round trips close"]
    preimport("eko.evolution_operator.quad_ker", "eko.evolution_operator.operator_matrix_element", "eko.msbar_masses")

    chk.stubs = ["numpy.linalg.inv -> exact adjugate/determinant inverse (symx shim)",
                 "mass round trip: the Couplings object handed to evolve -> recorder returning symbolic a_s per requested nf (a, a_s, a_em); thresholds_ratios -> tokens (value 1, symbolic log)"]
    chk.assumptions = ["matrix entries real symbols: polynomial identities over R extend to C",
                       "decoupling update rule a' = a (1 + sum_n sum_l c[n,l] a^n L^l), m' = m (1 + sum c[n,l] a^n L^l) as in Couplings.a / msbar_masses.evolve"]
    chk.case("ome.expanded.n2", case_ome_expanded, n=2, ms=(0, 1, 2, 3))
    chk.case("ome.expanded.n3", case_ome_expanded, n=3, ms=(0, 1, 2))
    if thorough:
        chk.case("ome.expanded.n3.o3", case_ome_expanded, n=3, ms=(3,))
    chk.case("ome.exact.n2", case_ome_exact, n=2, ms=(0, 1, 2, 3))
    chk.case("ome.exact.n3", case_ome_exact, n=3, ms=(0, 1, 2, 3) if thorough else (0, 1))
    for scheme in ("POLE", "MSBAR"):
        for g in (True, False):
            chk.case("coupling.%s.%s" % (scheme, "generalised" if g else "real"), case_coupling_inverse, scheme=scheme, generalised=g)
    chk.case("ome.requested-method", case_requested_method)
    chk.case("coupling.sequence", case_coupling_sequence)
    for g in (True, False):
        chk.case("mass.%s" % ("generalised" if g else "real"), case_mass_inverse, generalised=g)
    for order in (3, 4):
        chk.case("mass.evolve.roundtrip.o%d" % order, case_mass_roundtrip, order=order)
    return chk.run()


if __name__ == "__main__":
    import sys

    sys.exit(main())
