"""C40  Runcards and dict-like structures round-trip through their raw form.

Real code executed symbolically: eko.io.dictlike (DictLike._from_dict/_raw, load_field, load_typing, load_enum,
raw_field), the dataclass constructors / __post_init__ of TheoryCard, OperatorCard, Configs, Debug, HeavyInfo,
CouplingsInfo, Metadata, interpolation.XGrid (__init__, raw, tolist, dump, load), runner.commons.interpolator and
InterpolatorDispatcher.__init__ (BasisFunction stubbed by a recorder), plus a family of synthetic DictLike classes
(one per field kind).  Leaves are typed symbolic values (harness/cardsym.py).

Goals, per class and per field:
  raw        x.raw is computed; every raw[field] is plain python data (dict/list/tuple/str/int/float/bool/None)
  load       cls.from_dict(x.raw) is computed
  equal      from_dict(x.raw).field == x.field   (leaf equalities decided by z3; XGrid: log flag and raw grid)
  xgrid      XGrid.load(g.dump()) == g with the same log flag
  default    TheoryCard.matching_order defaults to (order[0]-1, 0)
  interp     commons.interpolator(card): .log == configs.interpolation_is_log, .polynomial_degree == declared degree,
             .xgrid.raw == card.xgrid.raw (same nodes),
             every basis function is built with mode_log == interpolation_is_log, every block spans `degree` points
"""
import dataclasses
import enum
import json
import os
import pathlib
import typing
from dataclasses import dataclass
from typing import Dict, List, NewType, Optional, Tuple

import numpy as np
import numpy.typing as npt
import z3

from .common import *  # noqa
from symx import harness as H
from symx.solver import explore, prove_formula, PathBudgetExceeded
from . import cardsym as CS

from eko import interpolation
from eko.io import dictlike
from eko.io.dictlike import DictLike
from eko.io.runcards import Configs, Debug, OperatorCard, TheoryCard
from eko.io.metadata import Metadata
from eko.io.types import EvolutionMethod, InversionMethod, ReferenceRunning, ScaleVariationsMethod
from eko.quantities.couplings import CouplingsInfo
from eko.quantities.heavy_quarks import HeavyInfo, HeavyQuarks, QuarkMassScheme

MOD = "harness.C40"


# ---------------------------------------------------------------------------
# synthetic DictLike family: one class per field kind (annotations exactly as a user would write them)
# ---------------------------------------------------------------------------
class Color(enum.Enum):
    RED = "red"
    GREEN = "green"
    BLUE = "blue"


class Level(enum.Enum):
    LOW = 1
    HIGH = 2


newfloat = NewType("newfloat", float)


@dataclass
class Inner(DictLike):
    a: float
    n: int
    flag: bool = False


@dataclass
class PlainDC:
    i: int
    f: float


@dataclass
class KScalars(DictLike):
    f: float
    i: int
    b: bool
    s: str


@dataclass
class KArrayNd(DictLike):
    arr: np.ndarray


@dataclass
class KArrayNDArray(DictLike):
    arr: npt.NDArray


@dataclass
class KArrayNDArrayF(DictLike):
    arr: npt.NDArray[np.float64]


@dataclass
class KOptArray(DictLike):
    arr: Optional[npt.NDArray] = None


@dataclass
class KTuple(DictLike):
    t: Tuple[float, int]
    u: tuple


@dataclass
class KEnum(DictLike):
    e: Color
    lv: Level
    oe: Optional[Color]


@dataclass
class KNested(DictLike):
    inner: Inner
    inners: List[Inner]
    pdc: PlainDC


@dataclass
class KOptional(DictLike):
    of: Optional[float]
    oi: Optional[int]
    ob: Optional[bool]
    os: Optional[str]
    ot: Optional[Tuple[int, int]]


@dataclass
class KList(DictLike):
    lf: List[float]
    lt: List[Tuple[float, int]]


@dataclass
class KDict(DictLike):
    d: dict
    td: Dict


@dataclass
class KXGrid(DictLike):
    x: interpolation.XGrid


@dataclass
class KNewType(DictLike):
    nt: newfloat


@dataclass
class KDefault(DictLike):
    a: float
    b: int = 3
    c: Optional[float] = None


ALL_CLASSES = [TheoryCard, OperatorCard, Configs, Debug, HeavyInfo, CouplingsInfo, Metadata, Inner, KScalars, KArrayNd,
               KArrayNDArray, KArrayNDArrayF, KOptArray, KTuple, KEnum, KNested, KOptional, KList, KDict, KXGrid, KNewType,
               KDefault]

EVM = list(EvolutionMethod)
SVM = [None] + list(ScaleVariationsMethod)
IVM = [None] + list(InversionMethod)
HQS = list(QuarkMassScheme)
COLORS = list(Color)


# ---------------------------------------------------------------------------
# builders: the same code makes symbolic and concrete objects
# ---------------------------------------------------------------------------
def b_xgrid(mk, var, pre="x"):
    n = var.get("n", 3)
    base = [0.001, 0.1, 0.5, 1.0, 0.01, 0.3]
    xs = [mk.float("%s%d" % (pre, i), default=base[i], positive=True) for i in range(n)]
    if var.get("sorted", True):
        mk.increasing(xs)
    else:
        xs = xs[1:] + xs[:1]
    log = mk.bool(pre + "log", default=True, tag="bool") if var.get("log", "sym") == "sym" else bool(var["log"])
    grid = mk.array(xs, "float64") if var.get("grid_as") == "array" else xs
    return interpolation.XGrid(grid, log=log)


def b_couplings(mk, var):
    return CouplingsInfo(alphas=mk.float("alphas", 0.118, positive=True), alphaem=mk.float("alphaem", 0.0075),
                         ref=(mk.float("Qref", 91.2, positive=True), mk.int("nfref", 5, 3, 6)),
                         em_running=mk.bool("em_running", False))


def b_heavy(mk, var):
    dm = {"c": 1.51, "b": 4.92, "t": 172.5}
    masses = HeavyQuarks([ReferenceRunning([mk.float("m" + q, dm[q], positive=True), mk.float("Qm" + q, dm[q] * 1.1, positive=True)])
                          for q in "cbt"])
    ratios = HeavyQuarks([mk.float("k%sThr" % q, 1.0 + 0.25 * i, positive=True) for i, q in enumerate("cbt")])
    return HeavyInfo(masses=masses, masses_scheme=HQS[var.get("k", 0) % 2], matching_ratios=ratios)


def b_theory(mk, var):
    fh = {"sym": lambda: mk.bool("use_fhmruvv", True), "none": lambda: None}[var.get("fhmruvv", "sym")]()
    mo = None if var.get("matching", "given") == "default" else (mk.int("mo_qcd", 1, 0, 3), mk.int("mo_qed", 0, 0, 1))
    return TheoryCard(order=(mk.int("o_qcd", 2, 1, 4), mk.int("o_qed", 0, 0, 2)), couplings=b_couplings(mk, var), heavy=b_heavy(mk, var),
                      xif=mk.float("xif", 1.0, positive=True),
                      n3lo_ad_variation=tuple(mk.int("n3lo%d" % i, i % 3, 0, 3) for i in range(7)),
                      use_fhmruvv=fh, matching_order=mo)


def b_configs(mk, var):
    k = var.get("k", 0)
    n = var.get("n", 3)
    return Configs(evolution_method=EVM[k % len(EVM)], ev_op_max_order=(mk.int("maxo_qcd", 10, 1, 20), mk.int("maxo_qed", 0, 0, 2)),
                   ev_op_iterations=mk.int("iters", 10, 1, 60), scvar_method=SVM[var.get("ks", k) % 3], inversion_method=IVM[var.get("ki", k // 3) % 3],
                   interpolation_polynomial_degree=mk.int("deg", 2, 1, n - 1), interpolation_is_log=mk.bool("is_log", True),
                   polarized=mk.bool("polarized", False), time_like=mk.bool("time_like", False),
                   n_integration_cores=mk.int("cores", 1, 1, 64))


def b_debug(mk, var):
    return Debug(skip_singlet=mk.bool("skip_s", False), skip_non_singlet=mk.bool("skip_ns", True))


def b_operator(mk, var):
    nmu = var.get("nmu", 2)
    return OperatorCard(init=(mk.float("mu0", 1.65, positive=True), mk.int("nf0", 4, 3, 6)),
                        mugrid=[(mk.float("mu_%d" % i, 10.0 * (i + 1), positive=True), mk.int("nf_%d" % i, 5, 3, 6)) for i in range(nmu)],
                        xgrid=b_xgrid(mk, var), configs=b_configs(mk, var), debug=b_debug(mk, var), eko_version="0.15.1")


def b_metadata(mk, var):
    return Metadata(origin=(mk.float("mu0", 1.65, positive=True), mk.int("nf0", 4, 3, 6)), xgrid=b_xgrid(mk, var), _path=None,
                    version="0.15.1", data_version=mk.int("data_version", 3, 1, 3))


def b_inner(mk, var, pre=""):
    return Inner(a=mk.float(pre + "a", 0.5), n=mk.int(pre + "n", 7), flag=mk.bool(pre + "flag", True))


def b_kscalars(mk, var):
    s = np.str_("text") if var.get("str") == "np" else "text"
    return KScalars(f=mk.float("f", 2.5), i=mk.int("i", 3), b=mk.bool("b", True), s=s)


def _arr(mk, var):
    dt = var.get("dt", "float64")
    if dt == "float64":
        return mk.array([mk.float("a%d" % i, 0.5 * i) for i in range(3)], "float64")
    if dt == "int64":
        return mk.array([mk.int("a%d" % i, i) for i in range(3)], "int64")
    return mk.array([mk.bool("a%d" % i, bool(i % 2)) for i in range(3)], "bool")


def b_karr_nd(mk, var):
    return KArrayNd(arr=_arr(mk, var))


def b_karr_alias(mk, var):
    return KArrayNDArray(arr=_arr(mk, var))


def b_karr_aliasf(mk, var):
    return KArrayNDArrayF(arr=_arr(mk, var))


def b_koptarr(mk, var):
    return KOptArray(arr=None if var.get("none") else _arr(mk, var))


def b_ktuple(mk, var):
    return KTuple(t=(mk.float("t0", 1.5), mk.int("t1", 4)), u=(mk.float("u0", 2.5), mk.bool("u1", True), "s"))


def b_kenum(mk, var):
    k = var.get("k", 0)
    return KEnum(e=COLORS[k % 3], lv=list(Level)[k % 2], oe=None if var.get("none") else COLORS[(k + 1) % 3])


def b_knested(mk, var):
    return KNested(inner=b_inner(mk, var, "in_"), inners=[b_inner(mk, var, "l0_"), b_inner(mk, var, "l1_")],
                   pdc=PlainDC(i=mk.int("pi", 10), f=mk.float("pf", 1.61)))


def b_koptional(mk, var):
    if var.get("none"):
        return KOptional(of=None, oi=None, ob=None, os=None, ot=None)
    return KOptional(of=mk.float("of", 0.25), oi=mk.int("oi", 2), ob=mk.bool("ob", False), os="text", ot=(mk.int("ot0", 1), mk.int("ot1", 0)))


def b_klist(mk, var):
    return KList(lf=[mk.float("lf%d" % i, 1.0 + i) for i in range(3)], lt=[(mk.float("lt%d" % i, 3.0 + i), mk.int("ln%d" % i, i)) for i in range(2)])


def b_kdict(mk, var):
    return KDict(d={"my": "very", "x": mk.float("dx", 0.75), "n": [mk.int("dn", 2)]}, td={"b": mk.bool("db", True)})


def b_kxgrid(mk, var):
    return KXGrid(x=b_xgrid(mk, var))


def b_knewtype(mk, var):
    return KNewType(nt=mk.float("nt", 42.0))


def b_kdefault(mk, var):
    if var.get("explicit"):
        return KDefault(a=mk.float("a", 1.0), b=mk.int("b", 5), c=mk.float("c", 2.0))
    return KDefault(a=mk.float("a", 1.0))


SUBJECTS = {
    "TheoryCard": (TheoryCard, b_theory), "OperatorCard": (OperatorCard, b_operator), "Configs": (Configs, b_configs),
    "Debug": (Debug, b_debug), "HeavyInfo": (HeavyInfo, b_heavy), "CouplingsInfo": (CouplingsInfo, b_couplings),
    "Metadata": (Metadata, b_metadata), "Inner": (Inner, b_inner), "KScalars": (KScalars, b_kscalars), "KArrayNd": (KArrayNd, b_karr_nd),
    "KArrayNDArray": (KArrayNDArray, b_karr_alias), "KArrayNDArrayF": (KArrayNDArrayF, b_karr_aliasf), "KOptArray": (KOptArray, b_koptarr),
    "KTuple": (KTuple, b_ktuple), "KEnum": (KEnum, b_kenum), "KNested": (KNested, b_knested), "KOptional": (KOptional, b_koptional),
    "KList": (KList, b_klist), "KDict": (KDict, b_kdict), "KXGrid": (KXGrid, b_kxgrid), "KNewType": (KNewType, b_knewtype),
    "KDefault": (KDefault, b_kdefault),
}


# ---------------------------------------------------------------------------
# helpers of the symbolic side
# ---------------------------------------------------------------------------
def _setup():
    mods = CS.sym_io_modules()
    CS.install_types(*ALL_CLASSES)
    return mods


def _engine_exc(e):
    return isinstance(e, (SymbolicEscape, EngineError, PathBudgetExceeded))


_SERVER = {}


def _decide(log, v, key, replay=None, candidates=({},), **_kw):
    return CS.decide(log, _SERVER["s"], MOD, "C40", v, key, replay, candidates)


def _start(log):
    """fork the replay helper while this process is still unpatched"""
    import sys

    _SERVER["s"] = CS.ReplayServer(sys.modules[__name__])


def _plain_key(tag, parent):
    if parent in ("tuple", "dict"):
        return "raw_field:%s-elements-not-normalised" % parent
    if tag.startswith("np.") and tag not in ("np.ndarray",):
        return "raw_field:numpy-scalar-not-normalised"
    return "raw_field:%s-in-%s" % (tag, parent)


def _fail(log, what, key, rk):
    """A structural violation on the current path: it is a counterexample iff the path is feasible."""
    v = prove_formula(z3.BoolVal(False), what)
    _decide(log, v, key=key, replay=(MOD, "replay_roundtrip", rk), candidates=[{}])
    return v


def _typename(t):
    s = getattr(t, "__name__", None) or repr(t)
    return s.replace("typing.", "").replace("numpy.", "np.")


def roundtrip_goals(log, subject, var, x, orig_types, label=""):
    cls = type(x)
    kname = cls.__name__
    cname = (label + " " if label else "") + kname
    rk = {"subject": subject, "var": var}
    # ---- raw ----
    try:
        raw = x.raw
    except Exception as e:
        if _engine_exc(e):
            raise
        _fail(log, "%s.raw is computed (raised %s: %s)" % (cname, type(e).__name__, e), "raw:%s:%s" % (type(e).__name__, kname),
              dict(rk, aspect="raw-raises", field=None))
        return None
    v = prove_formula(z3.BoolVal(True), "%s.raw is computed" % cname)
    log.ok(v, {"nontrivial": False})
    ud = CS.user_dicts(x)
    for fname, val in raw.items():
        bad = CS.nonplain(val, "raw[%r]" % fname, "field", ud)
        if bad:
            for where, tag, parent in sorted({(b[1], b[2]): b for b in bad}.values()):
                _fail(log, "%s: %s is plain python data (found %s inside a %s)" % (cname, where, tag, parent),
                      _plain_key(tag, parent), dict(rk, aspect="plain", field=fname))
        else:
            v = prove_formula(z3.BoolVal(True), "%s: raw[%r] is plain python data" % (cname, fname))
            log.ok(v, {"nontrivial": False})
    # ---- load ----
    try:
        y = cls.from_dict(raw)
    except Exception as e:
        if _engine_exc(e):
            raise
        fld = "?"
        for f in dataclasses.fields(cls):
            if f.name in raw and f.type not in (dict, typing.Dict):
                try:
                    dictlike.load_field(f.type, raw[f.name])
                except Exception as e2:
                    if type(e2) is type(e):
                        fld = f.name
                        break
        tn = _typename(orig_types.get(fld, "?"))
        _fail(log, "%s.from_dict(x.raw) is computed (field %s: %s raised %s: %s)" % (cname, fld, tn, type(e).__name__, str(e)[:80]),
              "load_field:npt.NDArray-alias" if "NDArray" in repr(orig_types.get(fld)) and isinstance(e, (AttributeError, TypeError))
              else "from_dict:%s:%s" % (type(e).__name__, tn), dict(rk, aspect="load-raises", field=fld))
        return None
    v = prove_formula(z3.BoolVal(True), "%s.from_dict(x.raw) is computed" % cname)
    log.ok(v, {"nontrivial": False})
    # ---- equal, field by field ----
    for f in dataclasses.fields(cls):
        xv, yv = getattr(x, f.name), getattr(y, f.name)
        if isinstance(xv, interpolation.XGrid) and isinstance(yv, interpolation.XGrid):
            # the grid and its logarithmic flag are two separate obligations
            parts = [(".log", xv.log, yv.log, "roundtrip:XGrid-field.log", "equal-log"),
                     (".raw", xv.raw, yv.raw, "roundtrip:%s.%s.raw" % (kname, f.name), "equal-raw")]
        else:
            parts = [("", xv, yv, "roundtrip:%s.%s" % (kname, f.name), "equal")]
        for suffix, xa, ya, key, aspect in parts:
            c = CS.Cmp()
            c.same(ya, xa, "%s.%s%s" % (cname, f.name, suffix))
            what = "%s.from_dict(x.raw).%s%s == x.%s%s" % (cname, f.name, suffix, f.name, suffix)
            rkk = dict(rk, aspect=aspect, field=f.name)
            if c.mismatch:
                if xa is None and ya is not None:
                    key = "load_typing:Optional-None-coerced"
                else:
                    key = "roundtrip:%s:%s" % (_typename(orig_types.get(f.name)), _mis_kind(c.mismatch[0]))
                _fail(log, what + "  [" + "; ".join(c.mismatch[:3]) + "]", key, rkk)
                continue
            v = prove_formula(c.formula(), what)
            _decide(log, v, key=key, replay=(MOD, "replay_roundtrip", rkk), candidates=[{}])
    return y


def _mis_kind(m):
    m = m.split(": ", 1)[1] if ": " in m else m
    for pat in ("container", "lengths", "shapes", "bool against", "not comparable"):
        if pat in m:
            return pat.split()[0]
    return "value(%s)" % m[:40]


def _orig_types(cls):
    # the declared types as written in the source (before install_types)
    return dict(CS._INSTALLED.get(cls, {})) or {f.name: f.type for f in dataclasses.fields(cls)}


# ---------------------------------------------------------------------------
# cases
# ---------------------------------------------------------------------------
def _label(subject, var):
    return "%s{%s}" % (subject, ",".join("%s=%s" % kv for kv in sorted(var.items())))


def case_group(log, items):
    """items: list of (subject, var).  One worker handles several of them (process start-up dominates)."""
    _start(log)
    reals = [concrete_record({}, s, v) if not CS._INSTALLED else None for s, v in items]  # real code, before any patching
    dl, ip, rc, mt, cnp = _setup()
    log.encode(dl.DictLike._from_dict, dl.DictLike._raw, dl.load_field, dl.load_typing, dl.load_enum, dl.raw_field)
    subjects = {s for s, _v in items}
    if subjects & {"OperatorCard", "Metadata", "KXGrid"}:
        log.encode(ip.XGrid.__init__, ip.XGrid.tolist, ip.XGrid.dump, ip.XGrid.raw.fget)
    if "TheoryCard" in subjects:
        log.encode(TheoryCard.__post_init__)
    if "Metadata" in subjects:
        log.encode(Metadata.raw.fget, DictLike.public_raw.fget)
    if subjects & {"TheoryCard", "OperatorCard", "Configs", "Debug"}:
        log.encode(rc)
    if subjects & {"HeavyInfo", "CouplingsInfo", "TheoryCard"}:
        import eko.quantities.couplings as qc
        import eko.quantities.heavy_quarks as qh

        log.encode(qc, qh)
    for (subject, var), real in zip(items, reals):
        _roundtrip_one(log, subject, var, real)


def _roundtrip_one(log, subject, var, real):
    cls, build = SUBJECTS[subject]
    orig = _orig_types(cls)
    label = _label(subject, var)

    def run():
        mk = CS.SymMk(var.get("flavour", "py"))
        try:
            x = build(mk, var)
        except Exception as e:
            if _engine_exc(e):
                raise
            return None  # not an object of the class (e.g. duplicated grid points): outside the quantifier
        roundtrip_goals(log, subject, var, x, orig, label)
        if subject == "TheoryCard" and var.get("matching") == "default":
            c = CS.Cmp()
            c.same(x.matching_order, (x.order[0] - 1, 0), "matching_order")
            v = prove_formula(c.formula() if not c.mismatch else z3.BoolVal(False), label + " TheoryCard.matching_order defaults to (order[0]-1, 0)")
            _decide(log, v, key="TheoryCard.__post_init__:matching_order", replay=(MOD, "replay_default", {"var": var}), candidates=[{}])
        log.twin(label)
        log.collect_ctx()
        return True

    _r, pm = explore(run, max_paths=512)
    log.path_stats(pm)
    _validate(log, subject, var, real)


def case_xgrid(log, var):
    """XGrid.load(g.dump()) keeps grid and log flag."""
    _start(log)
    dl, ip, rc, mt, cnp = _setup()
    log.encode(ip.XGrid.__init__, ip.XGrid.dump, ip.XGrid.load, ip.XGrid.tolist, ip.XGrid.raw.fget)

    def run():
        mk = CS.SymMk(var.get("flavour", "py"))
        try:
            g = b_xgrid(mk, var)
        except Exception as e:
            if _engine_exc(e):
                raise
            return None
        rk = {"var": var}
        try:
            d = g.dump()
            g2 = ip.XGrid.load(d)
        except Exception as e:
            if _engine_exc(e):
                raise
            v = prove_formula(z3.BoolVal(False), "XGrid.load(g.dump()) is computed (raised %s)" % type(e).__name__)
            _decide(log, v, key="XGrid:dump/load raises", replay=(MOD, "replay_xgrid", rk), candidates=[{}])
            return None
        bad = CS.nonplain(d, "dump")
        v = prove_formula(z3.BoolVal(not bad), "XGrid.dump() is plain python data %s" % (bad[:1] or ""))
        _decide(log, v, key="XGrid.dump:plain", replay=(MOD, "replay_xgrid", dict(rk, aspect="plain")), candidates=[{}])
        c = CS.Cmp()
        c.same(g2, g, "XGrid")
        v = prove_formula(c.formula() if not c.mismatch else z3.BoolVal(False), "XGrid.load(g.dump()) has the same grid and log flag %s" % (c.mismatch[:1] or ""))
        _decide(log, v, key="XGrid:dump/load", replay=(MOD, "replay_xgrid", dict(rk, aspect="equal")), candidates=[{}])
        # the dump records the flag the grid was built with
        c = CS.Cmp()
        c.leaf(d["log"], g.log, "dump.log")
        v = prove_formula(c.formula() if not c.mismatch else z3.BoolVal(False), "XGrid.dump()['log'] == g.log")
        _decide(log, v, key="XGrid.dump:log", replay=(MOD, "replay_xgrid", dict(rk, aspect="flag")), candidates=[{}])
        log.twin("domain")
        log.collect_ctx()

    _r, pm = explore(run, max_paths=512)
    log.path_stats(pm)


class _BasisRecorder:
    """Stub of interpolation.BasisFunction: records how the dispatcher asks for the basis to be built."""

    made = []

    def __init__(self, xgrid, poly_number, list_of_blocks, mode_log=True, mode_N=True):
        self.poly_number = poly_number
        self.blocks = list(list_of_blocks)
        self._mode_log = mode_log
        self.mode_N = mode_N
        _BasisRecorder.made.append(self)


def _raw_operator(mk, var):
    """an operator runcard as a user writes it (the form eko reads from YAML)"""
    n = var.get("n", 4)
    base = [1e-3, 0.1, 0.5, 1.0, 0.01, 0.3]
    xs = [mk.float("x%d" % i, default=base[i], positive=True) for i in range(n)]
    mk.increasing(xs)
    return dict(init=(mk.float("mu0", 1.65, positive=True), mk.int("nf0", 4, 3, 6)), mugrid=[(mk.float("mu_0", 100.0, positive=True), mk.int("nf_0", 5, 3, 6))],
                xgrid=xs,
                configs=dict(evolution_method="iterate-exact", ev_op_max_order=[mk.int("maxo_qcd", 10, 1, 20), mk.int("maxo_qed", 0, 0, 2)],
                             ev_op_iterations=mk.int("iters", 10, 1, 60), interpolation_polynomial_degree=mk.int("deg", 2, 1, n - 1),
                             interpolation_is_log=mk.bool("is_log", True), scvar_method=None, inversion_method=None, n_integration_cores=1,
                             polarized=mk.bool("polarized", False), time_like=mk.bool("time_like", False)),
                debug=dict(skip_singlet=False, skip_non_singlet=False))


class _Captured(Exception):
    pass


class _OpProbe:
    """Stand-in for evolution_operator.Operator / OperatorMatrixElement inside runner.parts: records what the
    computation is handed (configs, managers) and stops before computing."""

    got = []

    def __init__(self, config, managers, *a, **k):
        _OpProbe.got.append((config, managers))

    def compute(self):
        raise _Captured()


class _CommonsProxy:
    """runner.commons as seen by runner.parts: interpolator is the real function; atlas / couplings (numerical objects that
    have nothing to do with the interpolation settings) are placeholders."""

    def __init__(self, real):
        self._real = real

    def __getattr__(self, name):
        return getattr(self._real, name)

    def atlas(self, *a, **k):
        return "atlas-placeholder"

    def couplings(self, *a, **k):
        return "couplings-placeholder"


def _parts_module(npmod=None):
    import importlib
    import types

    parts = importlib.import_module("eko.runner.parts")
    if not isinstance(parts.commons, _CommonsProxy):
        real_evop = parts.evop
        parts.evop = types.SimpleNamespace(Operator=_OpProbe, Managers=real_evop.Managers)
        parts.ome = types.SimpleNamespace(OperatorMatrixElement=_OpProbe)
        parts.commons = _CommonsProxy(parts.commons)
    if npmod is not None:
        parts.np = npmod
    return parts


def _through_runner(parts, route, theory, card):
    """(configs, managers) that parts.evolve / parts.match hand to the operator computation"""
    import types
    from eko.io.items import Evolution, Matching

    eko = types.SimpleNamespace(theory_card=theory, operator_card=card)
    del _OpProbe.got[:]
    try:
        if route == "evolve":
            parts.evolve(eko, Evolution(origin=10.0, target=100.0, nf=4, cliff=False))
        else:
            parts.match(eko, Matching(scale=25.0, hq=5, inverse=False))
    except _Captured:
        pass
    return _OpProbe.got[-1]


def _expected_configs(theory, card, route):
    """what the declared cards say about the settings runner.parts passes on (field docstrings of the cards)"""
    c = card.configs
    want = dict(order=theory.order, method=c.evolution_method.value, ev_op_iterations=c.ev_op_iterations, ev_op_max_order=c.ev_op_max_order,
                polarized=c.polarized, time_like=c.time_like, debug_skip_singlet=card.debug.skip_singlet,
                debug_skip_non_singlet=card.debug.skip_non_singlet, n_integration_cores=c.n_integration_cores, ModSV=c.scvar_method,
                n3lo_ad_variation=theory.n3lo_ad_variation, use_fhmruvv=theory.use_fhmruvv, matching_order=theory.matching_order)
    if route == "match":
        want["backward_inversion"] = c.inversion_method
    return want


_VIA = {"commons": "commons.interpolator(card)", "evolve": "runner.parts.evolve -> Operator(managers.interpolator)",
        "match": "runner.parts.match -> OperatorMatrixElement(managers.interpolator)"}

# ---- two cards in one process --------------------------------------------------------------------------------
_DIFFER = {"is_log": ("is_log", "b"), "degree": ("deg", "i"), "grid_flag": ("xlog", "b"), "grid_point": ("x1", "f")}


class _SecondCard:
    """value factory for card B: the same leaves as card A except the one named, which becomes B_<name>"""

    def __init__(self, mk, name):
        self.mk, self.name = mk, name
        self.symbolic = mk.symbolic

    def _differs(self, mkv):
        if self.symbolic:  # stated as soon as the leaf exists, before any branch on it
            S.assume_z3(mkv("B_" + self.name) != mkv(self.name))

    def float(self, name, default=None, positive=False, tag=None):
        if name == self.name:
            x = self.mk.float("B_" + name, None if default is None else default * 1.5, positive, tag)
            self._differs(z3.Real)
            return x
        return self.mk.float(name, default, positive, tag)

    def int(self, name, default=None, lo=None, hi=None, tag=None):
        if name == self.name:
            d = 1 if default is None else default
            x = self.mk.int("B_" + name, d - 1 if (lo is None or d - 1 >= lo) else d + 1, lo, hi, tag)
            self._differs(z3.Int)
            return x
        return self.mk.int(name, default, lo, hi, tag)

    def bool(self, name, default=None, tag=None):
        if name == self.name:
            x = self.mk.bool("B_" + name, not default, tag)
            self._differs(z3.Bool)
            return x
        return self.mk.bool(name, default, tag)

    def array(self, *a, **k):
        return self.mk.array(*a, **k)

    def increasing(self, xs):
        return self.mk.increasing(xs)


def _two_cards(mk, var):
    name, kind = _DIFFER[var["differ"]]
    build = (lambda m: b_operator(m, dict(var, sorted=True))) if var["source"] == "object" else (lambda m: OperatorCard.from_dict(_raw_operator(m, var)))
    card_a = build(mk)
    card_b = build(_SecondCard(mk, name))
    return card_a, card_b


def _get_dispatcher(route, commons, parts, theory, card):
    if route == "commons":
        return commons.interpolator(card)
    return _through_runner(parts, route, theory, card)[1].interpolator


def case_sequence(log, var):
    """interpolator(card_A) then interpolator(card_B) in one process: each result as in a fresh process"""
    import importlib

    _start(log)
    dl, ip, rc, mt, cnp = _setup()
    commons = importlib.import_module("eko.runner.commons")
    commons.np = cnp
    ip.BasisFunction = _BasisRecorder
    route = var.get("route", "commons")
    parts = _parts_module(cnp) if route != "commons" else None
    log.encode(commons.interpolator, ip.InterpolatorDispatcher.__init__)
    if parts is not None:
        log.encode(parts._managers, parts.evolve, parts.match)
    snap = CS.snapshot_state(*([commons, ip] + ([parts] if parts is not None else [])))
    n = var.get("n", 4)
    via = _VIA[route]
    kpre = ("interpolator" if route == "commons" else "runner.parts") + "-sequence:"

    def run():
        CS.restore_state(snap)
        mk = CS.SymMk("py")
        card_a, card_b = _two_cards(mk, var)
        theory = b_theory(mk, {"k": 0}) if route != "commons" else None
        rk = {"var": var}
        try:
            d_a = _get_dispatcher(route, commons, parts, theory, card_a)
            d_b = _get_dispatcher(route, commons, parts, theory, card_b)
        except Exception as e:
            if _engine_exc(e):
                raise
            v = prove_formula(z3.BoolVal(False), "%s for card A then card B is computed (raised %s: %s)" % (via, type(e).__name__, e))
            _decide(log, v, key=kpre + "raises", replay=(MOD, "replay_sequence", dict(rk, aspect="raises", which="B")), candidates=[{}])
            return None
        for which, disp, card in (("B", d_b, card_b), ("A", d_a, card_a)):
            label = "%s, cards A then B differing in %s, result for card %s%s" % (via, var["differ"], which, " (looked at after the call for B)" if which == "A" else "")
            is_log, deg = card.configs.interpolation_is_log, card.configs.interpolation_polynomial_degree
            for aspect, build_cmp in (
                ("log", lambda c: c.leaf(disp.log, is_log, "log")),
                ("degree", lambda c: c.leaf(disp.polynomial_degree, deg, "degree")),
                ("nodes", lambda c: c.same(disp.xgrid.raw, card.xgrid.raw, "nodes")),
                ("basis", lambda c: [c.leaf(bf._mode_log, is_log, "basis.mode_log") for bf in disp.basis] if len(disp.basis) == n else c.mismatch.append("%d basis functions" % len(disp.basis))),
            ):
                c = CS.Cmp()
                build_cmp(c)
                v = prove_formula(c.formula() if not c.mismatch else z3.BoolVal(False), "%s: %s is the card's %s" % (label, aspect, c.mismatch[:1] or ""))
                _decide(log, v, key=kpre + ("log" if aspect == "basis" else aspect), replay=(MOD, "replay_sequence", dict(rk, aspect=aspect, which=which)), candidates=[{}])
        log.twin("domain")
        log.collect_ctx()

    _r, pm = explore(run, max_paths=512)
    log.path_stats(pm)


def replay_sequence(point, var, aspect, which):
    """the same sequence on the real code, in one (fresh) process"""
    from eko.runner import commons

    route = var.get("route", "commons")
    try:
        card_a, card_b = _two_cards(CS.ConcMk(point, "py"), var)
    except Exception:
        return None
    name = _DIFFER[var["differ"]][0]
    for card in (card_a, card_b):
        if not 1 <= int(card.configs.interpolation_polynomial_degree) < len(card.xgrid):
            return None
    parts = _parts_module() if route != "commons" else None
    theory = b_theory(CS.ConcMk({}, "py"), {"k": 0}) if route != "commons" else None
    try:
        d_a = _get_dispatcher(route, commons, parts, theory, card_a)
        d_b = _get_dispatcher(route, commons, parts, theory, card_b)
    except Exception as e:
        return {"detail": "%s for two cards differing in %s raised %s: %s" % (_VIA[route], name, type(e).__name__, e)} if aspect == "raises" else None
    if aspect == "raises":
        return None
    disp, card = (d_b, card_b) if which == "B" else (d_a, card_a)
    desc = lambda c: "(xgrid.log=%r, interpolation_is_log=%r, degree=%r, grid=%r)" % (  # noqa: E731
        bool(c.xgrid.log), bool(c.configs.interpolation_is_log), int(c.configs.interpolation_polynomial_degree), np.asarray(c.xgrid.raw).tolist())
    origin = "%s called for card A %s and then for card B %s in one process; for card %s" % (_VIA[route], desc(card_a), desc(card_b), which)
    is_log, deg = bool(card.configs.interpolation_is_log), int(card.configs.interpolation_polynomial_degree)
    if aspect == "log" and bool(disp.log) != is_log:
        return {"detail": "%s: .log = %r" % (origin, disp.log)}
    if aspect == "degree" and int(disp.polynomial_degree) != deg:
        return {"detail": "%s: .polynomial_degree = %r" % (origin, disp.polynomial_degree)}
    if aspect == "nodes":
        got, want = np.asarray(disp.xgrid.raw, dtype=float), np.asarray(card.xgrid.raw, dtype=float)
        if got.shape != want.shape or not np.allclose(got, want, rtol=1e-10, atol=0.0):
            return {"detail": "%s: nodes %r" % (origin, got.tolist())}
    if aspect == "basis":
        modes = [bool(bf._mode_log) for bf in disp.basis]
        if len(modes) != len(card.xgrid) or any(m != is_log for m in modes):
            return {"detail": "%s: basis functions built with mode_log = %r" % (origin, modes)}
    return None


def case_interpolator(log, var):
    import importlib

    _start(log)
    dl, ip, rc, mt, cnp = _setup()
    commons = importlib.import_module("eko.runner.commons")
    commons.np = cnp
    ip.BasisFunction = _BasisRecorder
    log.encode(commons.interpolator, ip.InterpolatorDispatcher.__init__, OperatorCard)
    n = var.get("n", 4)
    route = var.get("route", "commons")
    parts = None
    if route != "commons":
        parts = _parts_module(cnp)
        log.encode(parts._managers, parts._evolve_configs, parts._matching_configs, parts.evolve, parts.match)
    via = _VIA[route]
    snap = CS.snapshot_state(*([commons, ip] + ([parts] if parts is not None else [])))

    def run():
        CS.restore_state(snap)  # every path is a fresh process as far as module-level state goes
        mk = CS.SymMk(var.get("flavour", "py"))
        if var["source"] == "object":
            card = b_operator(mk, dict(var, sorted=True))
        else:
            card = OperatorCard.from_dict(_raw_operator(mk, var))
        del _BasisRecorder.made[:]
        rk = {"var": var}
        theory = b_theory(mk, {"k": 0}) if route != "commons" else None
        cfg = None
        try:
            if route == "commons":
                disp = commons.interpolator(card)
            else:
                cfg, managers = _through_runner(parts, route, theory, card)
                disp = managers.interpolator
        except Exception as e:
            if _engine_exc(e):
                raise
            v = prove_formula(z3.BoolVal(False), "%s is computed (raised %s: %s)" % (via, type(e).__name__, e))
            _decide(log, v, key="interpolator:raises", replay=(MOD, "replay_interpolator", dict(rk, aspect="raises")), candidates=[{}])
            return None
        if cfg is not None:
            want = _expected_configs(theory, card, route)
            c = CS.Cmp()
            for name in sorted(want):
                if name not in cfg:
                    c.mismatch.append("%s missing" % name)
                else:
                    c.same(cfg[name], want[name], name)
            c.leaf(cfg.get("xif2", 0), theory.xif * theory.xif, "xif2")
            v = prove_formula(c.formula() if not c.mismatch else z3.BoolVal(False),
                              "%s: the configs handed to the computation are the cards' settings %s" % (via, c.mismatch[:2] or ""))
            _decide(log, v, key="runner.parts:configs", replay=(MOD, "replay_interpolator", dict(rk, aspect="configs")), candidates=[{}])
        is_log = card.configs.interpolation_is_log
        deg = card.configs.interpolation_polynomial_degree
        c = CS.Cmp()
        c.leaf(disp.log, is_log, "log")
        v = prove_formula(c.formula() if not c.mismatch else z3.BoolVal(False), via + ": interpolator.log == card.configs.interpolation_is_log")
        klog = "interpolator:log" if var["source"] == "raw" else "interpolator:log:card-object"
        if route != "commons":
            klog = "runner.parts:interpolator.log"
        kpre = "interpolator:" if route == "commons" else "runner.parts:interpolator."
        _decide(log, v, key=klog, replay=(MOD, "replay_interpolator", dict(rk, aspect="log")), candidates=[{}])
        c = CS.Cmp()
        c.leaf(disp.polynomial_degree, deg, "degree")
        v = prove_formula(c.formula() if not c.mismatch else z3.BoolVal(False),
                          via + ": interpolator.polynomial_degree == card.configs.interpolation_polynomial_degree")
        _decide(log, v, key=kpre + "degree", replay=(MOD, "replay_interpolator", dict(rk, aspect="degree")), candidates=[{}])
        # the interpolator sits on the card's nodes
        c = CS.Cmp()
        c.same(disp.xgrid.raw, card.xgrid.raw, "interpolator.xgrid.raw")
        v = prove_formula(c.formula() if not c.mismatch else z3.BoolVal(False),
                          via + ": interpolator.xgrid.raw == card.xgrid.raw (the nodes of the interpolator are the card's nodes)%s" % (c.mismatch[:1] or ""))
        _decide(log, v, key=kpre + "nodes", replay=(MOD, "replay_interpolator", dict(rk, aspect="nodes")), candidates=[{}])
        c = CS.Cmp()
        for bf in _BasisRecorder.made:
            c.leaf(bf._mode_log, is_log, "basis.mode_log")
        ok = len(_BasisRecorder.made) == n and not c.mismatch
        v = prove_formula(c.formula() if ok else z3.BoolVal(False), via + ": all %d basis functions are built with mode_log == interpolation_is_log" % n)
        _decide(log, v, key=klog, replay=(MOD, "replay_interpolator", dict(rk, aspect="basis")), candidates=[{}])
        # every block [kmin,kmax] spans degree+1 grid points inside the grid
        fs = []
        for bf in _BasisRecorder.made[:1]:
            ok = ok and len(bf.blocks) == n - 1
            for kmin, kmax in bf.blocks:
                zmin = kmin.e if isinstance(kmin, CS.IL) else kmin
                zmax = kmax.e if isinstance(kmax, CS.IL) else kmax
                zdeg = deg.e if isinstance(deg, CS.IL) else deg
                fs.append(z3.And(zmax - zmin == zdeg, zmin >= 0, zmax <= n - 1))
        v = prove_formula(z3.And(fs) if ok and fs else z3.BoolVal(False), via + ": every interpolation block spans degree+1 points of the grid")
        _decide(log, v, key=kpre + "blocks", replay=(MOD, "replay_interpolator", dict(rk, aspect="blocks")), candidates=[{}])
        log.twin("domain")
        log.collect_ctx()

    _r, pm = explore(run, max_paths=256)
    log.path_stats(pm)


# ---------------------------------------------------------------------------
# CrossHair: extra counterexample finder over str-shaped inputs (never a passing verdict)
# ---------------------------------------------------------------------------
CROSSHAIR_CONTRACTS = '''"""CrossHair contracts for str-shaped DictLike fields (generated by harness/C40.py)."""
import sys
sys.path.insert(0, %(src)r)
import enum
from dataclasses import dataclass
from typing import Optional
from eko.io import dictlike


class Color(enum.Enum):
    RED = "red"
    GREEN = "green"


@dataclass
class S(dictlike.DictLike):
    s: str
    o: Optional[str] = None


def roundtrip_str(s: str) -> bool:
    """
    post: __return__
    """
    x = S(s=s, o=s)
    y = S.from_dict(x.raw)
    return y.s == s and y.o == s


def roundtrip_optional(s: Optional[str]) -> bool:
    """
    post: __return__
    """
    x = S(s="a", o=s)
    return S.from_dict(x.raw).o == s


def enum_loader(s: str) -> bool:
    """
    post: __return__
    """
    try:
        m = dictlike.load_enum(Color, s)
    except ValueError:
        return s not in ("red", "green", "RED", "GREEN")
    return m.value == s or m.name == s
'''

_CH_KEYS = {"roundtrip_optional": "load_typing:Optional-None-coerced", "roundtrip_str": "crosshair:str-roundtrip", "enum_loader": "crosshair:load_enum"}


def case_crosshair(log, budget):
    import re
    import subprocess
    import tempfile

    _start(log)
    exe = os.path.join(H.VERIF, ".venv", "bin", "crosshair")
    if not os.path.exists(exe):
        log.notes.append("crosshair not installed: extra counterexample search skipped")
        return
    d = tempfile.mkdtemp(prefix="c40_crosshair_")
    path = os.path.join(d, "c40_contracts.py")
    with open(path, "w") as f:
        f.write(CROSSHAIR_CONTRACTS % {"src": os.path.join(H.REPO, "src")})
    try:
        r = subprocess.run([exe, "check", "--per_condition_timeout", str(budget), path], capture_output=True, text=True, timeout=6 * budget + 60)
        out = r.stdout + r.stderr
    except Exception as e:
        log.notes.append("crosshair run failed: %s" % e)
        return
    finally:
        import shutil

        shutil.rmtree(d, ignore_errors=True)
    found = re.findall(r"error: false when calling (\w+)\((.*)\) \(which returns", out)
    log.notes.append("crosshair: %d counterexample(s) proposed: %r" % (len(found), found))
    for fn, args in found:
        v = S.Verdict("sat", "CrossHair counterexample: %s(%s) violates its contract" % (fn, args), None, None, 0.0, None, 1)
        _decide(log, v, key=_CH_KEYS.get(fn, "crosshair:" + fn), replay=(MOD, "replay_crosshair", {"fn": fn, "args": args}), candidates=[{}])


def replay_crosshair(point, fn, args):
    import ast

    ns = {}
    exec(compile(CROSSHAIR_CONTRACTS % {"src": os.path.join(H.REPO, "src")}, "c40_contracts", "exec"), ns)
    try:
        val = ast.literal_eval("(" + args + ",)")
    except Exception:
        return None
    ok = ns[fn](*val)
    return None if ok else {"detail": "contract %s%r is false on the real code (DictLike with a str / Optional[str] field)" % (fn, val)}


# ---------------------------------------------------------------------------
# translator validation: symbolic raw / loaded object at a model point == real code at the same point
# ---------------------------------------------------------------------------
_PYNAME = {"float": "float", "int": "int", "bool": "bool"}


def _annot_sym(v, ev):
    """annotated structure of a symbolic value evaluated with ev(leaf) -> number"""
    if type(v) in (float, int, bool):
        return [type(v).__name__, v]
    if isinstance(v, CS.NanLeaf):
        return ["float", "nan"]
    if isinstance(v, (CS.FL, CS.IL, CS.BL)):
        return [v.tag, ev(v)]
    if isinstance(v, SR):
        return ["float", ev(v)]
    if isinstance(v, CS.SymNd):
        return ["np.ndarray", v.dt, [_annot_sym(e, ev) for e in v.flat]]
    return _annot_common(v, lambda e: _annot_sym(e, ev))


def _annot_conc(v):
    if isinstance(v, np.ndarray):
        dt = {"float64": "float64", "int64": "int64", "bool": "bool"}.get(str(v.dtype), str(v.dtype))
        return ["np.ndarray", dt, [_annot_conc(e) for e in v.flat]]
    if isinstance(v, np.generic) and not isinstance(v, np.str_):
        name = "np." + type(v).__name__
        name = {"np.bool": "np.bool_"}.get(name, name)
        return [name, v.item()]
    if type(v) in (float, int, bool):
        return [type(v).__name__, v]
    return _annot_common(v, _annot_conc)


def _annot_common(v, rec):
    if v is None:
        return None
    if isinstance(v, enum.Enum):
        return ["enum", type(v).__name__, v.name]
    if isinstance(v, str):
        return ["np.str_" if isinstance(v, np.str_) else "str", str(v)]
    if isinstance(v, interpolation.XGrid):
        return ["XGrid", rec(v.log), rec(v.raw)]
    if dataclasses.is_dataclass(v):
        return ["dataclass", type(v).__name__, {f.name: rec(getattr(v, f.name)) for f in dataclasses.fields(v)}]
    if isinstance(v, dict):
        return ["dict", {str(k): rec(x) for k, x in v.items()}]
    if isinstance(v, (list, tuple)):
        return [type(v).__name__, [rec(e) for e in v]]
    if isinstance(v, pathlib.PurePath):
        return ["path", str(v)]
    return ["other", type(v).__name__]


def _symbolic_record(cls, build, var):
    """x.raw and from_dict(x.raw) computed by the MODEL (patched modules, symbolic leaves) along the path of the
    default point, evaluated at that point."""
    rec = {}
    with CS.AtDefaultPoint(var.get("flavour", "py")) as pt:
        x = build(pt.mk, var)
        try:
            raw = x.raw
            rec["raw"] = _annot_sym(raw, pt.ev)
        except Exception as e:
            if _engine_exc(e):
                raise
            rec["raw"] = "EXC:" + type(e).__name__
            rec["loaded"] = "EXC"
            return rec
        try:
            rec["loaded"] = _annot_sym(cls.from_dict(raw), pt.ev)
        except Exception as e:
            if _engine_exc(e):
                raise
            rec["loaded"] = "EXC"
    return rec


def concrete_record(point, subject, var):
    """(replay side, real code) the same record for the concrete object built at `point`."""
    cls, build = SUBJECTS[subject]
    x = build(CS.ConcMk(point, var.get("flavour", "py")), var)
    rec = {}
    try:
        raw = x.raw
        rec["raw"] = _annot_conc(raw)
    except Exception as e:
        rec["raw"] = "EXC:" + type(e).__name__
        rec["loaded"] = "EXC"
        return rec
    try:
        rec["loaded"] = _annot_conc(cls.from_dict(raw))
    except Exception:
        rec["loaded"] = "EXC"
    return rec


def _close(a, b):
    if isinstance(a, list) and isinstance(b, list):
        return len(a) == len(b) and all(_close(x, y) for x, y in zip(a, b))
    if isinstance(a, dict) and isinstance(b, dict):
        return set(a) == set(b) and all(_close(a[k], b[k]) for k in a)
    if isinstance(a, bool) or isinstance(b, bool):
        return a is b or a == b and type(a) is type(b)
    if isinstance(a, (int, float)) and isinstance(b, (int, float)):
        return abs(a - b) <= 1e-6 * max(1.0, abs(a), abs(b))
    return a == b


def _first_diff(a, b, path):
    if isinstance(a, list) and isinstance(b, list) and len(a) == len(b):
        for i, (x, y) in enumerate(zip(a, b)):
            d = _first_diff(x, y, "%s/%d" % (path, i))
            if d:
                return d
        return None
    if isinstance(a, dict) and isinstance(b, dict) and set(a) == set(b):
        for k in a:
            d = _first_diff(a[k], b[k], "%s/%s" % (path, k))
            if d:
                return d
        return None
    return None if _close(a, b) else "%s: model %s vs real %s" % (path, json.dumps(a)[:160], json.dumps(b)[:160])


def _validate(log, subject, var, real):
    """translator validation: model record == record of the real code (computed in this process BEFORE the
    modules were patched) at the builders' default point."""
    if real is None:
        log.notes.append("translator validation skipped for %s %r (process already patched)" % (subject, var))
        return
    cls, build = SUBJECTS[subject]
    mine = json.loads(json.dumps(_symbolic_record(cls, build, var)))
    real = json.loads(json.dumps(real))
    for part in ("raw", "loaded"):
        d = _first_diff(mine[part], real[part], part)
        if d:
            log.inconclusive.append("translator validation failed for %s %r: %s" % (subject, var, d))
            return
    log.validate(2)


# ---------------------------------------------------------------------------
# replays: REAL unpatched code on concrete python / numpy values; oracle = PyYAML's safe dumper/loader and an
# independent structural comparison (cardsym.concrete_same)
# ---------------------------------------------------------------------------
def _yaml_trip(raw):
    import io
    import yaml

    s = io.StringIO()
    yaml.safe_dump(raw, s)
    s.seek(0)
    return yaml.safe_load(s)


def replay_roundtrip(point, subject, var, aspect, field):
    cls, build = SUBJECTS[subject]
    try:
        x = build(CS.ConcMk(point, var.get("flavour", "py")), var)
    except Exception:
        return None  # the point does not describe an object of the class
    try:
        raw = x.raw
    except Exception as e:
        return {"detail": "%s.raw raised %s: %s" % (subject, type(e).__name__, e)} if aspect == "raw-raises" else None
    if aspect == "raw-raises":
        return None
    if aspect == "plain":
        try:
            _yaml_trip({field: raw[field]})
        except Exception as e:
            return {"detail": "%s(%s leaves).raw[%r] = %r is rejected by yaml.safe_dump: %s: %s"
                    % (subject, var.get("flavour", "py"), field, raw[field], type(e).__name__, str(e)[:120])}
        return None
    try:
        doc = _yaml_trip(raw)
    except Exception:
        doc = raw
    try:
        y = cls.from_dict(doc)
    except Exception as e:
        if aspect == "load-raises":
            return {"detail": "%s.from_dict(x.raw) raised %s: %s (x = %r)" % (subject, type(e).__name__, str(e)[:160], x)}
        return None
    if aspect == "load-raises":
        return None
    xa, ya = getattr(x, field), getattr(y, field)
    if aspect == "equal-log":
        if not isinstance(ya, interpolation.XGrid):
            return None
        xa, ya = bool(xa.log), bool(ya.log)
    elif aspect == "equal-raw":
        if not isinstance(ya, interpolation.XGrid):
            return None
        xa, ya = np.asarray(xa.raw), np.asarray(ya.raw)
    diffs = CS.concrete_same(ya, xa, "%s.%s%s" % (subject, field, {"equal-log": ".log", "equal-raw": ".raw"}.get(aspect, "")))
    if diffs:
        return {"detail": "from_dict(safe_load(safe_dump(x.raw))) differs from x: %s   (x.%s = %r)" % ("; ".join(diffs[:3]), field, getattr(x, field))}
    return None


def replay_default(point, var):
    try:
        x = b_theory(CS.ConcMk(point, var.get("flavour", "py")), var)
    except Exception:
        return None
    want = (int(x.order[0]) - 1, 0)
    got = tuple(int(v) for v in x.matching_order)
    if got != want:
        return {"detail": "TheoryCard(order=%r, matching_order=None).matching_order = %r, documented default %r" % (x.order, x.matching_order, want)}
    return None


def replay_xgrid(point, var, aspect="equal"):
    try:
        g = b_xgrid(CS.ConcMk(point, var.get("flavour", "py")), var)
    except Exception:
        return None
    try:
        d = g.dump()
        doc = _yaml_trip(d)
    except Exception as e:
        return {"detail": "XGrid.dump() of %r (log=%r) is not accepted by yaml.safe_dump/safe_load: %s" % (g.raw, g.log, e)} if aspect == "plain" else None
    if aspect == "plain":
        return None
    if aspect == "flag":
        return {"detail": "XGrid(log=%r).dump()['log'] = %r" % (g.log, d["log"])} if bool(d["log"]) != bool(g.log) else None
    g2 = interpolation.XGrid.load(doc)
    diffs = CS.concrete_same(g2, g, "XGrid")
    return {"detail": "XGrid.load(dump) differs: %s" % "; ".join(diffs[:3])} if diffs else None


def replay_interpolator(point, var, aspect="log"):
    from eko.runner import commons

    mk = CS.ConcMk(point, var.get("flavour", "py"))
    try:
        if var["source"] == "object":
            card = b_operator(mk, dict(var, sorted=True))
            origin = "OperatorCard(xgrid=XGrid(.., log=%r), configs.interpolation_is_log=%r)" % (card.xgrid.log, card.configs.interpolation_is_log)
        else:
            raw = _raw_operator(mk, var)
            card = OperatorCard.from_dict(_yaml_trip(raw) if var.get("flavour", "py") == "py" else raw)
            origin = "OperatorCard.from_dict(runcard with configs.interpolation_is_log=%r, interpolation_polynomial_degree=%r)" % (
                raw["configs"]["interpolation_is_log"], raw["configs"]["interpolation_polynomial_degree"])
    except Exception:
        return None
    deg = int(card.configs.interpolation_polynomial_degree)
    is_log = bool(card.configs.interpolation_is_log)
    if not 1 <= deg < len(card.xgrid):
        return None
    route = var.get("route", "commons")
    via = "commons.interpolator(card)"
    try:
        if route == "commons":
            disp = commons.interpolator(card)
        else:
            via = "the interpolator runner.parts.%s hands to the computation" % route
            theory = b_theory(CS.ConcMk({}, "py"), {"k": 0})
            cfg, managers = _through_runner(_parts_module(), route, theory, card)
            disp = managers.interpolator
    except Exception as e:
        return {"detail": "%s: %s raised %s: %s" % (origin, via, type(e).__name__, e)} if aspect == "raises" else None
    if aspect == "raises":
        return None
    origin = "%s: %s" % (origin, via)
    if aspect == "configs":
        want = _expected_configs(theory, card, route)
        want["xif2"] = float(theory.xif) ** 2
        diffs = []
        for name in sorted(want):
            if name not in cfg:
                diffs.append("%s missing" % name)
            else:
                diffs.extend(CS.concrete_same(cfg[name], want[name], name, rtol=1e-12))
        return {"detail": "%s: configs differ from the cards: %s" % (origin, "; ".join(diffs[:3]))} if diffs else None
    if aspect == "log" and bool(disp.log) != is_log:
        return {"detail": "%s: .log = %r" % (origin, disp.log)}
    if aspect == "nodes":
        got, want = np.asarray(disp.xgrid.raw, dtype=float), np.asarray(card.xgrid.raw, dtype=float)
        if got.shape != want.shape or not np.allclose(got, want, rtol=1e-10, atol=0.0):
            return {"detail": "%s: the interpolator's nodes are %r, the card's grid is %r" % (origin, got.tolist(), want.tolist())}
    if aspect == "degree" and int(disp.polynomial_degree) != deg:
        return {"detail": "%s: .polynomial_degree = %r" % (origin, disp.polynomial_degree)}
    if aspect == "basis":
        modes = [bool(bf._mode_log) for bf in disp.basis]
        if len(modes) != len(card.xgrid) or any(m != is_log for m in modes):
            return {"detail": "%s: basis functions built with mode_log = %r" % (origin, modes)}
    if aspect == "blocks":
        for bf in disp.basis:
            for a in bf.areas:
                if a.kmax - a.kmin != deg or a.kmin < 0 or a.kmax > len(card.xgrid) - 1:
                    return {"detail": "%s: block (%d,%d) does not span degree+1 = %d points" % (origin, a.kmin, a.kmax, deg + 1)}
    return None


# ---------------------------------------------------------------------------
def main():
    chk = H.Check("C40")
    chk.bounds = [
        "leaf values symbolic: reals (any value; grids and scales > 0), integers (orders 1..4, nf 3..6, degree 1..n-1, otherwise unbounded), Booleans; "
        "leaf python types enumerated: python scalars, numpy float64/int64/bool_, numpy float32/int32",
        "enum-valued fields: every member of every enum (one member per field and case; all 8x3x3 combinations of Configs in the thorough tier)",
        "optional fields: None and a value; TheoryCard.matching_order given and defaulted; mass scheme POLE and MSBAR",
        "x grids of 3 points (4 for the interpolator, 2..4 thorough), sorted and unsorted input, list and ndarray input, log flag symbolic; mugrid of 1..2 points",
        "synthetic DictLike classes: one per field kind (scalars, np.ndarray / npt.NDArray / npt.NDArray[float64] / Optional[NDArray], tuple, enum, nested "
        "DictLike + list of DictLike + plain dataclass, Optional[...], List[...], dict, XGrid, NewType, defaults)",
        "interpolator: cards given as objects (grid flag and interpolation_is_log independent) and as raw runcards, degree symbolic in 1..n-1; "
        "sequences: interpolator for card A then for card B in one process (also through parts.evolve / parts.match), the cards sharing every leaf "
        "except one interpolation setting (interpolation_is_log, degree, the grid object's flag, one grid point), each result required to be the "
        "card's own; every explored path and every replay starts from the import-time state of the modules",
        "obtained from commons.interpolator and from what runner.parts.evolve / runner.parts.match hand to Operator / OperatorMatrixElement "
        "(the only readers of the interpolation settings under src/eko/runner), together with the configs dictionary they pass",
    ]
    chk.out_of_claim = [
        "PyYAML itself (text form, float repr round trip) -- replays do run yaml.safe_dump/safe_load on the concrete counterexample",
        "non-real floats (nan, inf): nan != nan makes object equality meaningless; the nan scale of pole masses is carried as an ordinary real",
        "Metadata with an attached path (_path is deliberately excluded from raw)",
        "str-valued leaves are concrete (str and numpy.str_)",
        "the numerical content of BasisFunction (C34); only how the dispatcher parametrises it",
        "CrossHair (case crosshair.str-fields) only proposes counterexamples over str / Optional[str] fields and load_enum; finding none proves nothing",
    ]
    chk.stubs = [
        "float/int/bool inside the declared field types and the name `float` in eko.io.dictlike are replaced by constructor classes that apply the builtin "
        "conversion table to typed symbolic leaves (value unchanged, type tag -> python); validated against the real code at one model point per case",
        "numpy: array()/tolist()/unique()/log() on leaves modelled by dtype promotion (bool < int64 < float64), exact values, np.unique = sort + drop equal by "
        "forking on comparisons",
        "hashing / equality of symbolic leaves inside containers (dict keys) is structural: the same symbolic expression is the same key, different "
        "symbols are different keys (the sequence cases assume the differing setting differs); ndarray.tobytes of a symbolic array is a canonical "
        "rendering of its contents",
        "interpolation.BasisFunction replaced by a recorder of (poly_number, blocks, mode_log) in the interpolator cases",
        "runner.parts cases: evolution_operator.Operator / OperatorMatrixElement replaced by a probe recording (configs, managers) and stopping "
        "before compute(); commons.atlas / commons.couplings replaced by placeholders (also in the replays); the EKO is a namespace holding the two cards",
    ]
    chk.assumptions = ["structural goals (raw is computed / is plain / from_dict is computed) have no numeric content: they are recorded as path-feasibility "
                       "queries (violated iff the path on which the structure goes wrong is feasible)"]
    thorough = H.tier() == "thorough"
    only = os.environ.get("C40_ONLY")
    if only:
        _case = chk.case
        chk.case = lambda name, fn, **kw: _case(name, fn, **kw) if only in name else None
    flavours = ["py", "np", "np32"]
    groups = {}

    def add(group, subject, **var):
        groups.setdefault(group, []).append((subject, var))

    for fl in flavours:
        for k in range(2):
            add("cards." + fl, "TheoryCard", flavour=fl, k=k, matching=["given", "default"][k])
        add("cards." + fl, "TheoryCard", flavour=fl, k=0, fhmruvv="none")
        add("cards." + fl, "OperatorCard", flavour=fl, k=1, nmu=2)
        add("cards." + fl, "Metadata", flavour=fl)
        for sname in ("Debug", "HeavyInfo", "CouplingsInfo"):
            add("cards." + fl, sname, flavour=fl, k=1)
        for k in (range(8) if fl == "py" else range(2)):
            add("configs." + fl, "Configs", flavour=fl, k=k)
        for sname in ("KScalars", "KTuple", "KNested", "KList", "KDict", "KNewType", "Inner"):
            add("kinds." + fl, sname, flavour=fl)
    for sname in ("KArrayNd", "KArrayNDArray", "KArrayNDArrayF", "KOptArray"):
        for dt in ("float64", "int64", "bool"):
            add("arrays." + sname, sname, flavour="py", dt=dt)
    add("arrays.KOptArray", "KOptArray", none=True)
    for k in range(3):
        add("misc.enum-optional", "KEnum", k=k, none=(k == 2))
    add("misc.enum-optional", "KOptional", flavour="py")
    add("misc.enum-optional", "KOptional", none=True)
    add("misc.enum-optional", "KDefault")
    add("misc.enum-optional", "KDefault", explicit=True)
    add("misc.enum-optional", "KScalars", flavour="py", str="np")
    add("misc.xgrid", "KXGrid")
    add("misc.xgrid", "KXGrid", grid_as="array", sorted=False, flavour="np")
    add("misc.xgrid", "OperatorCard", flavour="py", k=2, nmu=1, sorted=False, grid_as="array")
    if thorough:
        for n in (2, 4):
            add("thorough.operator.n%d" % n, "OperatorCard", flavour="py", k=3, nmu=1, n=n, sorted=False)
        for k in range(8):
            for ks in range(3):
                for ki in range(3):
                    add("thorough.configs.k%d" % k, "Configs", flavour="py", k=k, ks=ks, ki=ki)
        for fl in flavours:
            for k in range(8):
                add("thorough.operator.%s.%d" % (fl, k // 4), "OperatorCard", flavour=fl, k=k, nmu=1 + k % 2)
                add("thorough.theory.%s.%d" % (fl, k // 4), "TheoryCard", flavour=fl, k=k, matching=["given", "default"][k % 2],
                    fhmruvv=["sym", "none"][(k // 2) % 2])
    for g, items in groups.items():
        chk.case(g, case_group, items=items)
    chk.case("crosshair.str-fields", case_crosshair, budget=30 if thorough else 8)
    # XGrid API
    chk.case("XGrid.dumpload.sorted", case_xgrid, var={"n": 3})
    chk.case("XGrid.dumpload.unsorted", case_xgrid, var={"n": 3, "sorted": False, "grid_as": "array"})
    # interpolator
    chk.case("interpolator.raw-card", case_interpolator, var={"source": "raw", "n": 4})
    chk.case("interpolator.object", case_interpolator, var={"source": "object", "n": 4, "k": 0, "nmu": 1})
    # every consumer of the card's interpolation settings in the runner: parts._managers, reached from evolve and match
    for route in ("evolve", "match"):
        chk.case("runner.parts.%s.raw-card" % route, case_interpolator, var={"source": "raw", "n": 4, "route": route})
        chk.case("runner.parts.%s.object" % route, case_interpolator, var={"source": "object", "n": 4, "k": 0, "nmu": 1, "route": route})
    # two cards in one process (state the code may keep between calls)
    for differ in ("is_log", "grid_flag", "grid_point"):
        chk.case("sequence.commons.%s" % differ, case_sequence, var={"source": "object", "n": 4, "k": 0, "nmu": 1, "differ": differ})
    chk.case("sequence.commons.degree", case_sequence, var={"source": "raw", "n": 3, "differ": "degree"})
    chk.case("sequence.commons.raw-card.is_log", case_sequence, var={"source": "raw", "n": 4, "differ": "is_log"})
    for route in ("evolve", "match"):
        chk.case("sequence.runner.parts.%s.is_log" % route, case_sequence, var={"source": "object", "n": 4, "k": 0, "nmu": 1, "differ": "is_log", "route": route})
    if thorough:
        for route in ("evolve", "match"):
            for differ in ("grid_flag", "grid_point"):
                chk.case("sequence.runner.parts.%s.%s" % (route, differ), case_sequence,
                         var={"source": "object", "n": 4, "k": 0, "nmu": 1, "differ": differ, "route": route})
            chk.case("sequence.runner.parts.%s.degree" % route, case_sequence, var={"source": "raw", "n": 3, "differ": "degree", "route": route})
    if thorough:
        for n in (2, 3, 5):
            chk.case("interpolator.raw-card.n%d" % n, case_interpolator, var={"source": "raw", "n": n})
        for n in (2, 4):
            chk.case("XGrid.dumpload.unsorted.n%d" % n, case_xgrid, var={"n": n, "sorted": False})
    try:
        return chk.run()
    finally:
        CS.release_keys("C40")


if __name__ == "__main__":
    import sys

    sys.exit(main())
