"""C34  The interpolation basis is a partition of unity that reproduces polynomials.

Real code executed symbolically (module global `np` of eko.interpolation rebound to the shim):
XGrid.__init__, InterpolatorDispatcher.__init__ (block construction), BasisFunction.__init__,
Area.__init__/_compute_coefs, BasisFunction.evaluate_x -> evaluate_x / log_evaluate_x,
InterpolatorDispatcher.get_interpolation (including its np.allclose early exit).

Symbols: the grid nodes x0 < x1 < ... (all nodes at once), the evaluation point, the target grid.
In logarithmic mode the real data flow is kept: XGrid takes np.log of the nodes, which creates one
interned atom per node; the only facts about log handed to the solver are instances of "log is
strictly increasing" for the pairs of points that occur.

Goals, per interval / per node / per target row and per monomial degree m <= polynomial_degree:
    sum_j p_j(x) u_j^m == u(x)^m     (m = 0: partition of unity),   u = x or ln x
    p_j(x_k) == delta_jk
    sum_j R_ij u_j^m == u(t_i)^m     for R = get_interpolation(t)
    rejected  <=>  (degree < 1 or len(grid) <= degree),   rejected <=> (len < 2 or duplicate nodes)
"""
from fractions import Fraction

import numpy as realnp
import z3

from .common import *  # noqa
from symx.solver import prove_zero, prove_formula, ZInt, assume_z3
from symx.val import EngineError
from symx import harness as H

MOD = "harness.C34"
KEY_EXIT = "get_interpolation:allclose-early-exit"


# ---------------------------------------------------------------------------
# numpy facade additions (contract models of np.unique / np.array_equal on symbolic 1-d input)
# ---------------------------------------------------------------------------
def _truth(b):
    return b if isinstance(b, bool) else bool(b)


class NP(shim.SymNumpy):
    """SymNumpy + np.unique / np.array_equal for symbolic entries; records allclose outcomes."""

    def __init__(self):
        super().__init__()
        self.trace = []

    def unique(self, a, *args, **kw):
        vals = list(a)
        if args or kw or not shim.has_sym(vals):
            return realnp.unique(a, *args, **kw)
        out = []  # documented contract: the sorted distinct values; every comparison forks / is decided by z3
        for v in vals:
            pos, dup = len(out), False
            for i, w in enumerate(out):
                if _truth(v == w):
                    dup = True
                    break
                if _truth(v < w):
                    pos = i
                    break
            if not dup:
                out.insert(pos, v)
        return realnp.array(out, dtype=object)

    def array_equal(self, a, b, **kw):
        if not (shim._is_obj(a) or shim._is_obj(b)):
            return realnp.array_equal(a, b, **kw)
        a = realnp.asarray(a, dtype=object)
        b = realnp.asarray(b, dtype=object)
        if a.shape != b.shape:
            return False
        for x, y in zip(a.flat, b.flat):
            if not _truth(shim._lift(x) == shim._lift(y)):
                self.trace.append(("array_equal", False))
                return False
        self.trace.append(("array_equal", True))
        return True

    def isclose(self, a, b, rtol=1e-05, atol=1e-08, equal_nan=False):
        """numpy's formula; every element is decided (forking through the path manager) so that the result is a real
        bool / bool array that can flow into any(), all(), argmax(), where() and comparisons like numpy's own result"""
        if not (shim._is_obj(a) or shim._is_obj(b)):
            return realnp.isclose(a, b, rtol=rtol, atol=atol, equal_nan=equal_nan)
        r = super().isclose(a, b, rtol=rtol, atol=atol)
        if isinstance(r, realnp.ndarray):
            out = realnp.empty(r.shape, dtype=bool)
            for idx in realnp.ndindex(r.shape):
                out[idx] = _truth(r[idx])
            return out
        return _truth(r)

    def any(self, a, *args, **kw):
        return realnp.any(a, *args, **kw)

    def allclose(self, a, b, rtol=1e-05, atol=1e-08, equal_nan=False):
        """all(isclose(a, b)) evaluated element by element with early exit (same value; avoids forking on the sign of
        differences that are never looked at)"""
        if not (shim._is_obj(a) or shim._is_obj(b)):
            return realnp.allclose(a, b, rtol=rtol, atol=atol, equal_nan=equal_nan)
        a2, b2 = realnp.broadcast_arrays(realnp.asarray(a, dtype=object), realnp.asarray(b, dtype=object))
        for idx in realnp.ndindex(a2.shape):
            if not _truth(self.isclose(a2[idx], b2[idx], rtol=rtol, atol=atol)):
                self.trace.append(("allclose", False))
                return False
        self.trace.append(("allclose", True))
        return True


RESET_HOOKS = []  # run at every ctx.reset, i.e. before each explored path / translator validation


def track_module_state(mod):
    """Every explored path models a fresh process: module-level mutable containers (caches, registries) of the analysed
    module are put back to their import-time content before each path.  State that one object leaves behind for the
    next one *within* a path is what the sequence cases examine."""
    import copy

    if getattr(mod, "_symx_state_tracked", False):
        return
    snap = {}
    for name, val in vars(mod).items():
        if name.startswith("__"):
            continue
        if isinstance(val, (list, dict, set)):
            try:
                snap[name] = copy.copy(val)
            except Exception:
                pass

    def restore():
        for name, val in snap.items():
            cur = getattr(mod, name, None)
            if type(cur) is type(val):
                cur.clear()
                (cur.extend if isinstance(cur, list) else cur.update)(val)
            else:
                setattr(mod, name, copy.copy(val))
        for name, val in list(vars(mod).items()):  # containers created after import (there are none at import time)
            if not name.startswith("__") and name not in snap and isinstance(val, (list, dict, set)) and not name.startswith("_symx"):
                val.clear()

    mod._symx_state_tracked = True
    RESET_HOOKS.append(restore)


def load():
    np_ = NP()
    ip = sym_module("eko.interpolation", np=np_)
    track_module_state(ip)
    _install_memo()
    return ip, np_


# ---------------------------------------------------------------------------
# path exploration: the engine's DFS, with two cost savers that do not change any query's meaning
#  * poly -> z3 term translation memoised per path (the context is rebuilt for every query)
#  * a decision for which the solver proved the other branch infeasible is implied by the context,
#    so it is not appended to the path condition
# ---------------------------------------------------------------------------
_MEMO = {}
_orig_poly_to_z3 = S.poly_to_z3


def _poly_to_z3_memo(p):
    k = p.key()
    r = _MEMO.get(k)
    if r is None:
        r = _MEMO[k] = _orig_poly_to_z3(p)
    return r


def _install_memo():
    if S.poly_to_z3 is _poly_to_z3_memo:
        return
    S.poly_to_z3 = _poly_to_z3_memo
    inner = ctx.reset

    def reset():
        _MEMO.clear()
        inner()
        for h in RESET_HOOKS:
            h()

    ctx.reset = reset


class PM(S.PathManager):
    def decide(self, b):
        if self.pos < len(self.prefix):
            choice, forced = self.prefix[self.pos]
        else:
            zb = S.symbool_to_z3(b)
            base = S.context_constraints(include_nonzero=True)
            rt, _m, _ = S.check(base + [zb], self.timeout_ms)
            rf, _m, _ = S.check(base + [z3.Not(zb)], self.timeout_ms)
            if rt == "unknown" or rf == "unknown":
                self.unknown_feas += 1
            t_ok, f_ok = rt != "unsat", rf != "unsat"
            forced = not (t_ok and f_ok)
            if t_ok and f_ok:
                self.forks += 1
                self.pending.append(list(self.trace) + [(False, False)])
                choice = True
            elif t_ok:
                choice = True
            elif f_ok:
                choice = False
            else:
                raise EngineError("infeasible path reached (contradictory assumptions)")
        self.trace.append((choice, forced))
        self.pos += 1
        if not forced:
            self.pc.append(b if choice else b.negate())
        return choice


def explore(fn, max_paths=512, timeout_ms=5000):
    _install_memo()
    pm = PM(max_paths, timeout_ms)
    return pm.explore(fn), pm


# ---------------------------------------------------------------------------
# bounded replay effort: one replayed counterexample per (case, key) is enough
# ---------------------------------------------------------------------------
_STATE = {}


def _marker(key):
    import hashlib
    import os

    return "/tmp/symx_viol_%d_%s" % (os.getppid(), hashlib.sha1(key.encode()).hexdigest()[:12])


def clear_markers():
    """called by main() before and after the run (the case workers are its children)"""
    import glob
    import os

    for f in glob.glob("/tmp/symx_viol_%d_*" % os.getpid()):
        try:
            os.unlink(f)
        except OSError:
            pass


def decide(log, v, key, **kw):
    """log.decide with bounded replay effort.  One replayed counterexample per key and run is enough (the framework
    reports violations per key): once `key` has a replayed violation in this case or in a sibling case of the same run
    (marker file), or two failed obligations of this case found no reproducing candidate, further failing obligations
    of the same key are recorded as open obligations without new replay runs."""
    import os

    if v.holds:
        return log.decide(v, key=key, **kw)
    st = _STATE.setdefault(id(log), {"violated": set(), "failed": {}})
    if key in st["violated"] or st["failed"].get(key, 0) >= 2 or os.path.exists(_marker(key)):
        log.obligations.append({"case": log.case, "what": v.what, "status": v.status, "time_s": round(v.time, 4), "residual_terms": v.nterms,
                                "note": "same key already replayed as a violation in this run" if key in st["violated"] or os.path.exists(_marker(key)) else "no reproducing candidate"})
        return False
    nv = len(log.violations)
    ok = log.decide(v, key=key, **kw)
    if len(log.violations) > nv:
        st["violated"].add(key)
        try:
            open(_marker(key), "w").close()
        except OSError:
            pass
    else:
        st["failed"][key] = st["failed"].get(key, 0) + 1
    return ok


# ---------------------------------------------------------------------------
# symbolic grids
# ---------------------------------------------------------------------------
class LogAxioms:
    """Instances of 'ln is strictly increasing' between every pair of points whose logarithm occurs."""

    def __init__(self):
        self.pairs = []

    def add(self, x, lx):
        for (y, ly) in self.pairs:
            d = S.poly_to_z3((x - y).v.n)
            dl = S.poly_to_z3((lx - ly).v.n)
            assume_z3(z3.And((d < 0) == (dl < 0), (d == 0) == (dl == 0)))
        self.pairs.append((x, lx))
        return lx


def sym_nodes(n, mode):
    xs = [SR.var("x%d" % i) for i in range(n)]
    assume(xs[0], ">0" if mode else ">=0")
    for i in range(n - 1):
        assume(xs[i + 1] - xs[i], ">0")
    return xs


def build(ip, n, deg, mode, mode_N=False, raw_input=False):
    """Real XGrid.__init__ + InterpolatorDispatcher.__init__ on n symbolic sorted nodes."""
    eps = ip._atol_eps
    xs = sym_nodes(n, mode)
    ax = LogAxioms()
    if raw_input:  # plain sequence: the dispatcher builds XGrid(xgrid) itself (log=True by default)
        assert mode
        d = ip.InterpolatorDispatcher(list(xs), deg, mode_N=mode_N)
        xg = d.xgrid
    else:
        xg = ip.XGrid(list(xs), log=mode)
        d = None
    us = list(xg.grid)
    if mode:
        for x, u in zip(xs, us):
            ax.add(x, u)
    for i in range(n - 1):  # node spacing above the absolute comparison tolerance of evaluate_x
        assume(us[i + 1] - us[i] - eps, ">0")
    if d is None:
        d = ip.InterpolatorDispatcher(xg, deg, mode_N=mode_N)
    return xs, us, xg, d, ax


def point_in(name, k, xs, us, mode, ax, eps, n):
    """symbolic point in (u_k, u_{k+1}] (interpolation variable u), outside the tolerance window below u_{k+1}"""
    x = SR.var(name)
    u = ax.add(x, x.log()) if mode else x
    assume(u - us[k], ">0")
    if k < n - 2:
        assume(us[k + 1] - u - eps, ">=0")
    else:
        assume(us[k + 1] - u, ">=0")
    return x, u


def point_anywhere(name, xs, us, mode, ax, eps, n):
    """symbolic point in [u_0, u_{n-1}] outside every tolerance window (u_k - eps, u_k), 0 < k < n-1"""
    x = SR.var(name)
    u = ax.add(x, x.log()) if mode else x
    assume(u - us[0], ">=0")
    assume(us[n - 1] - u, ">=0")
    for k in range(1, n - 1):
        # not (u_k - eps < u < u_k)
        a = S.poly_to_z3((u - us[k] + eps).v.n)
        b = S.poly_to_z3((u - us[k]).v.n)
        assume_z3(z3.Or(a <= 0, b >= 0))
    return x, u


# ---------------------------------------------------------------------------
# cases
# ---------------------------------------------------------------------------
def _tiny_grids(n):
    """valid grids whose first points are only a few 1e-9 apart (x_min ~ 1e-9)"""
    head = [Fraction(1, 10**9), Fraction(3, 10**9), Fraction(8, 10**9)]
    out = []
    for h in (3, 2):
        h = min(h, n)
        rest = n - h
        xs = head[:h] + [Fraction(float(10 ** (-6 + 6 * (i + 1) / rest))).limit_denominator(10**12) for i in range(rest)]
        out.append({"x%d" % i: v for i, v in enumerate(xs)})
    return out


def _valid_rejected(log, e, n, deg, mode, mode_N=False):
    """the constructor raised ValueError on a sorted grid of distinct points with an admissible degree (on this path)"""
    v = prove_formula(z3.BoolVal(False), "a sorted grid of %d distinct points with degree %d is accepted (constructor raised ValueError: %s)" % (n, deg, str(e)[:80]))
    cands = _tiny_grids(n) + ([v.model] if v.model else [])
    v.model = None
    decide(log, v, key="InterpolatorDispatcher.__init__:valid-input-rejected", replay=(MOD, "replay_accept", {"mode": mode, "n": n, "deg": deg, "mode_N": mode_N}),
           sampler=_sampler(n, mode), candidates=cands)
    log.twin("sorted grid")


def case_basis(log, mode, n, deg, mode_N=False, raw_input=False):
    ip, _np = load()
    log.encode(ip.XGrid.__init__, ip.InterpolatorDispatcher.__init__, ip.BasisFunction.__init__, ip.Area.__init__, ip.Area._compute_coefs,
               ip.BasisFunction.areas_to_const, ip.BasisFunction.evaluate_x, ip.evaluate_x, ip.log_evaluate_x)
    eps = ip._atol_eps
    kw = {"mode": mode, "n": n, "deg": deg, "mode_N": mode_N}

    def run():
        try:
            xs, us, xg, d, ax = build(ip, n, deg, mode, mode_N, raw_input)
        except ValueError as e:
            _valid_rejected(log, e, n, deg, mode, mode_N)
            return
        # -- interior of every interval
        for k in range(n - 1):
            x, u = point_in("xe%d" % k, k, xs, us, mode, ax, eps, n)
            vals = [bf.evaluate_x(x) for bf in d]
            for m in range(deg + 1):
                tot = -(u**m)
                for v, uj in zip(vals, us):
                    tot = tot + v * uj**m
                what = ("sum_j p_j(x) == 1" if m == 0 else "sum_j p_j(x) u_j^%d == u(x)^%d" % (m, m)) + " on (x%d, x%d]" % (k, k + 1)
                v = prove_zero(tot, what)
                decide(log, v, key="evaluate_x:partition" if m == 0 else "evaluate_x:reproduce",
                           replay=(MOD, "replay_basis", dict(kw, k=k, m=m)), sampler=_sampler(n, mode))
        # -- nodes
        for k in range(n):
            vals = [bf.evaluate_x(xs[k]) for bf in d]
            for j, v in enumerate(vals):
                ver = prove_zero(v - (1 if j == k else 0), "p_%d(x%d) == %d" % (j, k, j == k))
                decide(log, ver, key="evaluate_x:cardinal", replay=(MOD, "replay_node", dict(kw, j=j, k=k)), sampler=_sampler(n, mode))
        log.twin("sorted grid")
        log.collect_ctx()

    _r, pm = explore(run)
    log.path_stats(pm)
    _validate_basis(log, ip, n, deg, mode, mode_N)


def case_reinterp(log, mode, n, deg, free, generic=0):
    """get_interpolation on a symbolic target grid.
    generic > 0: that many targets anywhere in [x_0, x_{n-1}] (length != n: no early exit possible).
    else: target grid of length n equal to the nodes except at the indices in `free`, where the target is a
    fresh symbol between the neighbouring nodes -> the np.allclose early exit is reachable."""
    ip, np_ = load()
    log.encode(ip.InterpolatorDispatcher.get_interpolation, ip.InterpolatorDispatcher.__init__, ip.BasisFunction.evaluate_x,
               ip.evaluate_x, ip.log_evaluate_x, ip.Area._compute_coefs, ip.XGrid.__init__)
    eps = ip._atol_eps
    def run():
        try:
            xs, us, xg, d, ax = build(ip, n, deg, mode, False)
        except ValueError as e:
            _valid_rejected(log, e, n, deg, mode)
            return
        if generic:
            tnames, ts, tus = [], [], []
            for i in range(generic):
                t, tu = point_anywhere("t%d" % i, xs, us, mode, ax, eps, n)
                tnames.append("t%d" % i)
                ts.append(t)
                tus.append(tu)
        else:
            tnames, ts, tus = [], [], []
            for i in range(n):
                if i in free:
                    t = SR.var("t%d" % i)
                    tu = ax.add(t, t.log()) if mode else t
                    lo, hi = max(i - 1, 0), min(i + 1, n - 1)
                    assume(tu - us[lo], ">=0" if lo == i else ">0")
                    assume(us[hi] - tu, ">=0" if hi == i else ">0")
                    # outside the evaluate_x tolerance windows below u_i and u_{i+1}
                    for k in (i, i + 1):
                        if 1 <= k <= n - 2:
                            a = S.poly_to_z3((tu - us[k] + eps).v.n)
                            b = S.poly_to_z3((tu - us[k]).v.n)
                            assume_z3(z3.Or(a <= 0, b >= 0))
                    tnames.append("t%d" % i)
                else:
                    t, tu = xs[i], us[i]
                    tnames.append("x%d" % i)
                ts.append(t)
                tus.append(tu)
        del np_.trace[:]
        R = d.get_interpolation(list(ts))
        early = any(tag in ("allclose", "array_equal") and res for tag, res in np_.trace)
        key = KEY_EXIT if early else "get_interpolation:reproduce"
        for i in range(len(ts)):
            if not generic and i not in free and not early:
                continue  # rows at exact nodes are the cardinality goals of case_basis
            for m in range(deg + 1):
                tot = -(tus[i] ** m)
                for j in range(n):
                    tot = tot + R[i][j] * us[j] ** m
                what = "row %d of get_interpolation reproduces u^%d%s" % (i, m, " (early-exit branch: targets 'close' to the nodes)" if early else "")
                v = prove_zero(tot, what)
                cands = ()
                if not v.holds:  # try the grid reaching x = 1e-9 (targets within 5e-9 of a node) first, then the solver's own model
                    cands = _close_candidates(n, tnames) + ([v.model] if v.model else [])
                    v.model = None
                decide(log, v, key=key, replay=(MOD, "replay_reinterp", {"mode": mode, "n": n, "deg": deg, "tnames": tnames, "m": m}),
                       sampler=_sampler(n, mode, tnames), candidates=cands)
        log.twin("sorted grid + targets")
        log.collect_ctx()

    _r, pm = explore(run, max_paths=2000)
    log.path_stats(pm)
    if generic:
        _validate_reinterp(log, ip, n, deg, mode)


def case_sequence(log, mode, n, deg, i, deg2=None, mode_N=False):
    """State across objects: a dispatcher A is built on the grid x, then a dispatcher B in the same process on the grid y
    that equals x except at node i, where y_i is a free symbol between the neighbouring nodes (it may be arbitrarily
    close to x_i, or equal to it); deg2: B has another degree (then on the identical grid).  B must be the basis of ITS
    grid (cardinal at its nodes, partition of unity / polynomial reproduction next to y_i), and A must be unchanged."""
    ip, _np = load()
    log.encode(ip.InterpolatorDispatcher.__init__, ip.XGrid.__init__, ip.XGrid.__eq__, ip.BasisFunction.__init__, ip.BasisFunction.evaluate_x, ip.evaluate_x)
    eps = ip._atol_eps
    dB = deg if deg2 is None else deg2
    kw = {"mode": mode, "n": n, "deg": deg, "i": i, "deg2": deg2, "mode_N": mode_N}
    key = "InterpolatorDispatcher:state-across-instances"

    def run():
        try:
            xs, us, xg, A, ax = build(ip, n, deg, mode, mode_N)
        except ValueError as e:
            _valid_rejected(log, e, n, deg, mode, mode_N)
            return
        ys = list(xs)
        if deg2 is None:
            y = SR.var("y%d" % i)
            ys[i] = y
            lo, hi = max(i - 1, 0), min(i + 1, n - 1)
            if lo < i:
                assume(y - xs[lo], ">0")
            else:
                assume(y, ">0" if mode else ">=0")
            if hi > i:
                assume(xs[hi] - y, ">0")
        yg = ip.XGrid(list(ys), log=mode)
        vs = list(yg.grid)
        if mode:
            for a, b in zip(ys, vs):
                if not any(a is c for c, _ in ax.pairs):
                    ax.add(a, b)
        for a, b in zip(vs, vs[1:]):
            assume(b - a - eps, ">0")
        B = ip.InterpolatorDispatcher(yg, dB, mode_N=mode_N)
        cands = _seq_candidates(n, i)
        smp = _seq_sampler(n, mode, i)
        # B cardinal at its own nodes
        for k in range(n):
            vals = [bf.evaluate_x(ys[k]) for bf in B]
            for j, v in enumerate(vals):
                ver = prove_zero(v - (1 if j == k else 0), "second dispatcher (built after one on a neighbouring grid): p_%d(y_%d) == %d" % (j, k, j == k))
                decide(log, ver, key=key, replay=(MOD, "replay_sequence", kw), sampler=smp, candidates=cands)
        # B: partition of unity / reproduction on the interval(s) touching y_i
        for k in sorted({max(i - 1, 0), min(i, n - 2)}):
            x, u = point_in("xe%d" % k, k, ys, vs, mode, ax, eps, n)
            vals = [bf.evaluate_x(x) for bf in B]
            for m in range(dB + 1):
                tot = -(u**m)
                for v, uj in zip(vals, vs):
                    tot = tot + v * uj**m
                ver = prove_zero(tot, "second dispatcher: sum_j p_j(x) u_j^%d == u(x)^%d on (y%d, y%d]" % (m, m, k, k + 1))
                decide(log, ver, key=key, replay=(MOD, "replay_sequence", kw), sampler=smp, candidates=cands)
        # A untouched by the construction of B
        for k in sorted({i, 0, n - 1}):
            vals = [bf.evaluate_x(xs[k]) for bf in A]
            for j, v in enumerate(vals):
                ver = prove_zero(v - (1 if j == k else 0), "first dispatcher after the second was built: p_%d(x_%d) == %d" % (j, k, j == k))
                decide(log, ver, key=key, replay=(MOD, "replay_sequence", kw), sampler=smp, candidates=cands)
        log.twin("two sorted grids")
        log.collect_ctx()

    _r, pm = explore(run, max_paths=1000)
    log.path_stats(pm)


def _seq_candidates(n, i):
    """grid reaching x = 1e-9; the second grid moves node i by a few 1e-9 (i = 0) resp. by 5e-9 / a relative 5e-6"""
    xs = [Fraction(float(10 ** (-9 * (n - 1 - k) / (n - 1)))).limit_denominator(10**15) for k in range(n)]
    out = []
    for y in ([xs[0] * 3] if i == 0 else [xs[i] - min(Fraction(5, 10**9), (xs[i] - xs[i - 1]) / 2), xs[i] * (1 - Fraction(5, 10**6))]):
        p = {"x%d" % k: v for k, v in enumerate(xs)}
        p["y%d" % i] = y
        out.append(p)
    return out


def _seq_sampler(n, mode, i):
    def s(rng):
        p = _sampler(n, mode)(rng)
        xs = [p["x%d" % k] for k in range(n)]
        lo = xs[i - 1] if i > 0 else xs[0] / 2
        hi = xs[i + 1] if i < n - 1 else xs[-1]
        p["y%d" % i] = lo + (hi - lo) * Fraction(rng.randint(100, 900), 1000)
        return p

    return s


class _Reached(Exception):
    pass


class _ZDeg(ZInt):
    """symbolic polynomial degree: comparisons fork; reaching the block construction means 'accepted'"""

    def __floordiv__(self, o):
        raise _Reached()


def case_reject_degree(log, mode, n):
    ip, _np = load()
    log.encode(ip.InterpolatorDispatcher.__init__)
    seen = set()

    def run():
        xs = sym_nodes(n, mode)
        try:
            xg = ip.XGrid(list(xs), log=mode)
        except ValueError as e:
            _valid_rejected(log, e, n, 1, mode)
            return
        deg = _ZDeg("deg")
        assume_z3(deg >= -3)
        assume_z3(deg <= n + 3)
        try:
            ip.InterpolatorDispatcher(xg, deg)
            raise EngineError("symbolic degree went through the block construction")
        except ValueError:
            rejected = True
        except (_Reached, TypeError):  # arithmetic on the symbolic degree: the sanity checks are behind us
            rejected = False
        bad = z3.Or(deg.e < 1, deg.e >= n)
        log.twin("degree range")  # (before the concrete constructions below add their non-zero denominators to the context)
        if rejected:
            v = prove_formula(bad, "%d nodes: ValueError from the sanity checks => degree < 1 or >= len(grid)" % n)
            decide(log, v, key="InterpolatorDispatcher.__init__:degree-check", replay=(MOD, "replay_reject_degree", {"mode": mode, "n": n}),
                   candidates=[{"deg": str(k)} for k in range(-1, n + 2)])
        else:
            # the sanity checks were passed with the degree still symbolic: finish the construction for every integer
            # value the path condition allows (finite), on the symbolic grid
            base = S.context_constraints()
            for k in range(-3, n + 4):
                if S.check(base + [deg.e == k])[0] != "sat":
                    continue
                seen.add(k)
                try:
                    ip.InterpolatorDispatcher(xg, k)
                    ok_k = True
                except ValueError:
                    ok_k = False
                except (ZeroDivisionError, IndexError, TypeError):
                    ok_k = True  # not rejected by a ValueError: the construction went on and broke down later
                v = prove_formula(z3.BoolVal(ok_k == (1 <= k <= n - 1)), "%d nodes, degree %d (passes the sanity checks): constructor %s, expected %s"
                                  % (n, k, "succeeds" if ok_k else "raises ValueError", "success" if 1 <= k <= n - 1 else "ValueError"))
                decide(log, v, key="InterpolatorDispatcher.__init__:degree-check", replay=(MOD, "replay_reject_degree", {"mode": mode, "n": n}),
                       candidates=[{"deg": str(k)}])

    _r, pm = explore(run)
    log.path_stats(pm)
    if pm.paths < 3 or not set(range(1, n)) <= seen:
        log.inconclusive.append("degree check: expected 3 paths (too small / too large / accepted) covering degrees 1..%d, explored %d paths, degrees %r" % (n - 1, pm.paths, sorted(seen)))


def case_reject_duplicates(log, mode, n):
    """XGrid on n positive symbols in arbitrary order (np.unique by its contract): rejected <=> n < 2 or two equal."""
    ip, _np = load()
    log.encode(ip.XGrid.__init__)
    seen = {"rej": 0, "acc": 0}

    def run():
        xs = [SR.var("x%d" % i) for i in range(n)]
        for x in xs:
            assume(x, ">0")
        try:
            xg = ip.XGrid(list(xs), log=mode)
            rejected = False
        except ValueError:
            rejected = True
        zs = [S.poly_to_z3(x.v.n) for x in xs]
        distinct = z3.And([zs[i] != zs[j] for i in range(n) for j in range(i + 1, n)] + [z3.BoolVal(True)])
        good = z3.And(distinct, z3.BoolVal(n >= 2))
        if rejected:
            seen["rej"] += 1
            v = prove_formula(z3.Not(good), "XGrid(%d points) raised => fewer than 2 points or a repeated point" % n)
        else:
            seen["acc"] += 1
            raw = list(xg.raw)
            sorted_ = z3.And([S.poly_to_z3((raw[i + 1] - raw[i]).v.n) > 0 for i in range(len(raw) - 1)] + [z3.BoolVal(len(raw) == n)])
            member = z3.And([z3.Or([S.poly_to_z3((r - x).v.n) == 0 for x in xs]) for r in raw] + [z3.BoolVal(True)])
            v = prove_formula(z3.And(good, sorted_, member), "XGrid(%d points) accepted => all distinct, stored grid is the sorted input" % n)
        decide(log, v, key="XGrid.__init__:uniqueness-check", replay=(MOD, "replay_reject_duplicates", {"mode": mode, "n": n}),
                   candidates=_dup_candidates(n))
        log.twin("positive points")

    _r, pm = explore(run, max_paths=1000)
    log.path_stats(pm)
    if n >= 2 and not (seen["rej"] and seen["acc"]):
        log.inconclusive.append("duplicates: both outcomes must be reachable, got %r" % seen)


# ---------------------------------------------------------------------------
# samplers / candidates
# ---------------------------------------------------------------------------
def _grid_point(rng, n, mode):
    xs, x = [], rnd(rng, 0.001, 0.05)
    for _ in range(n):
        xs.append(x)
        x = x + rnd(rng, 0.02, 0.3)
    top = xs[-1]
    if mode:
        xs = [v / top for v in xs]  # end at 1
    return xs


def _sampler(n, mode, tnames=()):
    def s(rng):
        xs = _grid_point(rng, n, mode)
        p = {"x%d" % i: v for i, v in enumerate(xs)}
        for k in range(n - 1):
            w = Fraction(rng.randint(100, 900), 1000)
            p["xe%d" % k] = xs[k] + (xs[k + 1] - xs[k]) * w
        for i, nm in enumerate(tnames):
            if nm.startswith("t"):
                w = Fraction(rng.randint(50, 950), 1000)
                if len(tnames) == n:
                    j = int(nm[1:])
                    lo, hi = max(j - 1, 0), min(j + 1, n - 1)
                    p[nm] = xs[lo] + (xs[hi] - xs[lo]) * w
                else:
                    p[nm] = xs[0] + (xs[-1] - xs[0]) * w
        return p

    return s


def _close_candidates(n, tnames):
    """grids reaching x = 1e-9 whose target differs from the node only far below 1e-8"""
    out = []
    xs = [Fraction(10) ** Fraction(-9 * (n - 1 - i), n - 1) if (9 * (n - 1 - i)) % (n - 1) == 0 else Fraction(float(10 ** (-9 * (n - 1 - i) / (n - 1)))).limit_denominator(10**15)
          for i in range(n)]
    p = {"x%d" % i: v for i, v in enumerate(xs)}
    for nm in tnames:
        if nm.startswith("t"):
            j = int(nm[1:])
            p[nm] = xs[j] + Fraction(5, 10**9) if j == 0 else xs[j] - min(Fraction(5, 10**9), (xs[j] - xs[j - 1]) / 2)
    out.append(p)
    return out


def _dup_candidates(n):
    out = []
    base = [Fraction(i + 1, 10) for i in range(n)]
    out.append({"x%d" % i: v for i, v in enumerate(base)})
    out.append({"x%d" % i: v for i, v in enumerate(reversed(base))})
    if n >= 2:
        for i in range(n - 1):
            b = list(base)
            b[i + 1] = b[i]
            out.append({"x%d" % k: v for k, v in enumerate(b)})
        b = list(base)
        b[-1] = b[0]
        out.append({"x%d" % k: v for k, v in enumerate(b)})
    return out


# ---------------------------------------------------------------------------
# translator validation
# ---------------------------------------------------------------------------
class _ConcretePath:
    """decides branches by evaluating the condition at a concrete point (no solver)"""

    def __init__(self, point):
        self.env = S.NumEnv(point)
        self.pc = []

    def decide(self, b):
        val = self.env.value(b.p)
        r = {"<0": val < 0, "<=0": val <= 0, ">0": val > 0, ">=0": val >= 0, "==0": val == 0, "!=0": val != 0}[b.rel]
        self.pc.append(b if r else b.negate())
        return bool(r)


def _validate_basis(log, ip, n, deg, mode, mode_N):
    real = real_module("eko.interpolation")
    for _ in range(2):
        pt = _sampler(n, mode)(log.rng)
        ctx.reset()
        ctx.path = _ConcretePath(pt)
        try:
            xs = [SR.var("x%d" % i) for i in range(n)]
            d = ip.InterpolatorDispatcher(ip.XGrid(list(xs), log=mode), deg, mode_N=mode_N)
            k = log.rng.randrange(n - 1)
            x = SR.var("xe%d" % k)
            sym = [S.NumEnv(pt).value(SR(0) + bf.evaluate_x(x)) for bf in d]
        finally:
            ctx.path = None
        f = fpoint(pt)
        rd = real.InterpolatorDispatcher(real.XGrid([f["x%d" % i] for i in range(n)], log=mode), deg, mode_N=mode_N)
        num = [bf.evaluate_x(f["xe%d" % k]) for bf in rd]
        for a, b in zip(sym, num):
            if abs(a - b) > 1e-8 * max(1, abs(b)):
                log.inconclusive.append("translator validation failed (basis, n=%d deg=%d log=%s): symbolic %s vs float %s" % (n, deg, mode, a, b))
        log.validate()
    ctx.reset()


def _validate_reinterp(log, ip, n, deg, mode):
    real = real_module("eko.interpolation")
    pt = _sampler(n, mode, ["t0", "t1"])(log.rng)
    ctx.reset()
    ctx.path = _ConcretePath(pt)
    try:
        xs = [SR.var("x%d" % i) for i in range(n)]
        d = ip.InterpolatorDispatcher(ip.XGrid(list(xs), log=mode), deg, mode_N=False)
        R = d.get_interpolation([SR.var("t0"), SR.var("t1")])
        sym = [[S.NumEnv(pt).value(SR(0) + e) for e in row] for row in R]
    finally:
        ctx.path = None
    f = fpoint(pt)
    rd = real.InterpolatorDispatcher(real.XGrid([f["x%d" % i] for i in range(n)], log=mode), deg, mode_N=False)
    num = rd.get_interpolation([f["t0"], f["t1"]])
    for i in range(2):
        for j in range(n):
            if abs(sym[i][j] - num[i][j]) > 1e-8 * max(1, abs(num[i][j])):
                log.inconclusive.append("translator validation failed (get_interpolation, n=%d deg=%d log=%s)" % (n, deg, mode))
    log.validate()
    ctx.reset()


# ---------------------------------------------------------------------------
# replays: real, unpatched eko.interpolation on floats; oracle = the defining property itself
# (direct evaluation of the monomial at the evaluation point), tolerance scaled by the conditioning
# of Lagrange interpolation on the grid
# ---------------------------------------------------------------------------
_EPS = 2.3e-15


def _f(v):
    """model values arrive as Fractions, floats or strings such as '1/1000000000'"""
    if isinstance(v, str):
        return float(Fraction(v.replace("?", "")))
    return float(v)


def _nodes(point, n, mode, min_gap=1e-9):
    import numpy as np

    try:
        xs = [_f(point["x%d" % i]) for i in range(n)]
    except (KeyError, ValueError, ZeroDivisionError):
        return None
    if mode and xs[0] <= 0:
        return None
    if xs[0] < 0:
        return None
    us = list(np.log(xs)) if mode else xs
    if any(b - a <= min_gap for a, b in zip(us, us[1:])) or any(b <= a for a, b in zip(xs, xs[1:])):
        return None
    return xs, us


def _scale(us, u, deg, m, j=None):
    """Rounding-noise scale of sum_j p_j(u) u_j^m evaluated through monomial coefficients, for any block of deg+1
    consecutive nodes that contains the interval of u: max_W sum_{j in W} |u_j|^m prod_{k != j} (|u|+|u_k|)/|u_j-u_k|.
    (Independent of the code under test; used only to scale the replay tolerance.)  j: only that basis function."""
    n = len(us)
    k = max(0, min(n - 2, max(i for i in range(n) if us[i] < u or i == 0)))
    if u <= us[0]:
        k = 0
    worst = 0.0
    for a in range(0, n - deg):
        if not (a <= k and a + deg >= k + 1):
            continue
        W = list(range(a, a + deg + 1))
        tot = 0.0
        for jj in W:
            if j is not None and jj != j:
                continue
            p = abs(us[jj]) ** m
            for kk in W:
                if kk != jj:
                    p *= (abs(u) + abs(us[kk])) / abs(us[jj] - us[kk])
            tot += p
        worst = max(worst, tot)
    return max(worst, abs(u) ** m, 1e-300)


def _in_window(us, u):
    return any(uk - _EPS < u < uk for uk in us[1:-1])


def replay_basis(point, mode, n, deg, k, m, mode_N=False):
    import numpy as np
    import eko.interpolation as ip

    g = _nodes(point, n, mode)
    if g is None or ("xe%d" % k) not in point:
        return None
    xs, us = g
    x = _f(point["xe%d" % k])
    if x <= 0 and mode:
        return None
    u = float(np.log(x)) if mode else x
    if not (us[k] < u <= us[k + 1]) or _in_window(us, u):
        return None
    d = ip.InterpolatorDispatcher(ip.XGrid(xs, log=mode), deg, mode_N=mode_N)
    ps = [float(bf.evaluate_x(x)) for bf in d]
    got = sum(p * uj**m for p, uj in zip(ps, us))
    want = u**m
    if abs(got - want) > 1e-8 * _scale(us, u, deg, m):
        return {"detail": "log=%s degree=%d grid=%r: sum_j p_j(x) u_j^%d = %r but u(x)^%d = %r at x=%r (basis values %r)" % (mode, deg, xs, m, got, m, want, x, ps)}
    return None


def replay_node(point, mode, n, deg, j, k, mode_N=False):
    import eko.interpolation as ip

    g = _nodes(point, n, mode)
    if g is None:
        return None
    xs, us = g
    d = ip.InterpolatorDispatcher(ip.XGrid(xs, log=mode), deg, mode_N=mode_N)
    got = float(d[j].evaluate_x(xs[k]))
    want = 1.0 if j == k else 0.0
    if abs(got - want) > 1e-8 * max(1.0, _scale(us, us[k], deg, 0)):
        return {"detail": "log=%s degree=%d grid=%r: p_%d(x_%d) = %r, expected %r" % (mode, deg, xs, j, k, got, want)}
    return None


def replay_reinterp(point, mode, n, deg, tnames, m):
    import numpy as np
    import eko.interpolation as ip

    g = _nodes(point, n, mode)
    if g is None or any(t not in point for t in tnames):
        return None
    xs, us = g
    ts = [_f(point[t]) for t in tnames]
    if any(t < xs[0] or t > xs[-1] for t in ts):
        return None
    tus = [float(np.log(t)) for t in ts] if mode else ts
    if any(_in_window(us, tu) for tu in tus):
        return None
    d = ip.InterpolatorDispatcher(ip.XGrid(xs, log=mode), deg, mode_N=False)
    R = np.asarray(d.get_interpolation(ts), dtype=float)
    for i, tu in enumerate(tus):
        got = float(sum(R[i][j] * us[j] ** m for j in range(n)))
        want = tu**m
        if abs(got - want) > 1e-8 * _scale(us, tu, deg, m):
            return {"detail": "log=%s degree=%d nodes=%r targets=%r: row %d of get_interpolation is %r; applied to u^%d on the nodes it gives %r, "
                              "but u(target)^%d = %r" % (mode, deg, xs, ts, i, list(R[i]), m, got, m, want)}
    return None


def replay_accept(point, mode, n, deg, mode_N=False):
    import eko.interpolation as ip

    g = _nodes(point, n, mode, min_gap=1e-13)
    if g is None:
        return None
    try:
        ip.InterpolatorDispatcher(ip.XGrid(g[0], log=mode), deg, mode_N=mode_N)
    except ValueError as e:
        return {"detail": "valid input rejected: grid %r (log=%s), degree %d -> ValueError: %s" % (g[0], mode, deg, e)}
    return None


def replay_sequence(point, mode, n, deg, i, deg2=None, mode_N=False):
    """real code: dispatcher on x, then (same process) dispatcher on y; the second one is compared with the defining
    properties of the Lagrange basis of ITS grid, the first one re-checked afterwards"""
    import numpy as np
    import eko.interpolation as ip

    g = _nodes(point, n, mode, min_gap=1e-13)
    if g is None:
        return None
    xs, us = g
    ys = list(xs)
    if deg2 is None:
        if ("y%d" % i) not in point:
            return None
        ys[i] = _f(point["y%d" % i])
    q = dict(point)
    q.update({"x%d" % k: v for k, v in enumerate(ys)})
    h = _nodes(q, n, mode, min_gap=1e-13)
    if h is None:
        return None
    ys, vs = h
    dB = deg if deg2 is None else deg2
    A = ip.InterpolatorDispatcher(ip.XGrid(xs, log=mode), deg, mode_N=mode_N)
    B = ip.InterpolatorDispatcher(ip.XGrid(ys, log=mode), dB, mode_N=mode_N)
    for name, D, nodes, ws, d in (("second", B, ys, vs, dB), ("first", A, xs, us, deg)):
        for k in range(n):
            for j in range(n):
                got = float(D[j].evaluate_x(nodes[k]))
                if abs(got - (j == k)) > 1e-8 * max(1.0, _scale(ws, ws[k], d, 0)):
                    return {"detail": "log=%s: dispatcher on %r (degree %d) then dispatcher on %r (degree %d) in the same process: the %s one has p_%d(node_%d) = %r, expected %d"
                                      % (mode, xs, deg, ys, dB, name, j, k, got, j == k)}
        for k in range(n - 1):
            u = 0.5 * (ws[k] + ws[k + 1])
            x = float(np.exp(u)) if mode else u
            ps = [float(bf.evaluate_x(x)) for bf in D]
            for m in range(d + 1):
                got = sum(p * wj**m for p, wj in zip(ps, ws))
                if abs(got - u**m) > 1e-8 * _scale(ws, u, d, m):
                    return {"detail": "log=%s: dispatcher on %r then on %r in the same process: the %s one gives sum_j p_j(x) u_j^%d = %r at x=%r, expected %r"
                                      % (mode, xs, ys, name, m, got, x, u**m)}
    return None


def replay_reject_degree(point, mode, n):
    import numpy as np
    import eko.interpolation as ip

    try:
        deg = int(str(point["deg"]))
    except (KeyError, ValueError):
        return None
    xg = ip.XGrid(np.geomspace(1e-3, 1.0, n), log=mode)
    try:
        ip.InterpolatorDispatcher(xg, deg)
        rejected = False
    except ValueError:
        rejected = True
    want = deg < 1 or n <= deg
    if rejected != want:
        return {"detail": "%d nodes, degree %d: %s, expected %s" % (n, deg, "rejected" if rejected else "accepted", "rejection" if want else "acceptance")}
    return None


def replay_reject_duplicates(point, mode, n):
    import eko.interpolation as ip

    try:
        xs = [_f(point["x%d" % i]) for i in range(n)]
    except (KeyError, ValueError):
        return None
    if any(x <= 0 for x in xs):
        return None
    try:
        xg = ip.XGrid(xs, log=mode)
        rejected = False
    except ValueError:
        rejected = True
    want = n < 2 or len(set(xs)) != n
    if rejected != want:
        return {"detail": "XGrid(%r): %s, expected %s" % (xs, "rejected" if rejected else "accepted", "rejection" if want else "acceptance")}
    if not rejected and list(xg.raw) != sorted(xs):
        return {"detail": "XGrid(%r).raw = %r is not the sorted input" % (xs, list(xg.raw))}
    return None


# ---------------------------------------------------------------------------
def main():
    chk = H.Check("C34")
    thorough = H.tier() == "thorough"
    chk.bounds = [
        "grids of n symbolic sorted nodes (all node positions at once), linear and logarithmic mode: quick n <= 6 with degree <= 3, thorough n <= 8 with degree <= 4 "
        "(every (n, degree) pair with degree < n in that range) plus degree 5 on 6 and 7 nodes (basis only)",
        "evaluation points: one symbolic point per grid interval (x_k, x_{k+1}] plus every node; target grids: 1-2 symbolic targets anywhere in [x_0, x_{n-1}] "
        "(length != n) and length-n target grids equal to the nodes except at 1-2 positions where the target is symbolic between the neighbouring nodes",
        "node spacing (in the interpolation variable x or ln x) above evaluate_x's absolute tolerance 10*eps = 2.2e-15",
        "state across objects: two dispatchers built one after the other in the same process, the second grid equal to the first except at one node whose position is a "
        "free symbol between its neighbours (or identical grid, other degree); n = 3..4 (thorough: up to 6); every explored path otherwise starts from the import-time module state",
        "rejections: degree a symbolic integer in [-3, n+3] for n = 2..5 nodes; XGrid on 0..3 (thorough: 4) positive symbolic points in arbitrary order",
    ]
    chk.out_of_claim = [
        "floating-point evaluation (the monomial-coefficient form of Area loses digits on clustered nodes)",
        "evaluation / target points inside the half-open window (u_k - 2.2e-15, u_k) below an interior node u_k (u = x or ln x): there evaluate_x's "
        "`j == 0 and |x - xmin| < _atol_eps` clause also fires for basis functions whose support starts at u_k, adding their polynomial (value O(2.2e-15/spacing), "
        "e.g. 1e-6 for a linear grid with spacing 1e-9); treated as rounding-level in the interpolation variable and excluded by assumption",
        "targets outside [x_0, x_{n-1}] (every basis function returns 0 there)",
        "make_grid / lambertgrid grid generators; grids larger than the bound, degree 5-6",
    ]
    chk.stubs = [
        "numpy.unique on a symbolic 1-d input: modelled by its contract (sorted distinct values) through solver-decided comparisons",
        "numpy.log on nodes/points: one interned atom per argument; axiom instances 'ln strictly increasing' (a<b <=> ln a<ln b, a=b <=> ln a=ln b) for all occurring pairs",
        "numpy.allclose / isclose: numpy's documented formula |a-b| <= atol + rtol*|b| with the defaults the code uses (rtol=1e-5, atol=1e-8)",
    ]
    chk.assumptions = ["floats in the source are read by the engine's float reading (symx.poly.tofrac)", "x_0 > 0 (log) / x_0 >= 0 (linear), nodes strictly increasing"]
    if thorough:
        pairs = [(n, d) for n in range(2, 9) for d in range(1, 5) if d < n] + [(6, 5), (7, 5)]
        rein = [(n, d) for n in (3, 4, 5, 6, 7, 8) for d in (1, 2, 3, 4) if d < n]
    else:
        pairs = [(2, 1), (3, 1), (3, 2), (4, 2), (4, 3), (5, 2), (5, 3), (6, 3), (6, 2)]
        rein = [(3, 1), (4, 2), (5, 3)]
    for mode in (True, False):
        tag = "log" if mode else "lin"
        for n, d in pairs:
            chk.case("basis.%s.n%d.deg%d" % (tag, n, d), case_basis, mode=mode, n=n, deg=d, mode_N=bool((n + d) % 2))
        for n, d in rein:
            chk.case("reinterp.generic.%s.n%d.deg%d" % (tag, n, d), case_reinterp, mode=mode, n=n, deg=d, free=[], generic=1 if n > 4 else 2)
            chk.case("reinterp.close.%s.n%d.deg%d" % (tag, n, d), case_reinterp, mode=mode, n=n, deg=d, free=[0] if not thorough else [0, n - 1])
        for n in (2, 3, 4, 5):
            chk.case("reject.degree.%s.n%d" % (tag, n), case_reject_degree, mode=mode, n=n)
        for n in range(0, 5 if thorough else 4):
            chk.case("reject.duplicates.%s.n%d" % (tag, n), case_reject_duplicates, mode=mode, n=n)
    seqs = [(True, 3, 1, 0, None, False), (False, 4, 2, 0, None, False), (True, 4, 2, 1, None, True), (True, 4, 2, 0, 1, False)]
    if thorough:
        seqs += [(True, 5, 3, 0, None, False), (False, 5, 2, 2, None, True), (True, 6, 3, 5, None, False), (False, 3, 1, 2, None, False), (False, 5, 3, 0, 2, False),
                 (True, 6, 2, 1, None, False)]
    for mode, n, d, i, d2, mN in seqs:
        chk.case("sequence.%s.n%d.deg%d.node%d%s" % ("log" if mode else "lin", n, d, i, "" if d2 is None else ".deg%d" % d2), case_sequence,
                 mode=mode, n=n, deg=d, i=i, deg2=d2, mode_N=mN)
    chk.case("basis.rawinput.n4.deg2", case_basis, mode=True, n=4, deg=2, mode_N=True, raw_input=True)
    import eko.interpolation  # noqa: F401  imported once here (fresh per run); the forked case workers rebind its globals
    clear_markers()
    try:
        return chk.run()
    finally:
        clear_markers()


if __name__ == "__main__":
    import sys

    sys.exit(main())
