"""C44  Products of EKOs compose in evolution order.

Real functions executed symbolically: ekobox.utils.ekos_product and eko.io.struct.EKO.approx (module globals `np`
rebound to the shim; |x| is an algebraic atom a>=0, a^2=x^2, so no forking on signs).  The two EKOs are duck-typed
in-memory stand-ins (iteration, items, __getitem__/__setitem__/__contains__, operator_card.init, deepcopy/edit/close
on an in-memory "disk"); `approx` is the real method of eko.io.struct.EKO.

Convention (eko.runner.operators.join / ekobox.apply): O[out_pid, out_x, in_pid, in_x], evolution "first A then B"
is the contraction  (B.A)[a,j,c,l] = sum_{b,k} B[a,j,b,k] A[b,k,c,l]; joining errors: |B|.|dA| + |dB|.|A|.

Goals, for every target t of the second EKO that is not already a target of the first one
  value     product[t].operator == B_t . A              (A = operator of the first EKO at the matched point)
  error     product[t].error    == |B_t|.|dA| + |dB_t|.|A|   (None if either error is missing)
  match     the first EKO's point is selected iff numpy-isclose(init_2^2, mu^2; rtol, atol) holds for exactly one stored
            point of the same nf; none -> ValueError; the rtol/atol arguments are honoured
  storage   other operators untouched; with path=... the first EKO is unchanged, the copy is closed and equals what the
            in-place variant produces
"""
import itertools
from fractions import Fraction

import numpy as rnp
import z3

from .common import *  # noqa
from ._ekobox import explore, cleanup_markers, symarr, prove_all_zero, prove_concrete, getv, decide, lift, sabs, AbsNumpy
from symx.solver import prove_zero, prove_formula
from symx import harness as H

MOD = "harness.C44"
INI_EPS = [(100.0, 5), (25.0, 4)]
FIN_EPS = [(144.0, 5), (400.0, 6), (25.0, 4)]  # the last one is already a target of the first EKO
RTOL, ATOL = 1e-3, 0.5  # deliberately not the defaults, to see that they are passed on


def _fr(x):
    """a float literal as the rational the engine reads it as"""
    from symx.poly import tofrac

    return Fraction(tofrac(float(x)))


class DecidingNumpy(AbsNumpy):
    """isclose decides every element (forking through the path manager) so that the result can index an array"""

    def isclose(self, a, b, rtol=1e-05, atol=1e-08, equal_nan=False):
        r = super().isclose(a, b, rtol=rtol, atol=atol, equal_nan=equal_nan)
        if isinstance(r, rnp.ndarray) and r.dtype == object:
            return rnp.array([bool(e) for e in r.flat], dtype=bool).reshape(r.shape)
        return r


class _NS:
    def __init__(self, **kw):
        self.__dict__.update(kw)


DISK = {}


def _mk_mem_class(approx):
    class MemEKO:
        """in-memory stand-in for eko.io.struct.EKO (only what ekos_product touches)"""

        def __init__(self, ops, init):
            self.ops = dict(ops)
            self.operator_card = _NS(init=init)
            self.closed = False
            self.writes = []

        def __iter__(self):
            return iter(list(self.ops))

        def items(self):
            for ep in list(self.ops):
                yield ep, self.ops[ep]

        def __getitem__(self, ep):
            return self.ops[(float(ep[0]), int(ep[1]))]

        def __setitem__(self, ep, op):
            self.writes.append(ep)
            self.ops[(float(ep[0]), int(ep[1]))] = op

        def __contains__(self, ep):
            return (float(ep[0]), int(ep[1])) in self.ops

        def deepcopy(self, path):
            new = MemEKO(self.ops, self.operator_card.init)
            new.closed = True
            DISK[path] = new

        @classmethod
        def edit(cls, path):
            e = DISK[path]
            e.closed = False
            return e

        def close(self):
            self.closed = True

        def __enter__(self):
            return self

        def __exit__(self, *exc):
            self.close()
            return False

    MemEKO.approx = approx
    return MemEKO


def _oracle(A, dA, B, dB, d):
    """later . earlier with explicit loops (d = flattened (pid,x) dimension pairs)"""
    nf, nx = d
    val = rnp.empty((nf, nx, nf, nx), dtype=object)
    err = rnp.empty((nf, nx, nf, nx), dtype=object) if (dA is not None and dB is not None) else None
    for a, j, c, l in rnp.ndindex(nf, nx, nf, nx):
        tv, te = SR(QZERO), SR(QZERO)
        for b in range(nf):
            for k in range(nx):
                tv = tv + B[a, j, b, k] * A[b, k, c, l]
                if err is not None:
                    te = te + sabs(B[a, j, b, k]) * sabs(dA[b, k, c, l]) + sabs(dB[a, j, b, k]) * sabs(A[b, k, c, l])
        val[a, j, c, l] = tv
        if err is not None:
            err[a, j, c, l] = te
    return val, err


def _setup(utils, struct, d, err1, err2, init_scale):
    from eko.io.struct import Operator

    np_ = DecidingNumpy()
    utils.np = np_
    struct.np = np_
    Mem = _mk_mem_class(struct.EKO.approx)
    utils.EKO = Mem
    shape = (d[0], d[1], d[0], d[1])
    A = symarr("A", shape)
    dA = symarr("dA", shape) if err1 else None
    A2 = symarr("C", shape)  # the other operator of the first EKO
    Bs = [symarr("B%d" % t, shape) for t in range(len(FIN_EPS))]
    dBs = [symarr("dB%d" % t, shape) if err2 else None for t in range(len(FIN_EPS))]

    def mk():
        ini = Mem({INI_EPS[0]: Operator(A, dA), INI_EPS[1]: Operator(A2, None)}, init=(2.0, 4))
        fin = Mem({ep: Operator(Bs[t], dBs[t]) for t, ep in enumerate(FIN_EPS)}, init=(init_scale, 5))
        return ini, fin

    return mk, A, dA, A2, Bs, dBs


def case_product(log, d, err1, err2):
    utils = sym_module("ekobox.utils")
    struct = sym_module("eko.io.struct")
    log.encode(utils.ekos_product, struct.EKO.approx)
    rk = {"d": list(d), "err1": err1, "err2": err2}
    d = tuple(d)

    def run():
        DISK.clear()
        mk, A, dA, A2, Bs, dBs = _setup(utils, struct, d, err1, err2, 10.0)
        ini, fin = mk()
        utils.ekos_product(ini, fin)
        ini2, fin2 = mk()
        utils.ekos_product(ini2, fin2, path="copy.tar")
        cp = DISK.get("copy.tar")
        new = FIN_EPS[:2]
        ok = (list(ini.ops) == INI_EPS + new and ini.writes == new and ini.ops[INI_EPS[1]].operator is A2 and ini.ops[INI_EPS[0]].operator is A
              and ini.ops[INI_EPS[0]].error is dA and not ini.closed)
        v = prove_concrete(ok, "in place: exactly the new targets of the second EKO are added to the first, existing operators untouched")
        decide(log, v, key="ekos_product:storage", replay=(MOD, "replay_product", rk), sampler=_sampler)
        ok = (cp is not None and cp.closed and list(cp.ops) == INI_EPS + new and cp.writes == new and list(ini2.ops) == INI_EPS and not ini2.writes
              and all(fin_.writes == [] and list(fin_.ops) == FIN_EPS for fin_ in (fin, fin2)))
        v = prove_concrete(ok, "with path: result written to the copy (closed afterwards), first and second EKO unchanged")
        decide(log, v, key="ekos_product:copy-storage", replay=(MOD, "replay_product", rk), sampler=_sampler)
        if cp is None:
            return
        for t, ep in enumerate(new):
            got = ini.ops.get(ep)
            want_v, want_e = _oracle(A, dA, Bs[t], dBs[t], d)
            if got is None or tuple(rnp.shape(got.operator)) != want_v.shape:
                v = prove_concrete(False, "product operator for target %r has the operator shape" % (ep,))
                decide(log, v, key="ekos_product:order", replay=(MOD, "replay_product", rk), sampler=_sampler)
                continue
            v = prove_all_zero([got.operator[i] - want_v[i] for i in rnp.ndindex(want_v.shape)],
                               "target %r: product == (second).(first), i.e. sum_bk B[a,j,b,k] A[b,k,c,l]  (dims %r)" % (ep, d))
            decide(log, v, key="ekos_product:order", replay=(MOD, "replay_product", rk), sampler=_sampler)
            if want_e is None:
                v = prove_concrete(got.error is None, "target %r: no error when one of the factors has none" % (ep,))
            elif got.error is None:
                v = prove_concrete(False, "target %r: error present when both factors have one" % (ep,))
            else:
                v = prove_all_zero([got.error[i] - want_e[i] for i in rnp.ndindex(want_e.shape)],
                                   "target %r: error == |B|.|dA| + |dB|.|A|  (rule of eko.runner.operators._dotop)" % (ep,))
            # 1x1 operators commute: there the error rule is checked independently of the contraction order
            decide(log, v, key="ekos_product:error-abs" if d == (1, 1) else "ekos_product:error", replay=(MOD, "replay_product", dict(rk, what="error")), sampler=_sampler)
            other = cp.ops.get(ep)
            same = other is not None and (other.error is None) == (got.error is None)
            diffs = [] if not same else [got.operator[i] - other.operator[i] for i in rnp.ndindex(want_v.shape)]
            if same and got.error is not None:
                diffs += [got.error[i] - other.error[i] for i in rnp.ndindex(want_v.shape)]
            v = prove_all_zero(diffs, "target %r: in-place and copy variants agree" % (ep,)) if same else prove_concrete(False, "in-place and copy variants agree")
            decide(log, v, key="ekos_product:copy-equal", replay=(MOD, "replay_product", dict(rk, what="copy")), sampler=_sampler)
        log.twin("domain")
        log.collect_ctx()

    _r, pm = explore(run)
    log.path_stats(pm)
    _validate(log, d)


def case_match(log, stored, mode):
    """matching of the second EKO's initial point, in place (mode 'inplace') or written to a new archive (mode 'path'):
    initial scale m of the second EKO, rtol and atol all symbolic; `stored` = mu^2 values (nf=5) of the first EKO.
    Both modes are held against the same formula, hence take the same accept / refuse decision and give the same product."""
    utils = sym_module("ekobox.utils")
    struct = sym_module("eko.io.struct")
    log.encode(utils.ekos_product, struct.EKO.approx)
    from eko.io.struct import Operator

    outcomes = {}
    rk = {"stored": list(stored), "mode": mode}
    sampler = _mk_sampler_m(stored)

    def run():
        DISK.clear()
        np_ = DecidingNumpy()
        utils.np = np_
        struct.np = np_
        Mem = _mk_mem_class(struct.EKO.approx)
        utils.EKO = Mem
        m, rtol, atol = SR.var("m"), SR.var("rtol"), SR.var("atol")
        assume(m, ">0")
        assume(rtol, ">=0")
        assume(atol, ">=0")
        assume(1 - rtol, ">0")
        shape = (1, 1, 1, 1)  # 1x1 operators commute: the matching logic is checked independently of the contraction order
        As = [symarr("A%d" % i, shape) for i in range(len(stored))]
        ops = {(s, 5): Operator(As[i], None) for i, s in enumerate(stored)}
        Cop = symarr("C", shape)
        ops[(stored[0], 4)] = Operator(Cop, None)  # same scale, other nf: must never match
        ini = Mem(ops, init=(1.0, 3))
        B = symarr("B", shape)
        fin = Mem({(900.0, 5): Operator(B, None)}, init=(m, 5))
        try:
            if mode == "path":
                utils.ekos_product(ini, fin, rtol=rtol, atol=atol, path="copy.tar")
            else:
                utils.ekos_product(ini, fin, rtol=rtol, atol=atol)
            res = "ok"
        except ValueError as e:
            res = "multiple" if "Multiple" in str(e) else "nomatch"
        zm, zr, za = z3.Real("m"), z3.Real("rtol"), z3.Real("atol")
        conds = []
        for s in stored:
            zs = z3.RealVal(str(_fr(s)))
            tol = za + zr * z3.RealVal(str(abs(_fr(s))))
            conds.append(z3.And(zm * zm - zs <= tol, zs - zm * zm <= tol))
        cnt = z3.Sum([z3.If(c, 1, 0) for c in conds])
        goal = {"ok": cnt == 1, "multiple": cnt >= 2, "nomatch": cnt == 0}[res]
        v = prove_formula(goal, "%s: outcome '%s' iff %s stored point(s) of the same nf satisfy |m^2 - mu^2| <= atol + rtol*|mu^2| with the rtol, atol passed by the caller (symbolic)"
                          % (mode, res, {"ok": "exactly one", "multiple": "two or more", "nomatch": "no"}[res]))
        decide(log, v, key="ekos_product:match", replay=(MOD, "replay_match", rk), sampler=sampler)
        outcomes[res] = outcomes.get(res, 0) + 1
        target = DISK.get("copy.tar") if mode == "path" else ini
        if res == "ok":
            got = target.ops.get((900.0, 5)) if target is not None else None
            # which stored operator was used: the one whose condition holds
            diffs = []
            for i, s in enumerate(stored):
                want_v, _ = _oracle(As[i], None, B, None, (1, 1))
                r = S.check(S.context_constraints() + [conds[i]], 5000)[0]
                if r != "unsat":  # this stored point is the match on this path
                    diffs = [got.operator[j] - want_v[j] for j in rnp.ndindex(want_v.shape)] if got is not None else [SR(QONE)]
                    break
            v = prove_all_zero(diffs or [SR(QONE)], "%s: the product is (second).(operator stored at the matched point of the same nf)" % mode)
            decide(log, v, key="ekos_product:matched-operator", replay=(MOD, "replay_match", rk), sampler=sampler)
        # storage in either outcome: the first EKO is only extended in place and on success; with path it is never touched
        untouched = list(ini.ops) == list(ops) and not ini.writes
        if mode == "inplace":
            okst = (list(ini.ops) == list(ops) + [(900.0, 5)] and ini.writes == [(900.0, 5)]) if res == "ok" else untouched
        else:
            okst = untouched and (res != "ok" or (target is not None and target.closed and list(target.ops) == list(ops) + [(900.0, 5)]))
        v = prove_concrete(okst, "%s, outcome %s: %s" % (mode, res, "only the new target is added" if res == "ok" else "nothing is modified"))
        decide(log, v, key="ekos_product:match-storage", replay=(MOD, "replay_match", rk), sampler=sampler)
        log.twin("domain")
        log.collect_ctx()

    _r, pm = explore(run)
    log.path_stats(pm)
    need = {"ok", "nomatch"} | ({"multiple"} if len(stored) > 1 else set())
    if not need <= set(outcomes) and not log.violations:  # reachability guard (vacuity); pointless once a violation is established
        log.inconclusive.append("match case %r (%s): outcomes reached %r, expected %r" % (stored, mode, sorted(outcomes), sorted(need)))


def _validate(log, d):
    """translator validation: the shimmed module on float arrays == the untouched module (real numpy) on the same stand-ins"""
    real = real_module("ekobox.utils")
    utils = sym_module("ekobox.utils")
    from eko.io.struct import Operator
    import eko.io.struct as struct

    Mem = _mk_mem_class(real_module("eko.io.struct").EKO.approx)
    utils.EKO = Mem
    real.EKO = Mem
    rng = rnp.random.default_rng(log.rng.randint(0, 10**6))
    shape = (d[0], d[1], d[0], d[1])
    for _ in range(2):
        a, b, da, db = (rng.normal(size=shape) for _ in range(4))
        res = []
        for mod in (utils, real):
            ini = Mem({(100.0, 5): Operator(a, da)}, init=(1.0, 4))
            fin = Mem({(144.0, 5): Operator(b, db)}, init=(10.0, 5))
            mod.ekos_product(ini, fin)
            res.append(ini.ops[(144.0, 5)])
        if not (rnp.allclose(rnp.array(res[0].operator, dtype=float), res[1].operator, rtol=1e-12, atol=1e-12)
                and rnp.allclose(rnp.array(res[0].error, dtype=float), res[1].error, rtol=1e-12, atol=1e-12)):
            log.inconclusive.append("translator validation failed for ekos_product")
        log.validate()


def _sampler(rng):
    return {"seed": Fraction(rng.randint(1, 10**6))}


def _mk_sampler_m(stored):
    """candidate (m, rtol, atol): junction offsets between 1e-7 and a few 1e-3 relative, against tolerances from 1e-9 to 1e-2
    (both sides of numpy's defaults rtol=1e-5/1e-6, atol=1e-8/1e-10)"""

    def sampler(rng):
        s = Fraction(rng.choice(stored))
        delta = Fraction(rng.choice([1, -1]) * rng.choice([1, 3, 10, 100, 1000, 4000, 30000]), 10**7)
        m2 = s * (1 + delta)
        m = Fraction(float(m2) ** 0.5).limit_denominator(10**12)
        rtol = Fraction(rng.choice([1, 1000, 10**4, 10**6, 10**7]), 10**9)
        atol = Fraction(rng.choice([0, 0, 1, 10**6, 5 * 10**9]), 10**10)
        return {"m": m, "rtol": rtol, "atol": atol}

    return sampler


# ---------------------------------------------------------------------------
# replays: two REAL EKOs on disk, real ekos_product; oracle = explicit loops + sequential application
# ---------------------------------------------------------------------------
def _disk_ekos(tmp, d, ops_ini, ops_fin, init_fin):
    from eko import interpolation
    from eko.io.struct import EKO, Operator
    from ekobox import cards

    th = cards.example.theory()
    th.order = (1, 0)
    out = []
    for name, init, ops in (("ini", (2.0, 4), ops_ini), ("fin", init_fin, ops_fin)):
        oc = cards.example.operator()
        oc.xgrid = interpolation.XGrid([0.2, 1.0] if d[1] <= 2 else list(rnp.linspace(0.1, 1, d[1])))
        oc.configs.interpolation_polynomial_degree = 1
        oc.init = init
        oc.mugrid = [(float(ep[0]) ** 0.5, ep[1]) for ep in ops]
        e = EKO.create(tmp / (name + ".tar")).load_cards(th, oc).build()
        for (ep, (o, err)), ep_card in zip(ops.items(), oc.evolgrid):
            e[ep_card] = Operator(o, err)
        out.append(e)
    return out


def _fill(point, name, shape, rng):
    a = rng.normal(size=shape)
    for idx in rnp.ndindex(shape):
        a[idx] = getv(point, name + "_" + "_".join(map(str, idx)), a[idx])
    return a


def replay_product(point, d, err1, err2, what="order"):
    import pathlib
    import shutil
    import tempfile

    from eko.io.struct import EKO, Operator
    from eko.runner import operators as rops
    from ekobox import utils

    rng = rnp.random.default_rng(int(getv(point, "seed", 5)))
    shape = (d[0], d[1], d[0], d[1])
    A = _fill(point, "A", shape, rng)
    dA = _fill(point, "dA", shape, rng) if err1 else None
    C = _fill(point, "C", shape, rng)
    Bs = [_fill(point, "B%d" % t, shape, rng) for t in range(3)]
    dBs = [_fill(point, "dB%d" % t, shape, rng) if err2 else None for t in range(3)]
    tmp = pathlib.Path(tempfile.mkdtemp(prefix="c44_", dir="/tmp"))
    try:
        def build(sub):
            (tmp / sub).mkdir()
            return _disk_ekos(tmp / sub, d, {INI_EPS[0]: (A, dA), INI_EPS[1]: (C, None)}, {ep: (Bs[t], dBs[t]) for t, ep in enumerate(FIN_EPS)}, (10.0, 5))

        ini, fin = build("inplace")
        utils.ekos_product(ini, fin)
        ini2, fin2 = build("copy")
        utils.ekos_product(ini2, fin2, path=tmp / "res.tar")
        f = rng.normal(size=(d[0], d[1]))
        with EKO.read(tmp / "res.tar") as res:
            if sorted(res) != sorted(set(INI_EPS + FIN_EPS)) or sorted(ini) != sorted(set(INI_EPS + FIN_EPS)) or sorted(ini2) != sorted(INI_EPS):
                return {"detail": "targets after product: in place %r, copy %r, first EKO of the copy variant %r" % (sorted(ini), sorted(res), sorted(ini2))}
            for e_, name in ((ini, "in place"), (res, "copy")):
                if not rnp.allclose(e_[INI_EPS[1]].operator, C, rtol=1e-12, atol=0) or not rnp.allclose(e_[INI_EPS[0]].operator, A, rtol=1e-12, atol=0):
                    return {"detail": "%s: an operator that the first EKO already had (targets %r) was modified by the product" % (name, INI_EPS)}
            if not rnp.allclose(ini2[INI_EPS[1]].operator, C, rtol=1e-12, atol=0) or not rnp.allclose(ini2[INI_EPS[0]].operator, A, rtol=1e-12, atol=0):
                return {"detail": "with path=..., the first EKO was modified"}
            for t, ep in enumerate(FIN_EPS[:2]):
                got = ini[ep]
                cp = res[ep]
                B, dB = Bs[t], dBs[t]
                want = rnp.zeros(shape)
                werr = rnp.zeros(shape)
                for a, j, c, l in rnp.ndindex(*shape):
                    want[a, j, c, l] = sum(B[a, j, b, k] * A[b, k, c, l] for b in range(d[0]) for k in range(d[1]))
                    if err1 and err2:
                        werr[a, j, c, l] = sum(abs(B[a, j, b, k]) * abs(dA[b, k, c, l]) + abs(dB[a, j, b, k]) * abs(A[b, k, c, l]) for b in range(d[0]) for k in range(d[1]))
                scale = 1 + rnp.abs(want).max()
                if what == "copy":
                    if not rnp.allclose(got.operator, cp.operator, rtol=1e-10, atol=1e-12) or (got.error is None) != (cp.error is None) or (
                            got.error is not None and not rnp.allclose(got.error, cp.error, rtol=1e-10, atol=1e-12)):
                        return {"detail": "in-place and copied product differ at %r" % (ep,)}
                    continue
                if what == "error":
                    if (got.error is None) != (not (err1 and err2)):
                        return {"detail": "error of the product at %r is %s" % (ep, "missing" if got.error is None else "present although a factor has none")}
                    if got.error is not None and rnp.abs(got.error - werr).max() > 1e-8 * (1 + rnp.abs(werr).max()):
                        i = rnp.unravel_index(rnp.abs(got.error - werr).argmax(), shape)
                        j = rops.join([Operator(A, dA), Operator(B, dB)]).error
                        return {"detail": "error of the product at %r, element %r: stored %r, |later|.|d earlier| + |d later|.|earlier| = %r (eko.runner.operators.join gives %r); negative entries: %d"
                                % (ep, tuple(int(x) for x in i), got.error[i], werr[i], j[i], int((got.error < 0).sum()))}
                    continue
                if rnp.abs(got.operator - want).max() > 1e-8 * scale:
                    # sequential application: first EKO then second
                    step1 = rnp.einsum("ajbk,bk->aj", A, f)
                    seq = rnp.einsum("ajbk,bk->aj", B, step1)
                    prod = rnp.einsum("ajbk,bk->aj", got.operator, f)
                    j = rops.join([Operator(A, None), Operator(B, None)]).operator
                    i = rnp.unravel_index(rnp.abs(got.operator - want).argmax(), shape)
                    return {"detail": "product at %r element %r = %r, but (second).(first) = %r [eko.runner.operators.join([first, second]) = %r; (first).(second) = %r]. "
                            "Applying first then second to a vector gives %r, the stored product gives %r"
                            % (ep, tuple(int(x) for x in i), got.operator[i], want[i], j[i], rnp.einsum("ajbk,bkcl->ajcl", A, B)[i], seq.ravel()[:3].tolist(), prod.ravel()[:3].tolist())}
        return None
    finally:
        shutil.rmtree(tmp, ignore_errors=True)


def replay_match(point, stored, mode="inplace"):
    """real ekos_product on two real EKOs, in place or into a new archive, with the caller's rtol/atol"""
    import pathlib
    import shutil
    import tempfile

    from eko.io.struct import EKO
    from ekobox import utils

    m = getv(point, "m", None)
    rtol, atol = getv(point, "rtol", RTOL), getv(point, "atol", ATOL)
    if m is None or m <= 0 or not (0 <= rtol < 1) or atol < 0:
        return None
    tols = [atol + rtol * abs(s) for s in stored]
    conds = [abs(m * m - s) <= t for s, t in zip(stored, tols)]
    if any(abs(abs(m * m - s) - t) < 1e-9 * s + 1e-3 * t for s, t in zip(stored, tols)):
        return None  # on (or within rounding of) the boundary
    rng = rnp.random.default_rng(3)
    shape = (1, 1, 1, 1)
    As = [rng.normal(size=shape) for _ in stored]
    B = rng.normal(size=shape)
    tmp = pathlib.Path(tempfile.mkdtemp(prefix="c44m_", dir="/tmp"))
    try:
        ops = {(s, 5): (As[i], None) for i, s in enumerate(stored)}
        ops[(stored[0], 4)] = (rng.normal(size=shape), None)
        ini, fin = _disk_ekos(tmp, (1, 2), ops, {(900.0, 5): (B, None)}, (m, 5))  # (x grid of the cards is irrelevant here)
        before = sorted(ini)
        try:
            if mode == "path":
                utils.ekos_product(ini, fin, rtol=rtol, atol=atol, path=tmp / "res.tar")
            else:
                utils.ekos_product(ini, fin, rtol=rtol, atol=atol)
            res = "ok"
        except ValueError as e:
            res = "multiple" if "Multiple" in str(e) else "nomatch"
        want = {0: "nomatch", 1: "ok"}.get(sum(conds), "multiple")
        desc = "second EKO starts at m^2=%r, first EKO has mu^2 %r (nf=5), caller passes rtol=%g atol=%g, mode %s" % (m * m, stored, rtol, atol, "new archive (path=...)" if mode == "path" else "in place")
        if res != want:
            return {"detail": "%s: ekos_product outcome '%s', but |m^2 - mu^2| <= atol + rtol*|mu^2| holds for %d stored point(s) -> expected '%s'" % (desc, res, sum(conds), want)}
        if mode == "path" and sorted(ini) != before:
            return {"detail": "%s: the first EKO was modified" % desc}
        if res == "ok":
            i = conds.index(True)
            if mode == "path":
                with EKO.read(tmp / "res.tar") as r:
                    got = r[(900.0, 5)].operator
            else:
                got = ini[(900.0, 5)].operator
            w = rnp.einsum("ajbk,bkcl->ajcl", B, As[i])
            if rnp.abs(got - w).max() > 1e-8 * (1 + rnp.abs(w).max()):
                return {"detail": "%s: product does not use the operator stored at the matched point %r" % (desc, (stored[i], 5))}
        elif mode == "inplace" and sorted(ini) != before:
            return {"detail": "%s: refused, but the first EKO was modified" % desc}
        return None
    finally:
        shutil.rmtree(tmp, ignore_errors=True)


# ---------------------------------------------------------------------------
def main():
    chk = H.Check("C44")
    thorough = H.tier() == "thorough"
    chk.bounds = ["operator tensors of shape (f,x,f,x) with (f,x) in {(1,1),(2,2)} (quick) / {(2,2),(3,2),(2,3),(4,2)} (thorough); all entries of both operators and both errors symbolic reals of either sign (non-commuting)",
                  "first EKO: 2 targets (one matched, nf=5; one other nf); second EKO: 3 targets of which 2 are new and 1 coincides with a target of the first",
                  "errors present/absent on either factor (4 combinations)",
                  "matching, in place and with path=...: initial scale m>0 of the second EKO, rtol in [0,1) and atol >= 0 all symbolic; stored mu^2 in {(100), (100, 100.4), (100, 400)} plus the same scale with another nf"]
    chk.out_of_claim = ["targets of the second EKO that already exist in the first one are skipped by ekos_product (kept as stored in the first EKO); for those the statement is not checked",
                        "on-disk copy (shutil/tar/lz4/npy) is modelled as an in-memory snapshot; the replay uses the real archive",
                        "floating-point rounding; theory/operator-card compatibility of the two EKOs (not checked by the code either)"]
    chk.stubs = ["EKO -> in-memory stand-in (ops dict, __iter__/items/__getitem__/__setitem__/__contains__, deepcopy(path)/edit(path)/close on a dict 'disk'); approx is the real eko.io.struct.EKO.approx",
                 "np.abs -> algebraic atom a with a>=0, a^2=x^2 (exact characterisation of |x| over the reals)"]
    chk.assumptions = ["index convention O[out_pid,out_x,in_pid,in_x] as in ekobox.apply._EKO_CONTRACTION and eko.runner.operators._dot4/join (later . earlier)"]
    dims = [(2, 2)] + ([(3, 2), (2, 3), (4, 2)] if thorough else [])
    for d in dims:
        for e1, e2 in itertools.product((True, False), repeat=2):
            if d != (2, 2) and not (e1 and e2):
                continue
            chk.case("product.%dx%d.err%d%d" % (d[0], d[1], e1, e2), case_product, d=d, err1=e1, err2=e2)
    chk.case("product.1x1.err11", case_product, d=(1, 1), err1=True, err2=True)
    for mode in ("inplace", "path"):
        chk.case("match.single.%s" % mode, case_match, stored=[100.0], mode=mode)
        chk.case("match.near-pair.%s" % mode, case_match, stored=[100.0, 100.4], mode=mode)
        chk.case("match.far-pair.%s" % mode, case_match, stored=[100.0, 400.0], mode=mode)
    import ekobox.utils  # noqa: F401  imported before the workers fork

    try:
        return chk.run()
    finally:
        cleanup_markers()


if __name__ == "__main__":
    import sys

    sys.exit(main())
