"""C26  Anomalous dimensions and matching elements are real-analytic in N.

Real functions executed symbolically: every top-level tower of ekore.anomalous_dimensions (unpolarised space-like incl.
both N3LO variants and the QED grids, time-like, polarised) and of ekore.operator_matrix_elements (unpolarised
space-like a_s^1..3, polarised a_s^1..2, time-like a_s^1), with everything they call.

  * real axis (mode a): N a real symbol (> 1), nf (and L) real symbols, cern_polygamma -> real psi_k atoms
    (axiom "psi_k is real on the real axis" + recurrence): the imaginary part of every returned entry is the zero
    polynomial.  The functions are compositions of primitives analytic off the poles (rational functions, psi_k); for
    such a composition "real on a real interval" is, by Schwarz reflection, f(conj N) = conj f(N).
    The O(a_s^3) matching elements (69 s in mode a) run in mode b in the quick tier: N a real rational, nf, L symbolic.
  * off the axis (mode b): N and conj N concrete complex points of the Talbot range, nf and L symbolic: the real code
    (float harmonic sums at N and conj N) gives polynomials in nf, L; z3 proves |f(conj N) - conj f(N)| <= 1e-9 scale
    for all nf, L of the box.
"""
from fractions import Fraction

import numpy as realnp

from .common import *  # noqa
from . import ekoresym as E
from symx.solver import explore, prove_zero, prove_rel
from symx import harness as H
from symx import poly as P

MOD = "harness.C26"
ZERO7 = (0, 0, 0, 0, 0, 0, 0)
SL = "ekore.anomalous_dimensions.unpolarized.space_like"
TL = "ekore.anomalous_dimensions.unpolarized.time_like"
POL = "ekore.anomalous_dimensions.polarized.space_like"
OSL = "ekore.operator_matrix_elements.unpolarized.space_like"
OPOL = "ekore.operator_matrix_elements.polarized.space_like"
OTL = "ekore.operator_matrix_elements.unpolarized.time_like"

OFFAXIS = [complex(1.5, 2.5), complex(3.2, -7.1), complex(0.75, 24.0), complex(2.0, 0.5), complex(6.5, 58.0), complex(1.0, 1.0), complex(12.25, -3.5), complex(0.5, 0.125)]


def targets(sector, N, nf, L, order=None, variation=ZERO7):
    """label -> array, calling the real top-level functions"""
    out = {}
    if sector in ("sl.as4", "sl.fhmruvv"):
        ad = E.mod(SL)
        fh = sector == "sl.fhmruvv"
        o = (order or 4, 0)
        out["gamma_singlet"] = ad.gamma_singlet(o, N, nf, variation, fh)
        for m in (10101, 10201, 10200):
            out["gamma_ns(%d)" % m] = ad.gamma_ns(o, m, N, nf, variation, fh)
    elif sector in ("qed.as4", "qed.fhmruvv"):
        ad = E.mod(SL)
        fh = sector == "qed.fhmruvv"
        o = order or (4, 2)
        out["gamma_singlet_qed"] = ad.gamma_singlet_qed(o, N, nf, variation, fh)
        out["gamma_valence_qed"] = ad.gamma_valence_qed(o, N, nf, variation, fh)
        for m in (10102, 10103, 10202, 10203):
            out["gamma_ns_qed(%d)" % m] = ad.gamma_ns_qed(o, m, N, nf, variation, fh)
    elif sector in ("tl", "pol"):
        ad = E.mod(TL if sector == "tl" else POL)
        o = (order or 3, 0)
        out["gamma_singlet"] = ad.gamma_singlet(o, N, nf)
        for m in (10101, 10201, 10200):
            out["gamma_ns(%d)" % m] = ad.gamma_ns(o, m, N, nf)
    elif sector == "ome.sl":
        om = E.mod(OSL)
        o = (order or 3, 0)
        for msbar in (False, True):
            out["A_singlet(msbar=%s)" % msbar] = om.A_singlet(o, N, nf, L, msbar)
        out["A_non_singlet"] = om.A_non_singlet(o, N, nf, L)
    elif sector == "ome.pol":
        om = E.mod(OPOL)
        out["A_singlet"] = om.A_singlet((2, 0), N, nf, L)
        out["A_non_singlet"] = om.A_non_singlet((2, 0), N, L)
    elif sector == "ome.tl":
        om = E.mod(OTL)
        out["A_singlet"] = om.A_singlet((1, 0), N, L)
        out["A_non_singlet"] = om.A_non_singlet((1, 0), N, L)
    else:
        raise KeyError(sector)
    return out


def _box(sector, nf_lo, nf_hi, qed_nf=None):
    nf = SR.var("nf") if qed_nf is None else qed_nf
    if qed_nf is None:
        E.box(nf, nf_lo, nf_hi)
    L = SR.var("L")
    E.box(L, -3, 3)
    return nf, L


def _entries(d):
    for lab, arr in d.items():
        arr = realnp.asarray(arr, dtype=object)
        for idx in realnp.ndindex(arr.shape):
            yield "%s%s" % (lab, list(idx)), arr[idx]


def case_real(log, sector, mode, order=None, nf_fixed=None, nf_hi=6, n_real=None, variation=ZERO7):
    """imaginary part == 0 for real N.  mode 'a': N symbolic; mode 'b': N = n_real (rational)"""
    seen = set()
    log.assume("domain: N real, N > 1 (away from the poles at N = 1, 0, -1, ...)")
    log.register_replay("%s:real" % sector, (MOD, "replay_conj", {"sector": sector, "order": order, "nf_fixed": nf_fixed, "variation": list(variation)}), _sampler)

    def run():
        E.unpatch()
        E.patch()
        stub = E.install_psi() if mode == "a" else None
        if mode == "a":
            N = SR.var("N")
            assume(N - 1, ">0")
            assume(60 - N, ">0")
        else:
            N = float(n_real)
        nf, L = _box(sector, 3, nf_hi, nf_fixed)
        rkw = {"sector": sector, "order": order, "nf_fixed": nf_fixed, "variation": list(variation)}
        try:
            d = targets(sector, N, nf, L, order, variation)
            tot = SR(QZERO)
            n = 0
            for lab, e in _entries(d):
                im = E.im_sr(e)
                n += 1
                if im.is_zero():
                    continue
                v = prove_zero(im, "Im %s == 0 for real N [%s, mode %s]" % (lab, sector, mode))
                E.decide(log, v, "%s:%s:real" % (sector, lab.split("[")[0]), replay=(MOD, "replay_conj", rkw), sampler=_sampler)
                tot = None
            # all remaining entries have the zero polynomial as imaginary part: one obligation for the whole tower
            acc = SR(QZERO)
            for lab, e in _entries(d):
                im = E.im_sr(e)
                if im.is_zero():
                    acc = acc + im
            v = prove_zero(acc, "Im of all %d entries of %s == 0 for real N%s [mode %s]" % (n, ", ".join(d), "" if mode == "a" else "=%s" % n_real, mode))
            E.decide(log, v, "%s:real" % sector, replay=(MOD, "replay_conj", rkw), sampler=_sampler)
            # the real parts are non-trivial functions of N (vacuity: the tower is not identically zero)
            nz = [lab for lab, e in _entries(d) if not E.as_sr(e).is_zero()]
            if not nz:
                log.inconclusive.append("%s: every entry is identically zero" % sector)
            seen.add("ok")
        except NotImplementedError as e:
            log.assume("refused configuration: %s" % e)
        E.twin(log)
        if stub is not None:
            for s_ in sorted(stub.instances):
                log.assume("axiom instance: " + s_)

    _r, pm = explore(run)
    log.path_stats(pm)
    if "ok" not in seen:
        log.inconclusive.append("%s: no accepted path" % sector)
    _encode(log, sector)
    if mode == "a" and not (sector == "ome.sl" and (order or 3) >= 3):
        _validate(log, sector, order, nf_fixed, variation)


def _encode(log, sector):
    name = {"sl.as4": SL, "sl.fhmruvv": SL, "qed.as4": SL, "qed.fhmruvv": SL, "tl": TL, "pol": POL, "ome.sl": OSL, "ome.pol": OPOL, "ome.tl": OTL}[sector]
    m = E.mod(name)
    fns = ["gamma_singlet_qed", "gamma_valence_qed", "gamma_ns_qed"] if sector.startswith("qed") else (["A_singlet", "A_non_singlet"] if sector.startswith("ome") else ["gamma_singlet", "gamma_ns"])
    log.encode(*[getattr(m, f) for f in fns])


def _validate(log, sector, order, nf_fixed, variation):
    """translator validation: symbolic towers (psi atoms by mpmath) at points == the real float code"""
    E.unpatch()
    nfv = nf_fixed if nf_fixed is not None else 4
    pts = [(rnd(log.rng, 2.2, 20), rnd(log.rng, -3, 3)) for _ in range(2)]
    ref = [dict(_entries(targets(sector, complex(float(n)), nfv, float(l), order, variation))) for n, l in pts]

    def run():
        E.unpatch()
        E.patch()
        E.install_psi()
        N, L = SR.var("N"), SR.var("L")
        assume(N - 2, ">0")
        sym = dict(_entries(targets(sector, N, nfv, L, order, variation)))
        for (n, l), r in zip(pts, ref):
            env = E.PsiNumEnv({"N": n, "L": l})
            for lab, e in sym.items():
                got = complex(env.value(e if isinstance(e, (SR, Cx)) else Cx.lift(complex(e))))
                want = complex(r[lab])
                if abs(got - want) > 1e-7 * max(1.0, abs(want)):
                    log.inconclusive.append("translator validation failed: %s %s at N=%s L=%s nf=%s: %r vs %r" % (sector, lab, n, l, nfv, got, want))
            log.validate()

    explore(run)
    E.unpatch()


# ---------------------------------------------------------------------------
# branch structure: the code path taken at N and at conj N
# ---------------------------------------------------------------------------
class Opaque:
    """absorbing value: stands for any quantity whose value is irrelevant to the control flow"""

    __array_ufunc__ = None

    def _o(self, *a, **k):
        return self

    __add__ = __radd__ = __sub__ = __rsub__ = __mul__ = __rmul__ = __truediv__ = __rtruediv__ = __pow__ = __rpow__ = _o
    __neg__ = __pos__ = __abs__ = conjugate = conj = log = exp = sqrt = _o
    real = property(_o)
    imag = property(_o)

    def _cmp(self, o):
        raise SymbolicEscape("branch on a value-dependent quantity (not a function of N alone)")

    __lt__ = __le__ = __gt__ = __ge__ = _cmp

    def __bool__(self):
        raise SymbolicEscape("truth value of a value-dependent quantity")

    __hash__ = object.__hash__

    def __repr__(self):
        return "<opaque>"


OPQ = Opaque()


class SqAbs:
    """|v| for v real-affine or complex-affine in (x, y), kept as v^2: comparisons with non-negative constants are polynomial"""

    def __init__(self, sq):
        self.sq = sq

    def _c2(self, c):
        c = float(c)
        if c < 0:
            raise SymbolicEscape("comparison of an absolute value with a negative constant")
        return SR(Q(Poly.const(c))) * SR(Q(Poly.const(c)))

    def __lt__(self, c):
        return self.sq < self._c2(c)

    def __le__(self, c):
        return self.sq <= self._c2(c)

    def __gt__(self, c):
        return self.sq > self._c2(c)

    def __ge__(self, c):
        return self.sq >= self._c2(c)


class Lin:
    """real quantity affine in (x, y) = (Re N, Im N)"""

    def __init__(self, v):
        self.v = v

    def _k(self, o):
        if isinstance(o, Lin):
            return o.v
        if isinstance(o, (int, float)) and not isinstance(o, bool):
            return o
        return None

    def __add__(self, o):
        k = self._k(o)
        return OPQ if k is None else Lin(self.v + k)

    __radd__ = __add__

    def __sub__(self, o):
        k = self._k(o)
        return OPQ if k is None else Lin(self.v - k)

    def __rsub__(self, o):
        k = self._k(o)
        return OPQ if k is None else Lin(k - self.v)

    def __neg__(self):
        return Lin(-self.v)

    def __mul__(self, o):
        return Lin(self.v * o) if isinstance(o, (int, float)) and not isinstance(o, bool) else OPQ

    __rmul__ = __mul__

    def __truediv__(self, o):
        return Lin(self.v / o) if isinstance(o, (int, float)) and not isinstance(o, bool) else OPQ

    __rtruediv__ = __pow__ = __rpow__ = lambda self, *a: OPQ

    def __abs__(self):
        return SqAbs(self.v * self.v)

    def __lt__(self, o):
        return self.v < self._k(o)

    def __le__(self, o):
        return self.v <= self._k(o)

    def __gt__(self, o):
        return self.v > self._k(o)

    def __ge__(self, o):
        return self.v >= self._k(o)

    __hash__ = object.__hash__


class NProbe:
    """s*N + c with N = x + i y symbolic: only what the control flow can see of the Mellin variable (its real and imaginary
    part, its modulus, shifted and rescaled by constants); every other operation yields an opaque value"""

    __array_ufunc__ = None

    def __init__(self, re, im):
        self.re, self.im = re, im

    def _k(self, o):
        if isinstance(o, NProbe):
            return o.re, o.im
        if isinstance(o, (int, float, complex)) and not isinstance(o, bool):
            o = complex(o)
            return o.real, o.imag
        return None

    def __add__(self, o):
        k = self._k(o)
        return OPQ if k is None else NProbe(self.re + k[0], self.im + k[1])

    __radd__ = __add__

    def __sub__(self, o):
        k = self._k(o)
        return OPQ if k is None else NProbe(self.re - k[0], self.im - k[1])

    def __rsub__(self, o):
        k = self._k(o)
        return OPQ if k is None else NProbe(k[0] - self.re, k[1] - self.im)

    def __neg__(self):
        return NProbe(-self.re, -self.im)

    def __mul__(self, o):
        if isinstance(o, (int, float)) and not isinstance(o, bool):
            return NProbe(self.re * o, self.im * o)
        return OPQ

    __rmul__ = __mul__

    def __truediv__(self, o):
        if isinstance(o, (int, float)) and not isinstance(o, bool):
            return NProbe(self.re / o, self.im / o)
        return OPQ

    __rtruediv__ = __pow__ = __rpow__ = lambda self, *a: OPQ

    @property
    def real(self):
        return Lin(self.re)

    @property
    def imag(self):
        return Lin(self.im)

    def conjugate(self):
        return NProbe(self.re, -self.im)

    def __abs__(self):
        return SqAbs(self.re * self.re + self.im * self.im)

    def _cmp(self, o):
        raise SymbolicEscape("ordering comparison of the complex Mellin variable")

    __lt__ = __le__ = __gt__ = __ge__ = _cmp
    __hash__ = object.__hash__


class _ProbeNP(E.shim.SymNumpy):
    def real(self, x):
        return x.real if isinstance(x, (NProbe, Opaque, Lin)) else super().real(x)

    def imag(self, x):
        return x.imag if isinstance(x, (NProbe, Opaque)) else super().imag(x)

    def abs(self, x):
        return abs(x) if isinstance(x, (NProbe, Opaque, Lin)) else super().abs(x)

    absolute = abs

    def power(self, x, k):
        return x ** k if isinstance(x, (NProbe, Opaque, Lin)) else super().power(x, k)

    def isnan(self, x):
        return False if isinstance(x, (NProbe, Opaque, Lin)) else super().isnan(x)

    def log(self, x):
        return OPQ if isinstance(x, (NProbe, Opaque, Lin)) else super().log(x)

    exp = sqrt = log


def case_branches(log, sector, order=None, nf=4, variation=ZERO7):
    """Decides that N and conj N always follow the same code path: the real tower is executed on a probe that exposes only Re N,
    Im N and |N + c| (harmonic sums and every value-level operation are opaque), the path manager forks on every guard that looks
    at N, and for each pair of distinct paths P, Q the solver must refute  N in P  and  conj N in Q.  A model is a point where
    the code computes N and conj N differently: it is replayed with the numeric conjugation check on the real code."""
    import z3
    from symx import solver as S_

    _encode(log, sector)
    paths = []
    log.register_replay("%s:branches" % sector, (MOD, "replay_conj", {"sector": sector, "order": order, "nf_fixed": nf, "variation": list(variation)}), _sampler_line1)

    def run():
        E.unpatch()
        pnp = E.patch(_ProbeNP(True))
        for m_ in E.load():
            if "npp" in vars(m_):  # `from numpy import power as npp`
                E.rebind(m_, "npp", pnp.power)
        x, y = SR.var("x"), SR.var("y")
        E.box(x, Fraction(1, 2), 50)
        E.box(y, -60, 60)
        c = E.mod("ekore.harmonics.cache")
        E.rebind(c, "get", lambda *a, **k: OPQ)
        E.install_psi(lambda *a, **k: OPQ)
        targets(sector, NProbe(x, y), nf, 1.0, order, variation)
        paths.append((tuple(ctx.path.trace), z3.And(S_.context_constraints())))
        E.twin(log)

    _r, pm = explore(run)
    log.path_stats(pm)
    E.unpatch()
    zy = z3.Real("y")
    npair = 0
    for i, (ti, fi) in enumerate(paths):
        for j, (tj, fj) in enumerate(paths):
            if ti == tj:
                continue
            npair += 1
            goal = z3.And(fi, z3.substitute(fj, (zy, -zy)))
            rs, m, dt = S_.check([goal], 20000)
            what = "%s: no N with code path #%d while conj N takes path #%d (of %d paths)" % (sector, i, j, len(paths))
            v = S_.Verdict(rs, what, None, S_.model_point(m) if m is not None else None, dt, None, 1)
            cands = []
            if v.model and "x" in v.model and "y" in v.model:
                cands = [{"N": v.model["x"], "nf": Fraction(nf), "L": Fraction(1), "ReN": v.model["x"], "ImN": v.model["y"]}]
            E.decide(log, v, "%s:branches" % sector, replay=(MOD, "replay_conj", {"sector": sector, "order": order, "nf_fixed": nf, "variation": list(variation)}),
                     candidates=cands, sampler=_sampler_line1)
    v = S_.prove_formula(z3.BoolVal(len(paths) >= 1), "%s: %d code paths over Re N in [1/2,50], |Im N| <= 60; %d ordered pairs of distinct paths refuted" % (sector, len(paths), npair))
    E.decide(log, v, "%s:branches" % sector)


def _sampler_line1(rng):
    return {"N": rnd(rng, 1.2, 40), "nf": Fraction(4), "L": rnd(rng, -3, 3)}


def _scale(x):
    """upper bound of |polynomial| on the box |nf| <= 6, |L| <= 3 from its coefficients"""
    tot = Fraction(0)
    q = x.v
    if q.den:
        return None
    for m, c in q.n.t.items():
        term = abs(Fraction(c))
        i = 0
        mm = m
        while mm:
            e = mm & P.MASK
            if e:
                term *= (6 if P.NAMES[i] == "nf" else 3) ** e
            mm >>= P.BITS
            i += 1
        tot += term
    return tot


def case_offaxis(log, sector, points, order=None, nf_fixed=None, nf_hi=6, variation=ZERO7):
    """f(conj N) == conj f(N) at concrete complex N, nf and L symbolic (mode b)"""
    seen = set()
    log.register_replay("%s:conj" % sector, (MOD, "replay_conj", {"sector": sector, "order": order, "nf_fixed": nf_fixed, "variation": list(variation),
                                                                 "N": [points[0].real, points[0].imag]}), _sampler)

    def run():
        E.unpatch()
        E.patch()
        nf, L = _box(sector, 3, nf_hi, nf_fixed)
        try:
            for Nc in points:
                rkw = {"sector": sector, "order": order, "nf_fixed": nf_fixed, "variation": list(variation), "N": [Nc.real, Nc.imag]}
                d1 = dict(_entries(targets(sector, Nc, nf, L, order, variation)))
                d2 = dict(_entries(targets(sector, Nc.conjugate(), nf, L, order, variation)))
                worst = {}
                for lab in d1:
                    a, b = d1[lab], d2[lab]
                    dre = E.as_sr(b) - E.as_sr(a)
                    dim = E.im_sr(b) + E.im_sr(a)
                    sc = max(_scale(E.as_sr(a)) or 1, _scale(E.im_sr(a)) or 0, 1)
                    fam = lab.split("[")[0]
                    worst.setdefault(fam, []).append((dre, dim, sc, lab))
                for fam, lst in worst.items():
                    # one pair of bounds per entry (grouped per function in the log)
                    for dre, dim, sc, lab in lst:
                        tol = Fraction(1, 10**9) * sc
                        if dre.is_zero() and dim.is_zero():
                            continue
                        for part, dd in (("Re", dre), ("Im", dim)):
                            if dd.is_zero():
                                continue
                            E.prove_abs_le(dd, tol, "%s[%s(conj N) - conj %s(N)] within 1e-9*scale at N=%r [%s]" % (part, lab, lab, Nc, sector), log,
                                           "%s:%s:conj" % (sector, fam), (MOD, "replay_conj", rkw), candidates=[{"nf": Fraction(4), "L": Fraction(1)}])
                    v = prove_zero(SR(QZERO), "%s(conj N) == conj %s(N): all %d entries compared at N=%r [%s]" % (fam, fam, len(lst), Nc, sector))
                    E.decide(log, v, "%s:%s:conj" % (sector, fam))
            seen.add("ok")
        except NotImplementedError as e:
            log.assume("refused configuration: %s" % e)
        E.twin(log)

    _r, pm = explore(run)
    log.path_stats(pm)
    if "ok" not in seen:
        log.inconclusive.append("%s: no accepted path" % sector)


def _sampler(rng):
    return {"N": rnd(rng, 1.2, 40), "nf": Fraction(rng.choice([3, 4, 5])), "L": rnd(rng, -3, 3)}


# ---------------------------------------------------------------------------
def _real_targets(sector, N, nf, L, order, variation):
    import importlib

    class _E:
        @staticmethod
        def mod(n):
            return importlib.import_module(n)

    g = globals()
    old = g["E"]
    g["E"] = _E
    try:
        return targets(sector, N, nf, L, order, tuple(variation))
    finally:
        g["E"] = old


def replay_conj(point, sector, order=None, nf_fixed=None, variation=ZERO7, N=None):
    """real code: f(conj N) vs conj f(N) at complex points (and Im f == 0 at the real point); harmonic sums additionally
    against mpmath polygamma at N and conj N"""
    import mpmath as mp
    import numpy as np
    from ekore.harmonics import cache as c

    nf = nf_fixed if nf_fixed is not None else int(round(float(point.get("nf", 4))))
    if "fhmruvv" in sector and nf not in (3, 4, 5):
        nf = 4
    L = float(point.get("L", 1.0))
    pts = []
    if N is not None:
        pts.append(complex(N[0], N[1]))
    if "ReN" in point and "ImN" in point:
        pts.append(complex(float(point["ReN"]), float(point["ImN"])))
    x = float(point.get("N", 3.3))
    if x > 1:
        pts += [complex(x, 0.0), complex(x, 1.75), complex(x, -23.0)]
    pts += [complex(1.5, 2.5), complex(0.75, 24.0)]
    for z in pts:
        for k, key in ((0, c.S1), (1, c.S2), (2, c.S3)):
            a = complex(c.get(key, c.reset(), z))
            b = complex(c.get(key, c.reset(), z.conjugate()))
            want = complex((-1) ** k / mp.factorial(k) * (mp.polygamma(k, mp.mpc(z) + 1) - mp.polygamma(k, 1)))
            if abs(a - want) > 1e-8 * max(1, abs(want)) or abs(b - want.conjugate()) > 1e-8 * max(1, abs(want)):
                return {"detail": "S%d at N=%r / conj: %r / %r, mpmath %r" % (k + 1, z, a, b, want)}
        try:
            d1 = dict(_entries(_real_targets(sector, z, nf, L, order, variation)))
            d2 = dict(_entries(_real_targets(sector, z.conjugate(), nf, L, order, variation)))
        except ZeroDivisionError:
            continue
        for lab in d1:
            a, b = complex(d1[lab]), complex(d2[lab])
            if abs(b - a.conjugate()) > 1e-8 * max(1.0, abs(a)):
                return {"detail": "%s %s: f(conj N) = %r but conj f(N) = %r at N=%r nf=%d L=%r" % (sector, lab, b, a.conjugate(), z, nf, L)}
            if z.imag == 0 and abs(a.imag) > 1e-9 * max(1.0, abs(a)):
                return {"detail": "%s %s: Im f = %r at real N=%r nf=%d L=%r" % (sector, lab, a.imag, z, nf, L)}
    return None


# ---------------------------------------------------------------------------
def main():
    chk = H.Check("C26")
    tier = H.tier()
    chk.bounds = ["real axis: N a real symbol in (1, 60), nf real in [3,6] ([3,5] at N3LO; FHMRUVV forks on nf in {3,4,5}; QED grids nf in {3,4,5,6} enumerated), L real in [-3,3]",
                  "off the axis: N in %r and their conjugates (concrete), nf, L symbolic on the same boxes; tolerance 1e-9 * (sum of |coefficients| on the box)" % (OFFAXIS,),
                  "orders: unpolarised space-like a_s^1..4 (both N3LO variants), QED grids (4,2), time-like a_s^1..3, polarised a_s^1..3, "
                  "matching a_s^1..3 (POLE and MSBAR), polarised matching a_s^1..2, time-like matching a_s^1",
                  "quick tier: eko N3LO approximations on the real axis with nf=4 (orders 1-3 with nf symbolic), QED grids (3,2) for nf in {4,5} and (4,2) FHMRUVV for nf=4",
                  "quick tier: O(a_s^3) matching on the real axis at N in {5/2, 7/2, 31/4} (mode b; A_gq^(3) has a removable pole at N=2) instead of symbolic N"]
    chk.bounds.append("branch structure: for Re N in [1/2,50], |Im N| <= 60 (nf=4, L=1) every guard of the towers that inspects N (Re N, Im N, |N+c| against constants) "
                      "is explored symbolically and N, conj N are shown to take the same code path")
    chk.out_of_claim = ["conjugation symmetry of the *values* at complex N other than the listed points is inferred (Schwarz reflection per code path) from the real-axis result "
                        "together with the decided mirror symmetry of the branch structure, not decided directly",
                        "cern_polygamma itself on the real axis (stubbed in mode a); the float evaluation's rounding",
                        "neighbourhoods of the poles N <= 1"]
    chk.stubs = ["mode a: cern_polygamma -> real atoms psi_k(z) for real z (axiom: psi_k real on the real axis), recurrence psi_k(z+1) = psi_k(z) + (-1)^k k!/z^(k+1), values at z=1"]
    chk.assumptions = ["Schwarz reflection: a function analytic on a connected domain symmetric about the real axis and real on a real interval satisfies f(conj z) = conj f(z)"]
    v1 = (1, 2, 1, 2, 2, 1, 2)
    if tier == "quick":
        # symbolic N and nf together cost ~2 min for the eko N3LO approximations: quick tier fixes nf there
        chk.case("real.sl.as4.nf4", case_real, sector="sl.as4", mode="a", nf_fixed=4)
        chk.case("real.sl.as3", case_real, sector="sl.as4", mode="a", order=3)
    else:
        chk.case("real.sl.as4", case_real, sector="sl.as4", mode="a", nf_hi=5)
    chk.case("real.sl.fhmruvv", case_real, sector="sl.fhmruvv", mode="a", nf_hi=5)
    chk.case("real.tl", case_real, sector="tl", mode="a")
    chk.case("real.pol", case_real, sector="pol", mode="a")
    if tier == "quick":
        chk.case("real.qed.o32.nf4", case_real, sector="qed.fhmruvv", mode="a", nf_fixed=4, order=(3, 2))
        chk.case("real.qed.o32.nf5", case_real, sector="qed.fhmruvv", mode="a", nf_fixed=5, order=(3, 2))
        chk.case("real.qed.fhmruvv.nf4", case_real, sector="qed.fhmruvv", mode="a", nf_fixed=4)
    else:
        for nf in (3, 4, 5, 6):
            chk.case("real.qed.as4.nf%d" % nf, case_real, sector="qed.as4", mode="a", nf_fixed=nf)
            if nf <= 5:
                chk.case("real.qed.fhmruvv.nf%d" % nf, case_real, sector="qed.fhmruvv", mode="a", nf_fixed=nf)
    chk.case("real.ome.sl.as2", case_real, sector="ome.sl", mode="a", order=2, nf_hi=5)
    chk.case("real.ome.pol", case_real, sector="ome.pol", mode="a", nf_hi=5)
    chk.case("real.ome.tl", case_real, sector="ome.tl", mode="a", nf_hi=5)
    for i, n in enumerate((Fraction(5, 2), Fraction(7, 2), Fraction(31, 4))):
        chk.case("real.ome.sl.as3.N%d" % i, case_real, sector="ome.sl", mode="b", order=3, nf_hi=5, n_real=n)
    npts = 3 if tier == "quick" else len(OFFAXIS)
    for sector, hi in (("sl.as4", 5), ("sl.fhmruvv", 5), ("tl", 6), ("pol", 6), ("ome.sl", 5), ("ome.pol", 5), ("ome.tl", 5)):
        for i in range(npts):
            chk.case("conj.%s.%d" % (sector, i), case_offaxis, sector=sector, points=[OFFAXIS[i]], nf_hi=hi)
    for nf in ((4,) if tier == "quick" else (3, 4, 5, 6)):
        chk.case("conj.qed.as4.nf%d" % nf, case_offaxis, sector="qed.as4", points=OFFAXIS[:2 if tier == "quick" else 5], nf_fixed=nf)
        if nf <= 5:
            chk.case("conj.qed.fhmruvv.nf%d" % nf, case_offaxis, sector="qed.fhmruvv", points=OFFAXIS[:2 if tier == "quick" else 5], nf_fixed=nf)
    for sector in ("sl.as4", "sl.fhmruvv", "qed.as4", "qed.fhmruvv", "tl", "pol", "ome.sl", "ome.pol", "ome.tl"):
        chk.case("branches.%s" % sector, case_branches, sector=sector)
    if tier == "thorough":
        chk.case("real.ome.sl.as3", case_real, sector="ome.sl", mode="a", order=3, nf_hi=5)
        chk.case("real.sl.as4.var", case_real, sector="sl.as4", mode="a", nf_hi=5, variation=(7, 3, 11, 2, 0, 0, 0))
        chk.case("real.sl.fhmruvv.var", case_real, sector="sl.fhmruvv", mode="a", nf_hi=5, variation=v1)
    E.load()
    return chk.run(workers=6)


if __name__ == "__main__":
    import sys

    sys.exit(main())
