"""C30  QED-extended anomalous dimensions embed the QCD ones with correct charges.

Real functions executed symbolically (mode a: N a real symbol, harmonic sums through the real cache with
cern_polygamma -> uninterpreted psi_k atoms + recurrence/initial-value axioms; nf enumerated):
ekore.anomalous_dimensions.unpolarized.space_like.{gamma_singlet_qed, gamma_valence_qed, gamma_ns_qed, gamma_singlet,
gamma_ns, choose_ns_ad_aem1, choose_ns_ad_as1aem1, choose_ns_ad_aem2} and everything below them
(as1, as2, as3, as4 (both N3LO variants), aem1, aem2, as1aem1).

Goals (prove_zero on every entry, for all N):
  * singlet block: grid[k,0][(0,0),(0,2),(2,0),(2,2)] == gamma_singlet[k-1][(1,1),(1,0),(0,1),(0,0)]
  * Sdelta: grid[k,0][3,3] == gamma_ns(10101)[k-1]  (non-singlet plus)
  * the photon has no pure-QCD entry: row 1, column 1 and all other entries of grid[k,0] vanish; grid[0,0] == 0
  * valence: gamma_valence_qed[k,0] == diag(gamma_ns(10200)[k-1], gamma_ns(10201)[k-1])
  * non-singlet towers: gamma_ns_qed(mode)[k,0] == gamma_ns(10101 | 10201)[k-1] for up and down modes
  * pure-QED / mixed orders: [0,1] and [1,1] entries of the up and down modes are e_u^2, e_d^2 times one function;
    [0,2]: gamma_q = e_q^2 (e_q^2 A + R) with the same A = gamma_ns^(1,1)/(2 CF) and the same R for up and down
"""
from fractions import Fraction

import numpy as realnp

from .common import *  # noqa
from . import ekoresym as E
from symx.solver import explore, prove_zero
from symx import harness as H

MOD = "harness.C30"
AD = "ekore.anomalous_dimensions.unpolarized.space_like"
ZERO7 = (0, 0, 0, 0, 0, 0, 0)


def _variations(tier):
    """n3lo_ad_variation tuples exercised (gg, gq, qg, qq, nsp, nsm, nsv)"""
    if tier == "quick":
        return {True: [ZERO7, (1, 2, 1, 2, 2, 2, 1)], False: [ZERO7, (3, 2, 5, 1, 0, 0, 0)]}
    return {True: [ZERO7, (1, 1, 1, 1, 1, 1, 1), (2, 2, 2, 2, 2, 2, 2), (1, 2, 0, 1, 1, 0, 2)],
            False: [ZERO7, (19, 15, 15, 6, 0, 0, 0), (7, 3, 11, 2, 0, 0, 0), (1, 0, 0, 0, 0, 0, 0)]}


def _z(x):
    """numpy/python number or symbolic -> value usable in prove_zero"""
    if isinstance(x, (SR, Cx)):
        return x
    return Cx.lift(complex(x))


def case_grid(log, nf, order, fh, variation):
    ad = E.mod(AD)
    log.encode(ad.gamma_singlet_qed, ad.gamma_valence_qed, ad.gamma_ns_qed, ad.gamma_singlet, ad.gamma_ns,
               ad.choose_ns_ad_aem1, ad.choose_ns_ad_as1aem1, ad.choose_ns_ad_aem2)
    tag = "nf=%d order=%s %s var=%s" % (nf, order, "fhmruvv" if fh else "as4", "".join(map(str, variation)) if order[0] >= 4 else "-")
    rkw = {"nf": nf, "order": list(order), "fh": fh, "variation": list(variation)}

    def dec(expr, what, key):
        v = prove_zero(_z(expr), "%s [%s]" % (what, tag))
        E.decide(log, v, key, replay=(MOD, "replay_grid", dict(rkw, what=key)), sampler=_sampler)

    def run():
        E.unpatch()
        E.patch()
        stub = E.install_psi()
        N = SR.var("N")
        assume(N - 2, ">=0")
        qcd = (order[0], 0)
        gs = ad.gamma_singlet_qed(order, N, nf, variation, fh)
        s = ad.gamma_singlet(qcd, N, nf, variation, fh)
        nsp = ad.gamma_ns(qcd, 10101, N, nf, variation, fh)
        nsm = ad.gamma_ns(qcd, 10201, N, nf, variation, fh)
        nsv = ad.gamma_ns(qcd, 10200, N, nf, variation, fh)
        gv = ad.gamma_valence_qed(order, N, nf, variation, fh)
        emb = {(0, 0): (1, 1), (0, 2): (1, 0), (2, 0): (0, 1), (2, 2): (0, 0)}
        for k in range(1, order[0] + 1):
            for (i, j), (a, b) in emb.items():
                dec(gs[k, 0][i, j] - s[k - 1][a, b], "singlet_qed[%d,0][%d,%d] == gamma_singlet[%d][%d,%d]" % (k, i, j, k - 1, a, b), "singlet_qed:block")
            assert (not fh) or order[0] < 4 or variation[3] == variation[4], "claim restricted to FHMRUVV variation tuples with qq slot == nsp slot"
            dec(gs[k, 0][3, 3] - nsp[k - 1], "singlet_qed[%d,0][3,3] (Sdelta) == gamma_ns+[%d]" % (k, k - 1), "singlet_qed:sdelta")
            rest = SR(QZERO)
            for i in range(4):
                for j in range(4):
                    if (i, j) in emb or (i, j) == (3, 3):
                        continue
                    e = _z(gs[k, 0][i, j])
                    e = e if isinstance(e, Cx) else Cx.lift(e)
                    rest = rest + e.re * e.re + e.im * e.im
            dec(rest, "singlet_qed[%d,0]: photon row/column and the other off-block entries vanish" % k, "singlet_qed:photon")
            dec(gv[k, 0][0, 0] - nsv[k - 1], "valence_qed[%d,0][0,0] == gamma_ns,v[%d]" % (k, k - 1), "valence_qed:v")
            dec(gv[k, 0][1, 1] - nsm[k - 1], "valence_qed[%d,0][1,1] (Vdelta) == gamma_ns-[%d]" % (k, k - 1), "valence_qed:vdelta")
            e01, e10 = Cx.lift(_z(gv[k, 0][0, 1])), Cx.lift(_z(gv[k, 0][1, 0]))
            dec(e01.re * e01.re + e01.im * e01.im + e10.re * e10.re + e10.im * e10.im, "valence_qed[%d,0] off-diagonal vanishes" % k, "valence_qed:offdiag")
        z00 = SR(QZERO)
        for m in (gs[0, 0], gv[0, 0]):
            for e in m.flat:
                e = Cx.lift(_z(e))
                z00 = z00 + e.re * e.re + e.im * e.im
        dec(z00, "grid[0,0] == 0 (singlet and valence)", "grid:00")
        # non-singlet grids
        cst = E.mod("eko.constants")
        aem1 = ad.aem1
        as1aem1 = ad.as1aem1
        cache = E.mod("ekore.harmonics.cache")
        ch = {10102: cst.eu2, 10103: cst.ed2, 10202: cst.eu2, 10203: cst.ed2}
        grids = {m: ad.gamma_ns_qed(order, m, N, nf, variation, fh) for m in ch}
        for m, g in grids.items():
            tower = nsp if m in (10102, 10103) else nsm
            for k in range(1, order[0] + 1):
                dec(g[k, 0] - tower[k - 1], "gamma_ns_qed(%d)[%d,0] == gamma_ns%s[%d]" % (m, k, "+" if m < 10200 else "-", k - 1), "ns_qed:tower")
            dec(_z(g[0, 0]), "gamma_ns_qed(%d)[0,0] == 0" % m, "ns_qed:00")
        for u, d, sign in ((10102, 10103, "p"), (10202, 10203, "m")):
            gu, gd = grids[u], grids[d]
            f01 = aem1.gamma_ns(N, cache.reset())
            dec(gu[0, 1] / cst.eu2 - f01, "gamma_ns_qed(%d)[0,1] == e_u^2 * aem1.gamma_ns" % u, "ns_qed:aem1")
            dec(gd[0, 1] / cst.ed2 - f01, "gamma_ns_qed(%d)[0,1] == e_d^2 * aem1.gamma_ns" % d, "ns_qed:aem1")
            dec(gu[0, 1] * cst.ed2 - gd[0, 1] * cst.eu2, "[0,1]: up/e_u^2 == down/e_d^2 (%s)" % sign, "ns_qed:aem1")
            f11 = (as1aem1.gamma_nsp if sign == "p" else as1aem1.gamma_nsm)(N, cache.reset())
            dec(gu[1, 1] / cst.eu2 - f11, "gamma_ns_qed(%d)[1,1] == e_u^2 * as1aem1.gamma_ns%s" % (u, sign), "ns_qed:as1aem1")
            dec(gd[1, 1] / cst.ed2 - f11, "gamma_ns_qed(%d)[1,1] == e_d^2 * as1aem1.gamma_ns%s" % (d, sign), "ns_qed:as1aem1")
            if order[1] >= 2:
                A = f11 / cst.CF / 2
                dec((gu[0, 2] / cst.eu2 - cst.eu2 * A) - (gd[0, 2] / cst.ed2 - cst.ed2 * A),
                    "[0,2]: up/e_u^2 - e_u^2 A == down/e_d^2 - e_d^2 A with A = gamma_ns%s^(1,1)/(2 CF) (%s)" % (sign, sign), "ns_qed:aem2")
        E.twin(log)
        log.collect_ctx()
        for s_ in sorted(stub.instances):
            log.assume("axiom instance: " + s_)

    _r, pm = explore(run)
    log.path_stats(pm)
    _validate(log, nf, order, fh, variation)


def _validate(log, nf, order, fh, variation):
    """translator validation: symbolic grid entries (psi atoms by mpmath) == the real float code"""
    E.unpatch()
    ad = E.mod(AD)
    pts = [rnd(log.rng, 2.1, 20) for _ in range(3)]
    ref = [ad.gamma_singlet_qed(order, complex(float(p)), nf, variation, fh) for p in pts]
    refv = [ad.gamma_ns_qed(order, 10102, complex(float(p)), nf, variation, fh) for p in pts]
    ctx.reset()
    E.patch()
    E.install_psi()
    N = SR.var("N")
    gs = ad.gamma_singlet_qed(order, N, nf, variation, fh)
    gn = ad.gamma_ns_qed(order, 10102, N, nf, variation, fh)
    for p, r, rv in zip(pts, ref, refv):
        env = E.PsiNumEnv({"N": p})
        for idx in realnp.ndindex(r.shape):
            got = complex(env.value(_z(gs[idx])))
            if abs(got - r[idx]) > 1e-7 * max(1.0, abs(r[idx])):
                log.inconclusive.append("translator validation failed: singlet_qed%r at N=%s nf=%d: %r vs %r" % (idx, p, nf, got, r[idx]))
        for idx in realnp.ndindex(rv.shape):
            got = complex(env.value(_z(gn[idx])))
            if abs(got - rv[idx]) > 1e-7 * max(1.0, abs(rv[idx])):
                log.inconclusive.append("translator validation failed: ns_qed%r at N=%s nf=%d: %r vs %r" % (idx, p, nf, got, rv[idx]))
        log.validate()
    E.unpatch()


def _sampler(rng):
    return {"N": rnd(rng, 2.1, 25)}


# ---------------------------------------------------------------------------
def replay_grid(point, nf, order, fh, variation, what):
    """real code at complex N: every structural identity against the independently called QCD towers / charge factors.
    The oracle for the pure-QCD entries are the QCD functions called *directly* from their modules (as1, as2, as3, as4.*),
    not through gamma_singlet / gamma_ns."""
    import numpy as np
    import ekore.anomalous_dimensions.unpolarized.space_like as ad
    from ekore.harmonics import cache as c
    from eko import constants as cst

    order = tuple(order)
    variation = tuple(variation)
    x = float(point.get("N", 3.3))
    if x < 2:
        return None
    for N in (complex(x), complex(x, 2.75), complex(x + 0.5, -11.0)):
        gs = ad.gamma_singlet_qed(order, N, nf, variation, fh)
        gv = ad.gamma_valence_qed(order, N, nf, variation, fh)

        def qcd(k):
            """direct QCD entries at order a_s^k: dict"""
            ch = c.reset()
            if k == 1:
                m = ad.as1
                ns = m.gamma_ns(N, ch)
                return dict(gg=m.gamma_gg(N, ch, nf), gq=m.gamma_gq(N), qg=m.gamma_qg(N, nf), qq=ns, nsp=ns, nsm=ns, nsv=ns)
            if k == 2:
                m = ad.as2
                p = m.gamma_nsp(N, nf, ch)
                mm = m.gamma_nsm(N, nf, ch)
                return dict(gg=m.gamma_gg(N, nf, ch), gq=m.gamma_gq(N, nf, ch), qg=m.gamma_qg(N, nf, ch), qq=p + m.gamma_ps(N, nf), nsp=p, nsm=mm, nsv=mm)
            if k == 3:
                m = ad.as3
                p = m.gamma_nsp(N, nf, ch)
                return dict(gg=m.gamma_gg(N, nf, ch), gq=m.gamma_gq(N, nf, ch), qg=m.gamma_qg(N, nf, ch), qq=p + m.gamma_ps(N, nf, ch), nsp=p,
                            nsm=m.gamma_nsm(N, nf, ch), nsv=m.gamma_nsv(N, nf, ch))
            if fh:
                m = ad.as4.fhmruvv
                p = m.gamma_nsp(N, nf, ch, variation[4])
                return dict(gg=m.gamma_gg(N, nf, ch, variation[0]), gq=m.gamma_gq(N, nf, ch, variation[1]), qg=m.gamma_qg(N, nf, ch, variation[2]),
                            qq=m.gamma_nsp(N, nf, ch, variation[3]) + m.gamma_ps(N, nf, ch, variation[3]), nsp=p,
                            nsm=m.gamma_nsm(N, nf, ch, variation[5]), nsv=m.gamma_nsv(N, nf, ch, variation[6]))
            m = ad.as4
            p = m.gamma_nsp(N, nf, ch)
            return dict(gg=m.gamma_gg(N, nf, ch, variation[0]), gq=m.gamma_gq(N, nf, ch, variation[1]), qg=m.gamma_qg(N, nf, ch, variation[2]),
                        qq=p + m.gamma_ps(N, nf, ch, variation[3]), nsp=p, nsm=m.gamma_nsm(N, nf, ch), nsv=m.gamma_nsv(N, nf, ch))

        def bad(got, want, msg):
            if abs(got - want) > 1e-8 * max(1.0, abs(want)):
                return {"detail": "%s at N=%r nf=%d order=%r fhmruvv=%r variation=%r: grid entry %r, expected %r" % (msg, N, nf, order, fh, variation, got, want)}
            return None

        for k in range(1, order[0] + 1):
            q = qcd(k)
            sd = q["nsp"]  # claim restricted to variation tuples with slot 3 == slot 4
            checks = [(gs[k, 0][0, 0], q["gg"], "singlet_qed[%d,0] gg" % k), (gs[k, 0][0, 2], q["gq"], "singlet_qed[%d,0] gq" % k),
                      (gs[k, 0][2, 0], q["qg"], "singlet_qed[%d,0] qg" % k), (gs[k, 0][2, 2], q["qq"], "singlet_qed[%d,0] qq" % k),
                      (gs[k, 0][3, 3], sd, "singlet_qed[%d,0] Sdelta vs gamma_ns+" % k),
                      (gv[k, 0][0, 0], q["nsv"], "valence_qed[%d,0] V vs gamma_ns,v" % k), (gv[k, 0][1, 1], q["nsm"], "valence_qed[%d,0] Vdelta vs gamma_ns-" % k),
                      (gv[k, 0][0, 1], 0.0, "valence_qed[%d,0] off-diagonal" % k), (gv[k, 0][1, 0], 0.0, "valence_qed[%d,0] off-diagonal" % k)]
            for i in range(4):
                for j in range(4):
                    if (i, j) not in ((0, 0), (0, 2), (2, 0), (2, 2), (3, 3)):
                        checks.append((gs[k, 0][i, j], 0.0, "singlet_qed[%d,0][%d,%d] (photon / off-block)" % (k, i, j)))
            for mode in (10102, 10103, 10202, 10203):
                g = ad.gamma_ns_qed(order, mode, N, nf, variation, fh)
                checks.append((g[k, 0], q["nsp"] if mode < 10200 else q["nsm"], "gamma_ns_qed(%d)[%d,0] vs QCD tower" % (mode, k)))
            for got, want, msg in checks:
                r = bad(got, want, msg)
                if r:
                    return r
        for e in list(gs[0, 0].flat) + list(gv[0, 0].flat):
            if abs(e) > 1e-12:
                return {"detail": "grid[0,0] entry %r != 0 at N=%r" % (e, N)}
        ch = c.reset()
        f01 = ad.as1.gamma_ns(N, ch) / cst.CF
        for u, d, fn in ((10102, 10103, ad.as1aem1.gamma_nsp), (10202, 10203, ad.as1aem1.gamma_nsm)):
            gu = ad.gamma_ns_qed(order, u, N, nf, variation, fh)
            gd = ad.gamma_ns_qed(order, d, N, nf, variation, fh)
            f11 = fn(N, c.reset())
            for got, want, msg in ((gu[0, 1], 4 / 9 * f01, "gamma_ns_qed(%d)[0,1] vs 4/9 * gamma_ns^(0)/CF" % u), (gd[0, 1], 1 / 9 * f01, "gamma_ns_qed(%d)[0,1] vs 1/9 * gamma_ns^(0)/CF" % d),
                                   (gu[1, 1], 4 / 9 * f11, "gamma_ns_qed(%d)[1,1] vs 4/9 * as1aem1" % u), (gd[1, 1], 1 / 9 * f11, "gamma_ns_qed(%d)[1,1] vs 1/9 * as1aem1" % d)):
                r = bad(got, want, msg)
                if r:
                    return r
            if order[1] >= 2:
                A = f11 / cst.CF / 2
                lhs = gu[0, 2] / (4 / 9) - 4 / 9 * A
                rhs = gd[0, 2] / (1 / 9) - 1 / 9 * A
                r = bad(lhs, rhs, "[0,2] structure up/e_u^2 - e_u^2 A vs down/e_d^2 - e_d^2 A (modes %d,%d)" % (u, d))
                if r:
                    return r
    return None


def main():
    chk = H.Check("C30")
    tier = H.tier()
    chk.bounds = ["N a real symbol, N >= 2 (identities between rational expressions in N and the psi atoms: they hold for complex N)",
                  "nf in {3,4,5,6} enumerated ({3,4,5} with the FHMRUVV N3LO variant, which refuses nf=6), orders (k,2) for k = 1..4 "
                  "(all lower QED orders are sub-grids), both N3LO variants, N3LO variation tuples: %r" % (_variations(tier),),
                  "quick tier: grids (3,2) for nf 3..6, (2,2) for nf=4, (4,2) FHMRUVV for nf 3,4,5 and (4,2) eko approximations for nf=4 only; thorough: every order (i,j), i<=4, j<=2, nf 3..6"]
    chk.bounds.append("FHMRUVV N3LO variation tuples with slot 3 (qq) == slot 4 (nsp) only (the eko approximations have no nsp variation): the FHMRUVV singlet uses the qq slot for both the non-singlet-plus and the "
                      "pure-singlet part of gamma_qq by design, and the QED grid's Sdelta entry follows the singlet")
    chk.out_of_claim = ["numerical values of the entries (C25/C20); polarised and time-like sectors have no QED grids",
                        "N3LO variation tuples whose qq slot (3) differs from the nsp slot (4): there the FHMRUVV grid's Sdelta entry is gamma_ns,+ at the qq variation, "
                        "not at the nsp variation used by gamma_ns (by design of the singlet variation; coordinator decision)"]
    chk.stubs = ["cern_polygamma -> uninterpreted real atoms psi_k(z) interned by argument, with recurrence psi_k(z+1) = psi_k(z) + (-1)^k k!/z^(k+1) "
                 "and psi_k(1) values (harness/ekoresym.py:PsiStub)"]
    chk.assumptions = ["float literals are read as the simplest rational that rounds to them"]
    var = _variations(tier)
    for nf in (3, 4, 5, 6):
        orders = [(3, 2)] if tier == "quick" else [(1, 1), (1, 2), (2, 1), (2, 2), (3, 1), (3, 2)]
        if tier == "quick" and nf == 4:
            orders = [(2, 2), (3, 2)]
        for o in orders:
            chk.case("grid.nf%d.o%d%d" % (nf, o[0], o[1]), case_grid, nf=nf, order=o, fh=True, variation=ZERO7)
        for fh in (True, False):
            if fh and nf == 6:
                continue
            vs = var[fh]
            if tier == "quick":
                # the eko N3LO approximations cost ~2 min per (4,2) grid in mode a: quick tier runs them for nf=4 only
                if not fh and nf != 4:
                    continue
                vs = vs[:1] if (nf != 4 or not fh) else vs
            for i, v in enumerate(vs):
                chk.case("grid.nf%d.o42.%s.v%d" % (nf, "fhmruvv" if fh else "as4", i), case_grid, nf=nf, order=(4, 2), fh=fh, variation=v)
    E.load()
    return chk.run(workers=8)


if __name__ == "__main__":
    import sys

    sys.exit(main())
