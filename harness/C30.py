"""C30  QED-extended anomalous dimensions embed the QCD ones with correct charges.

Real functions executed symbolically (mode a: N a real symbol, harmonic sums through the real cache with
cern_polygamma -> uninterpreted psi_k atoms + recurrence/initial-value axioms; nf enumerated):
ekore.anomalous_dimensions.unpolarized.space_like.{gamma_singlet_qed, gamma_valence_qed, gamma_ns_qed, gamma_singlet,
gamma_ns, choose_ns_ad_aem1, choose_ns_ad_as1aem1, choose_ns_ad_aem2} and everything below them
(as1, as2, as3, as4 (both N3LO variants), aem1, aem2, as1aem1).

Goals (prove_zero on every entry, for all N):
  * singlet block: grid[k,0][(0,0),(0,2),(2,0),(2,2)] == gamma_singlet[k-1][(1,1),(1,0),(0,1),(0,0)]
  * Sdelta: grid[k,0][3,3] == gamma_ns(10101)[k-1]  (non-singlet plus)
  * the photon has no pure-QCD entry: row 1, column 1 and all other entries of grid[k,0] vanish; grid[0,0] == 0
  * valence: gamma_valence_qed[k,0] == diag(gamma_ns(10200)[k-1], gamma_ns(10201)[k-1])
  * non-singlet towers: gamma_ns_qed(mode)[k,0] == gamma_ns(10101 | 10201)[k-1] for up and down modes
  * pure-QED / mixed orders: [0,1] and [1,1] entries of the up and down modes are e_u^2, e_d^2 times one function;
    [0,2]: gamma_q = e_q^2 (e_q^2 A + R) with the same A = gamma_ns^(1,1)/(2 CF) and the same R for up and down
"""
from fractions import Fraction

import numpy as realnp

from .common import *  # noqa
from . import ekoresym as E
from symx.solver import explore, prove_zero
from symx import harness as H

MOD = "harness.C30"
AD = "ekore.anomalous_dimensions.unpolarized.space_like"
ZERO7 = (0, 0, 0, 0, 0, 0, 0)


def _variations(tier):
    """n3lo_ad_variation tuples exercised (gg, gq, qg, qq, nsp, nsm, nsv)"""
    # FHMRUVV: SEP is a separating family: every pair of the 7 slots takes different values in one of the tuples (base-3 digits
    # of the slot index, and the same shifted by one so that every slot is non-central somewhere)
    if tier == "quick":
        return {True: [ZERO7, SEP[0], SEP[1]], False: [ZERO7, (3, 2, 5, 1, 0, 0, 0)]}
    return {True: [ZERO7, (1, 1, 1, 1, 1, 1, 1), (2, 2, 2, 2, 2, 2, 2)] + SEP,
            False: [ZERO7, (19, 15, 15, 6, 0, 0, 0), (7, 3, 11, 2, 0, 0, 0), (1, 0, 0, 0, 0, 0, 0)]}


SEP = [(0, 1, 2, 0, 1, 2, 0), (0, 0, 0, 1, 1, 1, 2), (1, 2, 0, 1, 2, 0, 1), (1, 1, 1, 2, 2, 2, 0)]
SLOTS = ("gg", "gq", "qg", "qq", "nsp", "nsm", "nsv")


def _beh(v, fh):
    """behaviour class of a variation index: FHMRUVV distinguishes 1, 2 and everything else (central)"""
    return v if (not fh or v in (1, 2)) else 0


def _key(base, variation, fh):
    """violations that need differing slot values get their own key"""
    b = [_beh(v, fh) for v in variation]
    return base if len(set(b)) == 1 else base + ":variation-slot"


def _z(x):
    """numpy/python number or symbolic -> value usable in prove_zero"""
    if isinstance(x, (SR, Cx)):
        return x
    return Cx.lift(complex(x))


def case_grid(log, nf, order, fh, variation):
    ad = E.mod(AD)
    log.encode(ad.gamma_singlet_qed, ad.gamma_valence_qed, ad.gamma_ns_qed, ad.gamma_singlet, ad.gamma_ns,
               ad.choose_ns_ad_aem1, ad.choose_ns_ad_as1aem1, ad.choose_ns_ad_aem2)
    tag = "nf=%d order=%s %s var=%s" % (nf, order, "fhmruvv" if fh else "as4", "".join(map(str, variation)) if order[0] >= 4 else "-")
    rkw = {"nf": nf, "order": list(order), "fh": fh, "variation": list(variation)}

    def dec(expr, what, key):
        key = _key(key, variation, fh) if order[0] >= 4 else key
        v = E.prove_zero_pt(_z(expr), "%s [%s]" % (what, tag), {"N": Fraction(17, 5)})
        E.decide(log, v, key, replay=(MOD, "replay_grid", dict(rkw, what=key)), sampler=_sampler)

    def run():
        E.unpatch()
        E.patch()
        stub = E.install_psi()
        N = SR.var("N")
        assume(N - 2, ">=0")
        qcd = (order[0], 0)
        gs = ad.gamma_singlet_qed(order, N, nf, variation, fh)
        s = ad.gamma_singlet(qcd, N, nf, variation, fh)
        nsp = ad.gamma_ns(qcd, 10101, N, nf, variation, fh)
        nsm = ad.gamma_ns(qcd, 10201, N, nf, variation, fh)
        nsv = ad.gamma_ns(qcd, 10200, N, nf, variation, fh)
        gv = ad.gamma_valence_qed(order, N, nf, variation, fh)
        emb = {(0, 0): (1, 1), (0, 2): (1, 0), (2, 0): (0, 1), (2, 2): (0, 0)}
        for k in range(1, order[0] + 1):
            for (i, j), (a, b) in emb.items():
                dec(gs[k, 0][i, j] - s[k - 1][a, b], "singlet_qed[%d,0][%d,%d] == gamma_singlet[%d][%d,%d]" % (k, i, j, k - 1, a, b), "singlet_qed:block")
            dec(gs[k, 0][3, 3] - nsp[k - 1], "singlet_qed[%d,0][3,3] (Sdelta) == gamma_ns+[%d]" % (k, k - 1), "singlet_qed:sdelta")
            rest = SR(QZERO)
            for i in range(4):
                for j in range(4):
                    if (i, j) in emb or (i, j) == (3, 3):
                        continue
                    e = _z(gs[k, 0][i, j])
                    e = e if isinstance(e, Cx) else Cx.lift(e)
                    rest = rest + e.re * e.re + e.im * e.im
            dec(rest, "singlet_qed[%d,0]: photon row/column and the other off-block entries vanish" % k, "singlet_qed:photon")
            dec(gv[k, 0][0, 0] - nsv[k - 1], "valence_qed[%d,0][0,0] == gamma_ns,v[%d]" % (k, k - 1), "valence_qed:v")
            dec(gv[k, 0][1, 1] - nsm[k - 1], "valence_qed[%d,0][1,1] (Vdelta) == gamma_ns-[%d]" % (k, k - 1), "valence_qed:vdelta")
            e01, e10 = Cx.lift(_z(gv[k, 0][0, 1])), Cx.lift(_z(gv[k, 0][1, 0]))
            dec(e01.re * e01.re + e01.im * e01.im + e10.re * e10.re + e10.im * e10.im, "valence_qed[%d,0] off-diagonal vanishes" % k, "valence_qed:offdiag")
        z00 = SR(QZERO)
        for m in (gs[0, 0], gv[0, 0]):
            for e in m.flat:
                e = Cx.lift(_z(e))
                z00 = z00 + e.re * e.re + e.im * e.im
        dec(z00, "grid[0,0] == 0 (singlet and valence)", "grid:00")
        # non-singlet grids
        cst = E.mod("eko.constants")
        aem1 = ad.aem1
        as1aem1 = ad.as1aem1
        cache = E.mod("ekore.harmonics.cache")
        ch = {10102: cst.eu2, 10103: cst.ed2, 10202: cst.eu2, 10203: cst.ed2}
        grids = {m: ad.gamma_ns_qed(order, m, N, nf, variation, fh) for m in ch}
        for m, g in grids.items():
            tower = nsp if m in (10102, 10103) else nsm
            for k in range(1, order[0] + 1):
                dec(g[k, 0] - tower[k - 1], "gamma_ns_qed(%d)[%d,0] == gamma_ns%s[%d]" % (m, k, "+" if m < 10200 else "-", k - 1), "ns_qed:tower")
            dec(_z(g[0, 0]), "gamma_ns_qed(%d)[0,0] == 0" % m, "ns_qed:00")
        for u, d, sign in ((10102, 10103, "p"), (10202, 10203, "m")):
            gu, gd = grids[u], grids[d]
            f01 = aem1.gamma_ns(N, cache.reset())
            dec(gu[0, 1] / cst.eu2 - f01, "gamma_ns_qed(%d)[0,1] == e_u^2 * aem1.gamma_ns" % u, "ns_qed:aem1")
            dec(gd[0, 1] / cst.ed2 - f01, "gamma_ns_qed(%d)[0,1] == e_d^2 * aem1.gamma_ns" % d, "ns_qed:aem1")
            dec(gu[0, 1] * cst.ed2 - gd[0, 1] * cst.eu2, "[0,1]: up/e_u^2 == down/e_d^2 (%s)" % sign, "ns_qed:aem1")
            f11 = (as1aem1.gamma_nsp if sign == "p" else as1aem1.gamma_nsm)(N, cache.reset())
            dec(gu[1, 1] / cst.eu2 - f11, "gamma_ns_qed(%d)[1,1] == e_u^2 * as1aem1.gamma_ns%s" % (u, sign), "ns_qed:as1aem1")
            dec(gd[1, 1] / cst.ed2 - f11, "gamma_ns_qed(%d)[1,1] == e_d^2 * as1aem1.gamma_ns%s" % (d, sign), "ns_qed:as1aem1")
            if order[1] >= 2:
                A = f11 / cst.CF / 2
                dec((gu[0, 2] / cst.eu2 - cst.eu2 * A) - (gd[0, 2] / cst.ed2 - cst.ed2 * A),
                    "[0,2]: up/e_u^2 - e_u^2 A == down/e_d^2 - e_d^2 A with A = gamma_ns%s^(1,1)/(2 CF) (%s)" % (sign, sign), "ns_qed:aem2")
        E.twin(log)
        log.collect_ctx()
        for s_ in sorted(stub.instances):
            log.assume("axiom instance: " + s_)

    _r, pm = explore(run)
    log.path_stats(pm)
    _validate(log, nf, order, fh, variation)


# ---------------------------------------------------------------------------
# the variation tuple as part of the decided input space
# ---------------------------------------------------------------------------
NUMERIC_N = [complex(3.3, 0.7), complex(1.75, -6.5)]


def _slot_tuple(zs):
    """a concrete tuple on the current path (model of the path condition) for replay and for the key"""
    import z3
    from symx import solver as S_

    sol = z3.Solver()
    sol.set("timeout", 20000)
    for c_ in S_.context_constraints():
        sol.add(c_)
    if str(sol.check()) != "sat":
        return None
    m = sol.model()
    out = []
    for z in zs:
        if isinstance(z, int):
            out.append(z)
        else:
            out.append(m.eval(z.e, model_completion=True).as_long())
    return tuple(out)


def case_slots(log, nf, fh, spec, numeric, blocks=("singlet", "valence", "ns_plus", "ns_minus")):
    """n3lo_ad_variation = 7 symbolic integers (spec[i] == "sym") or fixed values; the code's comparisons `variation == k` fork the path,
    so one explore covers every behaviour class of every slot that a block reads.  numeric: N at concrete complex points (float code);
    otherwise N a real symbol (psi atoms)."""
    import z3
    from symx.solver import ZInt, assume_z3

    ad = E.mod(AD)
    log.encode(ad.gamma_singlet_qed, ad.gamma_valence_qed, ad.gamma_ns_qed, ad.gamma_singlet, ad.gamma_ns,
               ad.as4.gamma_singlet_qed, ad.as4.gamma_valence_qed, ad.as4.fhmruvv.gamma_singlet_qed, ad.as4.fhmruvv.gamma_valence_qed)
    order = (4, 1)
    tag0 = "nf=%d %s slots=%s N %s" % (nf, "fhmruvv" if fh else "as4", ",".join(SLOTS[i] if x == "sym" else "%s=%d" % (SLOTS[i], x) for i, x in enumerate(spec)),
                                       "in %r" % (NUMERIC_N,) if numeric else "symbolic")

    def setup():
        E.unpatch()
        stub = None
        if numeric:
            Ns = list(NUMERIC_N)
        else:
            E.patch()
            stub = E.install_psi()
            N = SR.var("N")
            assume(N - 2, ">=0")
            Ns = [N]
        zs = []
        for i, x in enumerate(spec):
            if x == "sym":
                z = ZInt("v_" + SLOTS[i])
                assume_z3(z.e >= 0)
                zs.append(z)
            else:
                zs.append(int(x))
        return Ns, tuple(zs), stub

    def finish(zs, items, stub):
        """items: (key base, what, list of differences).  All differences with the zero polynomial as normal form are discharged by one
        obligation; any other difference is given to the solver on its own (not squared: z3 finds a witness of a low-degree residual quickly)."""
        t = _slot_tuple(zs)
        if t is None:
            log.inconclusive.append("no model for the path condition of the variation slots")
            return
        for base, what, diffs in items:
            key = _key(base, t, fh)
            rk = (MOD, "replay_grid", {"nf": nf, "order": list(order), "fh": fh, "variation": list(t), "what": key})
            nz = []
            for d in diffs:
                d = Cx.lift(_z(d))
                if not d.is_zero():
                    nz.append(d)
            label = "%s for every variation tuple on this path (e.g. %r) [%s]" % (what, t, tag0)
            if len(nz) < len(diffs) or not diffs:
                v = prove_zero(SR(QZERO), "%s: %d of %d entries have the zero polynomial as residual" % (label, len(diffs) - len(nz), len(diffs)))
                E.decide(log, v, key, replay=rk, sampler=_sampler)
            for d in nz[:3]:
                v = E.prove_zero_pt(d, label, {"N": Fraction(17, 5)})
                E.decide(log, v, key, replay=rk, sampler=_sampler)
        E.twin(log)
        if stub is not None:
            for s_ in sorted(stub.instances):
                log.assume("axiom instance: " + s_)

    def run_singlet():
        Ns, zs, stub = setup()
        blk, sd, ph = [], [], []
        emb = {(0, 0): (1, 1), (0, 2): (1, 0), (2, 0): (0, 1), (2, 2): (0, 0)}
        for N in Ns:
            gs = ad.gamma_singlet_qed(order, N, nf, zs, fh)
            s_ = ad.gamma_singlet((4, 0), N, nf, zs, fh)
            nsp = ad.gamma_ns((4, 0), 10101, N, nf, zs, fh)
            for k in range(1, 5):
                for i in range(4):
                    for j in range(4):
                        if (i, j) in emb:
                            a, b = emb[(i, j)]
                            blk.append(gs[k, 0][i, j] - s_[k - 1][a, b])
                        elif (i, j) == (3, 3):
                            sd.append(gs[k, 0][3, 3] - nsp[k - 1])
                        else:
                            ph.append(gs[k, 0][i, j])
        finish(zs, [("singlet_qed:block", "singlet_qed[k,0] block == gamma_singlet[k-1], k=1..4", blk),
                    ("singlet_qed:sdelta", "singlet_qed[k,0][3,3] (Sdelta) == gamma_ns+[k-1], k=1..4", sd),
                    ("singlet_qed:photon", "photon row/column and off-block entries of singlet_qed[k,0] vanish", ph)], stub)

    def run_valence():
        Ns, zs, stub = setup()
        v, vd, off = [], [], []
        for N in Ns:
            gv = ad.gamma_valence_qed(order, N, nf, zs, fh)
            nsv = ad.gamma_ns((4, 0), 10200, N, nf, zs, fh)
            nsm = ad.gamma_ns((4, 0), 10201, N, nf, zs, fh)
            for k in range(1, 5):
                v.append(gv[k, 0][0, 0] - nsv[k - 1])
                vd.append(gv[k, 0][1, 1] - nsm[k - 1])
                off.extend([gv[k, 0][0, 1], gv[k, 0][1, 0]])
        finish(zs, [("valence_qed:v", "valence_qed[k,0][0,0] == gamma_ns,v[k-1], k=1..4", v),
                    ("valence_qed:vdelta", "valence_qed[k,0][1,1] (Vdelta) == gamma_ns-[k-1], k=1..4", vd),
                    ("valence_qed:offdiag", "valence_qed[k,0] off-diagonal vanishes", off)], stub)

    def run_ns(modes, ref_mode, name):
        def run():
            Ns, zs, stub = setup()
            tot = []
            for N in Ns:
                ref = ad.gamma_ns((4, 0), ref_mode, N, nf, zs, fh)
                for m in modes:
                    g = ad.gamma_ns_qed(order, m, N, nf, zs, fh)
                    for k in range(1, 5):
                        tot.append(g[k, 0] - ref[k - 1])
            finish(zs, [("ns_qed:tower", "gamma_ns_qed(%s)[k,0] == gamma_ns%s[k-1], k=1..4" % ("/".join(map(str, modes)), name), tot)], stub)
        return run

    runs = {"singlet": run_singlet, "valence": run_valence, "ns_plus": run_ns((10102, 10103), 10101, "+"), "ns_minus": run_ns((10202, 10203), 10201, "-")}
    if not fh:
        # the eko approximations refuse nothing, but gamma_ns,v has a pole-free real axis only for N > 1: fine for our N
        pass
    for b in blocks:
        _r, pm = explore(runs[b], max_paths=4096)
        log.path_stats(pm)


def _validate(log, nf, order, fh, variation):
    """translator validation: symbolic grid entries (psi atoms by mpmath) == the real float code"""
    E.unpatch()
    ad = E.mod(AD)
    pts = [rnd(log.rng, 2.1, 20) for _ in range(3)]
    ref = [ad.gamma_singlet_qed(order, complex(float(p)), nf, variation, fh) for p in pts]
    refv = [ad.gamma_ns_qed(order, 10102, complex(float(p)), nf, variation, fh) for p in pts]
    ctx.reset()
    E.patch()
    E.install_psi()
    N = SR.var("N")
    gs = ad.gamma_singlet_qed(order, N, nf, variation, fh)
    gn = ad.gamma_ns_qed(order, 10102, N, nf, variation, fh)
    for p, r, rv in zip(pts, ref, refv):
        env = E.PsiNumEnv({"N": p})
        for idx in realnp.ndindex(r.shape):
            got = complex(env.value(_z(gs[idx])))
            if abs(got - r[idx]) > 1e-7 * max(1.0, abs(r[idx])):
                log.inconclusive.append("translator validation failed: singlet_qed%r at N=%s nf=%d: %r vs %r" % (idx, p, nf, got, r[idx]))
        for idx in realnp.ndindex(rv.shape):
            got = complex(env.value(_z(gn[idx])))
            if abs(got - rv[idx]) > 1e-7 * max(1.0, abs(rv[idx])):
                log.inconclusive.append("translator validation failed: ns_qed%r at N=%s nf=%d: %r vs %r" % (idx, p, nf, got, rv[idx]))
        log.validate()
    E.unpatch()


def _sampler(rng):
    return {"N": rnd(rng, 2.1, 25)}


# ---------------------------------------------------------------------------
def replay_grid(point, nf, order, fh, variation, what):
    """real code at complex N: every structural identity against the independently called QCD towers / charge factors.
    The oracle for the pure-QCD entries are the QCD functions called *directly* from their modules (as1, as2, as3, as4.*),
    not through gamma_singlet / gamma_ns."""
    import numpy as np
    import ekore.anomalous_dimensions.unpolarized.space_like as ad
    from ekore.harmonics import cache as c
    from eko import constants as cst

    order = tuple(order)
    variation = tuple(variation)
    x = float(point.get("N", 3.3))
    if x < 2:
        return None
    for N in (complex(x), complex(x, 2.75), complex(x + 0.5, -11.0)):
        gs = ad.gamma_singlet_qed(order, N, nf, variation, fh)
        gv = ad.gamma_valence_qed(order, N, nf, variation, fh)

        def qcd(k):
            """direct QCD entries at order a_s^k: dict"""
            ch = c.reset()
            if k == 1:
                m = ad.as1
                ns = m.gamma_ns(N, ch)
                return dict(gg=m.gamma_gg(N, ch, nf), gq=m.gamma_gq(N), qg=m.gamma_qg(N, nf), qq=ns, nsp=ns, nsm=ns, nsv=ns)
            if k == 2:
                m = ad.as2
                p = m.gamma_nsp(N, nf, ch)
                mm = m.gamma_nsm(N, nf, ch)
                return dict(gg=m.gamma_gg(N, nf, ch), gq=m.gamma_gq(N, nf, ch), qg=m.gamma_qg(N, nf, ch), qq=p + m.gamma_ps(N, nf), nsp=p, nsm=mm, nsv=mm)
            if k == 3:
                m = ad.as3
                p = m.gamma_nsp(N, nf, ch)
                return dict(gg=m.gamma_gg(N, nf, ch), gq=m.gamma_gq(N, nf, ch), qg=m.gamma_qg(N, nf, ch), qq=p + m.gamma_ps(N, nf, ch), nsp=p,
                            nsm=m.gamma_nsm(N, nf, ch), nsv=m.gamma_nsv(N, nf, ch))
            if fh:
                m = ad.as4.fhmruvv
                p = m.gamma_nsp(N, nf, ch, variation[4])
                return dict(gg=m.gamma_gg(N, nf, ch, variation[0]), gq=m.gamma_gq(N, nf, ch, variation[1]), qg=m.gamma_qg(N, nf, ch, variation[2]),
                            qq=m.gamma_nsp(N, nf, ch, variation[3]) + m.gamma_ps(N, nf, ch, variation[3]), nsp=p,
                            nsm=m.gamma_nsm(N, nf, ch, variation[5]), nsv=m.gamma_nsv(N, nf, ch, variation[6]))
            m = ad.as4
            p = m.gamma_nsp(N, nf, ch)
            return dict(gg=m.gamma_gg(N, nf, ch, variation[0]), gq=m.gamma_gq(N, nf, ch, variation[1]), qg=m.gamma_qg(N, nf, ch, variation[2]),
                        qq=p + m.gamma_ps(N, nf, ch, variation[3]), nsp=p, nsm=m.gamma_nsm(N, nf, ch), nsv=m.gamma_nsv(N, nf, ch))

        def bad(got, want, msg):
            if abs(got - want) > 1e-8 * max(1.0, abs(want)):
                return {"detail": "%s at N=%r nf=%d order=%r fhmruvv=%r variation=%r: grid entry %r, expected %r" % (msg, N, nf, order, fh, variation, got, want)}
            return None

        for k in range(1, order[0] + 1):
            q = qcd(k)
            sd = q["nsp"]  # claim restricted to variation tuples with slot 3 == slot 4
            checks = [(gs[k, 0][0, 0], q["gg"], "singlet_qed[%d,0] gg" % k), (gs[k, 0][0, 2], q["gq"], "singlet_qed[%d,0] gq" % k),
                      (gs[k, 0][2, 0], q["qg"], "singlet_qed[%d,0] qg" % k), (gs[k, 0][2, 2], q["qq"], "singlet_qed[%d,0] qq" % k),
                      (gs[k, 0][3, 3], sd, "singlet_qed[%d,0] Sdelta vs gamma_ns+" % k),
                      (gv[k, 0][0, 0], q["nsv"], "valence_qed[%d,0] V vs gamma_ns,v" % k), (gv[k, 0][1, 1], q["nsm"], "valence_qed[%d,0] Vdelta vs gamma_ns-" % k),
                      (gv[k, 0][0, 1], 0.0, "valence_qed[%d,0] off-diagonal" % k), (gv[k, 0][1, 0], 0.0, "valence_qed[%d,0] off-diagonal" % k)]
            for i in range(4):
                for j in range(4):
                    if (i, j) not in ((0, 0), (0, 2), (2, 0), (2, 2), (3, 3)):
                        checks.append((gs[k, 0][i, j], 0.0, "singlet_qed[%d,0][%d,%d] (photon / off-block)" % (k, i, j)))
            for mode in (10102, 10103, 10202, 10203):
                g = ad.gamma_ns_qed(order, mode, N, nf, variation, fh)
                checks.append((g[k, 0], q["nsp"] if mode < 10200 else q["nsm"], "gamma_ns_qed(%d)[%d,0] vs QCD tower" % (mode, k)))
            for got, want, msg in checks:
                r = bad(got, want, msg)
                if r:
                    return r
        for e in list(gs[0, 0].flat) + list(gv[0, 0].flat):
            if abs(e) > 1e-12:
                return {"detail": "grid[0,0] entry %r != 0 at N=%r" % (e, N)}
        ch = c.reset()
        f01 = ad.as1.gamma_ns(N, ch) / cst.CF
        for u, d, fn in ((10102, 10103, ad.as1aem1.gamma_nsp), (10202, 10203, ad.as1aem1.gamma_nsm)):
            gu = ad.gamma_ns_qed(order, u, N, nf, variation, fh)
            gd = ad.gamma_ns_qed(order, d, N, nf, variation, fh)
            f11 = fn(N, c.reset())
            for got, want, msg in ((gu[0, 1], 4 / 9 * f01, "gamma_ns_qed(%d)[0,1] vs 4/9 * gamma_ns^(0)/CF" % u), (gd[0, 1], 1 / 9 * f01, "gamma_ns_qed(%d)[0,1] vs 1/9 * gamma_ns^(0)/CF" % d),
                                   (gu[1, 1], 4 / 9 * f11, "gamma_ns_qed(%d)[1,1] vs 4/9 * as1aem1" % u), (gd[1, 1], 1 / 9 * f11, "gamma_ns_qed(%d)[1,1] vs 1/9 * as1aem1" % d)):
                r = bad(got, want, msg)
                if r:
                    return r
            if order[1] >= 2:
                A = f11 / cst.CF / 2
                lhs = gu[0, 2] / (4 / 9) - 4 / 9 * A
                rhs = gd[0, 2] / (1 / 9) - 1 / 9 * A
                r = bad(lhs, rhs, "[0,2] structure up/e_u^2 - e_u^2 A vs down/e_d^2 - e_d^2 A (modes %d,%d)" % (u, d))
                if r:
                    return r
    return None


def main():
    chk = H.Check("C30")
    tier = H.tier()
    chk.bounds = ["N a real symbol, N >= 2 (identities between rational expressions in N and the psi atoms: they hold for complex N)",
                  "nf in {3,4,5,6} enumerated ({3,4,5} with the FHMRUVV N3LO variant, which refuses nf=6), orders (k,2) for k = 1..4 "
                  "(all lower QED orders are sub-grids), both N3LO variants, N3LO variation tuples: %r" % (_variations(tier),),
                  "quick tier: grids (3,2) for nf 3..6, (2,2) for nf=4, (4,2) FHMRUVV for nf 3,4,5 and (4,2) eko approximations for nf=4 only; thorough: every order (i,j), i<=4, j<=2, nf 3..6"]
    chk.bounds.append("n3lo_ad_variation = (gg, gq, qg, qq, nsp, nsm, nsv) is part of the input space: FHMRUVV: all 7 slots symbolic non-negative integers at once "
                      "(the code's `variation == k` comparisons fork the path: every behaviour class 1 / 2 / other of every slot a block reads), per block "
                      "(singlet block + Sdelta + photon; V/Vdelta; ns+ up/down; ns- up/down), nf in {3,4,5}, with N at the complex points %r (float code) and, "
                      "for the valence and non-singlet blocks (thorough: also the singlet block at nf=4), with N a real symbol; in addition N symbolic for the separating family "
                      "of concrete tuples %r.  eko approximations (only gg, gq, qg, qq vary; the entries are per-slot functions): each of the four slots symbolic over its whole "
                      "range with the other three fixed at (0,0,0,0) and at (7,3,11,2)" % (NUMERIC_N, SEP))
    chk.out_of_claim = ["numerical values of the entries (C25/C20); polarised and time-like sectors have no QED grids",
                        "eko N3LO approximations: simultaneous variation of two or more of the four singlet slots beyond the listed base tuples"]
    chk.stubs = ["cern_polygamma -> uninterpreted real atoms psi_k(z) interned by argument, with recurrence psi_k(z+1) = psi_k(z) + (-1)^k k!/z^(k+1) "
                 "and psi_k(1) values (harness/ekoresym.py:PsiStub)"]
    chk.assumptions = ["float literals are read as the simplest rational that rounds to them"]
    var = _variations(tier)
    for nf in (3, 4, 5, 6):
        orders = [(3, 2)] if tier == "quick" else [(1, 1), (1, 2), (2, 1), (2, 2), (3, 1), (3, 2)]
        if tier == "quick" and nf == 4:
            orders = [(2, 2), (3, 2)]
        for o in orders:
            chk.case("grid.nf%d.o%d%d" % (nf, o[0], o[1]), case_grid, nf=nf, order=o, fh=True, variation=ZERO7)
        for fh in (True, False):
            if fh and nf == 6:
                continue
            vs = var[fh]
            if tier == "quick":
                # the eko N3LO approximations cost ~2 min per (4,2) grid in mode a: quick tier runs them for nf=4 only
                if not fh and nf != 4:
                    continue
                vs = vs[:1] if (nf != 4 or not fh) else vs
            for i, v in enumerate(vs):
                chk.case("grid.nf%d.o42.%s.v%d" % (nf, "fhmruvv" if fh else "as4", i), case_grid, nf=nf, order=(4, 2), fh=fh, variation=v)
    # --- variation tuple symbolic ---
    ALL = ("sym",) * 7
    for nf in (3, 4, 5):
        if tier == "quick" and nf != 4:
            chk.case("slots.fhmruvv.nf%d.numeric" % nf, case_slots, nf=nf, fh=True, spec=ALL, numeric=True, blocks=("singlet",))
            continue
        chk.case("slots.fhmruvv.nf%d.numeric" % nf, case_slots, nf=nf, fh=True, spec=ALL, numeric=True)
        chk.case("slots.fhmruvv.nf%d.symN" % nf, case_slots, nf=nf, fh=True, spec=ALL, numeric=False, blocks=("valence", "ns_plus", "ns_minus"))
    if tier == "thorough":
        chk.case("slots.fhmruvv.nf4.symN.singlet", case_slots, nf=4, fh=True, spec=ALL, numeric=False, blocks=("singlet",))
    for nf in ((4,) if tier == "quick" else (3, 4, 5, 6)):
        for bi, base in enumerate(((0, 0, 0, 0), (7, 3, 11, 2))):
            for sl in range(4):
                spec = tuple("sym" if i == sl else (base[i] if i < 4 else 0) for i in range(7))
                chk.case("slots.as4.nf%d.b%d.%s" % (nf, bi, SLOTS[sl]), case_slots, nf=nf, fh=False, spec=spec, numeric=True, blocks=("singlet",))
    E.load()
    return chk.run(workers=8)


if __name__ == "__main__":
    import sys

    sys.exit(main())
