"""Shared pieces for the ekore properties C24, C25, C26, C29, C30.

* `load()` imports every ekore submodule, `patch()` rebinds the numeric globals (`np`, `math`, `complex`) of all of
  them to the shim, `unpatch()` restores the real ones (so that reference floats can be computed in the same process
  before/after symbolic execution).  Nothing under /repo is edited.
* `PsiStub`: replacement for `ekore.harmonics.polygamma.cern_polygamma` in *mode a* (N symbolic): an uninterpreted,
  interned atom psi_k(z) per (k, canonical z) reduced with the documented contract of the polygamma functions
      psi_k(z+1) = psi_k(z) + (-1)^k k!/z^(k+1)      (recurrence, applied to shift every argument into a canonical strip)
      psi_0(1) = -euler_gamma,  psi_k(1) = (-1)^(k+1) k! zeta(k+1)    (values at 1)
      psi_k(x) real for real x                              (the atoms are real symbols)
  Every axiom instance used is recorded (`stub.instances`) and written to the evidence by the harness.
* mode b: N a concrete float/complex, nf (and L) symbolic: the real code computes the harmonic sums in floats and the
  float results enter the polynomials in nf, L as the rationals the engine reads them as.
"""
import importlib
import math as _math
import pkgutil
from fractions import Fraction

import numpy as realnp

from .common import *  # noqa
from symx import shim
from symx.val import sym_complex

_MODS = None
_SAVED = {}
NP = None


def load():
    """import all ekore submodules (plus eko.constants) -> list of module objects"""
    global _MODS
    if _MODS is None:
        import ekore

        mods = [ekore]
        for info in pkgutil.walk_packages(ekore.__path__, "ekore."):
            mods.append(importlib.import_module(info.name))
        mods.append(importlib.import_module("eko.constants"))
        mods.append(importlib.import_module("eko.beta"))
        _MODS = mods
    return _MODS


def patch(np=None):
    """rebind np/math/complex in every loaded ekore module; returns the shared SymNumpy"""
    global NP
    NP = np or NP or shim.SymNumpy(True)
    for m in load():
        d = vars(m)
        if m.__name__ not in _SAVED:
            _SAVED[m.__name__] = {k: d[k] for k in ("np", "math") if k in d}
        shim.install(m, np=NP)
    return NP


def unpatch():
    for m in load():
        sv = _SAVED.get(m.__name__)
        if sv is None:
            continue
        for k, v in sv.items():
            if v is _MISSING:
                if k in vars(m):
                    delattr(m, k)
            else:
                setattr(m, k, v)
        if "complex" in vars(m):
            del m.complex
    # attributes rebound by harnesses are restored by them


def mod(name):
    load()
    return importlib.import_module(name)


def rebind(m, name, value):
    """set attribute `name` of module m (restored by unpatch)"""
    sv = _SAVED.setdefault(m.__name__, {})
    if name not in sv:
        sv[name] = vars(m).get(name, _MISSING)
    setattr(m, name, value)


_MISSING = object()


# ---------------------------------------------------------------------------
# uninterpreted polygamma
# ---------------------------------------------------------------------------
_FACT = [1, 1, 2, 6, 24]


class PsiStub:
    """callable replacing cern_polygamma(Z, K).

    Z must be (after canonicalisation) of the form  u + c  with c a rational constant and u a non-constant real
    symbolic expression, or a rational constant.  The argument is shifted by the recurrence into the strip
    c in (0, 1]; psi_k(u + c0) is an interned real atom; constant arguments are shifted to (0,1] and psi_k(1) is the
    documented value; other constants in (0,1) (half-integers) stay atoms."""

    def __init__(self, consts=None):
        self.instances = set()
        self.consts = consts or {}
        self.atoms = {}

    def _zeta(self, k):
        import eko.constants as c

        if ("zeta%d" % k) in self.consts:
            return self.consts["zeta%d" % k]
        return SR(Q(Poly.const({2: c.zeta2, 3: c.zeta3, 4: c.zeta4, 5: c.zeta5}[k])))

    def _euler(self):
        if "euler_gamma" in self.consts:
            return self.consts["euler_gamma"]
        return SR(Q(Poly.const(float(realnp.euler_gamma))))

    def __call__(self, Z, K):
        if K < 0 or K > 4:
            raise NotImplementedError("Order K has to be in [0:4]")
        if isinstance(Z, Cx):
            if not Z.im.is_zero():
                raise SymbolicEscape("PsiStub: complex symbolic argument (use real symbolic N)")
            Z = Z.re
        if not isinstance(Z, SR):
            Z = SR(Q(Poly.const(Z)))
        q = Z.v.canon()
        # split constant part (only for polynomial arguments; rational-function arguments are kept whole)
        if not q.den:
            c0 = Fraction(q.n.t.get(0, 0))
            rest = Poly({m: c for m, c in q.n.t.items() if m != 0})
        else:
            c0 = Fraction(0)
            rest = None
        if rest is not None and not rest.t:
            return self._const(c0, K)
        if rest is None:
            base, shift = Z, 0
        else:
            # canonical constant in (0,1]
            fl = _math.ceil(c0) - 1
            shift = int(fl)
            base = SR(Q(rest)) + (c0 - shift)
        key = (K, base.v.key())
        at = self.atoms.get(key)
        if at is None:
            name = ctx.fresh("psi%d" % K)
            at = self.atoms[key] = SR(Q(Poly.var(name)))
            from symx import poly as P

            ctx.atom_info[P.INDEX[name]] = {"fn": "psi%d" % K, "arg": base.v}
        val = at
        if shift:
            self.instances.add("recurrence psi_%d(z+1) = psi_%d(z) %s %d/z^%d applied %d time(s)" % (K, K, "+" if K % 2 == 0 else "-", _FACT[K], K + 1, abs(shift)))
        sgn = 1 if K % 2 == 0 else -1
        if shift > 0:
            for j in range(shift):
                val = val + sgn * _FACT[K] / (base + j) ** (K + 1)
        elif shift < 0:
            for j in range(1, -shift + 1):
                val = val - sgn * _FACT[K] / (base - j) ** (K + 1)
        return val

    def _const(self, c0, K):
        """psi_K at a rational constant."""
        if c0 <= 0 and c0.denominator == 1:
            raise ValueError("Argument Z equals non-positive integer")
        fl = _math.ceil(c0) - 1
        frac = c0 - fl  # in (0,1]
        sgn = 1 if K % 2 == 0 else -1
        if frac == 1:
            self.instances.add("value psi_%d(1)" % K)
            val = -self._euler() if K == 0 else (-sgn) * _FACT[K] * self._zeta(K + 1)
        else:
            key = (K, ("const", frac))
            at = self.atoms.get(key)
            if at is None:
                name = ctx.fresh("psi%d" % K)
                at = self.atoms[key] = SR(Q(Poly.var(name)))
                from symx import poly as P

                ctx.atom_info[P.INDEX[name]] = {"fn": "psi%d" % K, "arg": Q(Poly.const(frac))}
            val = at
        if fl:
            self.instances.add("recurrence psi_%d at constant argument (%d steps)" % (K, abs(fl)))
        if fl > 0:
            for j in range(int(fl)):
                val = val + sgn * _FACT[K] / (frac + j) ** (K + 1)
        elif fl < 0:
            for j in range(1, int(-fl) + 1):
                val = val - sgn * _FACT[K] / (frac - j) ** (K + 1)
        return val


def install_psi(stub=None):
    """replace cern_polygamma in every ekore.harmonics module that imported it by name"""
    stub = stub or PsiStub()
    for m in load():
        if "cern_polygamma" in vars(m):
            rebind(m, "cern_polygamma", stub)
    return stub


def psi_numeric(info, value_of):
    """numeric value of a psi atom (translator validation): info from ctx.atom_info"""
    import mpmath as mp

    k = int(info["fn"][3:])
    z = value_of(info["arg"])
    return mp.polygamma(k, z)


class PsiNumEnv(S.NumEnv):
    """NumEnv that knows the psi atoms."""

    def atom(self, info):
        if info["fn"].startswith("psi"):
            return psi_numeric(info, self.q)
        return super().atom(info)


# ---------------------------------------------------------------------------
def as_sr(x):
    """real part / value as SR (python numbers lifted)."""
    if isinstance(x, SR):
        return x
    if isinstance(x, Cx):
        return x.re
    if isinstance(x, (complex, realnp.complexfloating)):
        return SR(Q(Poly.const(float(x.real))))
    return SR(Q(Poly.const(float(x))))


def im_sr(x):
    if isinstance(x, SR):
        return SR(QZERO)
    if isinstance(x, Cx):
        return x.im
    if isinstance(x, (complex, realnp.complexfloating)):
        return SR(Q(Poly.const(float(x.imag))))
    return SR(QZERO)


def box(x, lo, hi):
    assume(x - lo, ">=0")
    assume(hi - x, ">=0")


def prove_abs_le(expr, tol, what, log, key, replay, candidates=(), sampler=None, timeout_ms=20000):
    """|expr| <= tol as two prove_rel obligations; returns True when both hold."""
    from symx.solver import prove_rel

    ok = True
    for rel, e, tag in ((">=0", expr + tol, "lower"), ("<=0", expr - tol, "upper")):
        v = prove_rel(e, rel, "%s [%s]" % (what, tag), timeout_ms=timeout_ms)
        ok = decide(log, v, key, replay=replay, candidates=candidates, sampler=sampler) and ok
    return ok


def twin(log, name="domain", timeout_ms=60000):
    """vacuity twin with a timeout that survives a loaded machine"""
    rs, _m = S.reachable(timeout_ms)
    log.twins.append((name, rs))
    if rs != "sat":
        log.inconclusive.append("vacuity twin '%s' of case %s is %s (assumptions contradictory or undecided)" % (name, log.case, rs))
    return rs == "sat"


def decide(log, verdict, key, replay=None, sampler=None, candidates=(), nrandom=2):
    """log.decide, but a key that already has a confirmed violation (or an unreproduced failure) in this case is not
    replayed again: every replay is a fresh interpreter (numba import), and a wrong function fails on many paths."""
    if verdict.holds:
        return log.decide(verdict, key=key)
    seen = getattr(log, "_failed_keys", None)
    if seen is None:
        seen = log._failed_keys = {}
    if key in seen:
        log.obligations.append({"case": log.case, "what": verdict.what, "status": verdict.status, "time_s": round(verdict.time, 4),
                                "residual_terms": verdict.nterms, "note": "same key as an earlier failure in this case: not replayed again"})
        if seen[key] == "inconclusive":
            log.inconclusive.append("%s/%s: solver answered %s (same key as an earlier unreproduced failure)" % (log.case, verdict.what, verdict.status))
        return False
    nv = len(log.violations)
    ok = log.decide(verdict, key=key, replay=replay, sampler=sampler, candidates=list(candidates), nrandom=nrandom)
    seen[key] = "violation" if len(log.violations) > nv else "inconclusive"
    return ok


def prove_zero_pt(expr, what, point, timeout_ms=20000):
    """prove_zero with a shortcut on the sat side: a residual whose normal form is not the zero polynomial is first tried with
    the inputs of `point` (name -> rational) pinned, where the query is a low-degree polynomial in the remaining atoms and z3
    answers at once (nlsat can run far beyond its timeout on the unpinned high-degree residual).  A model of the pinned query is
    a model of the original one; `unsat` of the pinned query proves nothing and the full query is asked."""
    from symx.solver import prove_zero, numerators
    from symx import poly as P

    if all(not n.reduce().t for n in numerators(expr)):
        return prove_zero(expr, what, timeout_ms=timeout_ms)
    n0 = len(ctx.domain)
    try:
        for name, val in point.items():
            if name in P.INDEX:
                assume(SR.var(name) - val, "==0")
        v = prove_zero(expr, what, timeout_ms=timeout_ms)
    finally:
        del ctx.domain[n0:]
    if v.status == "sat":
        return v
    return prove_zero(expr, what, timeout_ms=timeout_ms)
