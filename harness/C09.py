"""C09  Singlet solutions reduce to non-singlet ones for commuting anomalous dimensions.

Real functions executed symbolically: eko.kernels.singlet.dispatcher and everything below it (all eight methods,
orders 2-4, nf 3-6 through eko.beta), eko.kernels.non_singlet.dispatcher, ekore exp_matrix_2D.
gamma_k = diag(p_k, q_k) with symbolic p_k, q_k.

Goals
  exact group (decompose-exact, decompose-expanded, truncated, ordered-truncated[= truncated formula in the singlet]):
      off-diagonals == 0, E_S[0,0] == E_NS(p), E_S[1,1] == E_NS(q)  (same method; identically)
  ordered-truncated vs NS ordered-truncated, perturbative-* vs NS: equal through lam^(n-1) (jets a = lam*alpha)
  iterate-*: one step a0 -> a0(1+eps): equal to the NS exact kernel through eps^2 (midpoint rule, local error eps^3)
"""
from fractions import Fraction

from .kern import *  # noqa
from symx.solver import explore, prove_zero
from symx import harness as H

MOD = "harness.C09"
EXACT_GROUP = ["DECOMPOSE_EXACT", "DECOMPOSE_EXPANDED", "TRUNCATED", "ORDERED_TRUNCATED"]
NS_PARTNER = {"ORDERED_TRUNCATED": "TRUNCATED"}


def _diag(order):
    gs = singlet_gammas(order, "diag")
    p = [gs[k][0, 0] for k in range(order)]
    q = [gs[k][1, 1] for k in range(order)]
    return gs, p, q


class _null:
    def __enter__(self):
        return self

    def __exit__(self, *a):
        return False


def _env(order, nf, shape, mods):
    """nf int: the real eko.beta values for that nf (exact constant); nf None: symbolic beta_k for all nf at once."""
    if nf is not None:
        return SR(nf), _null()
    bet, bs, roots = sym_rge(order, shape)
    return SR.var("nf"), rge_env(mods, bet, bs, roots)


def _nfs(nf):
    return [nf] if nf is not None else [3, 4, 5, 6]


def _zero_through(log, x, n, what, key, rp):
    for k, c in residual_coeffs(x, n):
        v = prove_zero(c, "%s (lam^%d coefficient)" % (what, k) if n > 1 else what, timeout_ms=60000)
        if not log.decide(v, key=key, replay=rp, sampler=_sampler):
            return False
    return True


def case_exact(log, order, nf, method, shape="complex"):
    ns, sg, ei, as4, ad = kernel_modules()
    as4.np.exact_const_sqrt = True
    from eko.kernels import EvoMethods

    m = EvoMethods[method]
    mns = EvoMethods[NS_PARTNER.get(method, method)]
    log.encode(sg.dispatcher, ns.dispatcher, ad.exp_matrix_2D)
    rp = (MOD, "replay", {"order": order, "nf": nf, "method": method})
    log.register_replay("fallback:replay", rp, _sampler)
    key = "singlet.%s:%d" % (method, order)

    def run():
        a0, a1 = SR.var("a0"), SR.var("a1")
        assume(a0, ">0")
        assume(a1, ">0")
        assume(Fraction(1, 10) - a0, ">0")
        assume(Fraction(1, 10) - a1, ">0")
        assume(a1 - a0, "!=0")
        gs, p, q = _diag(order)
        nfs, env = _env(order, nf, shape, (sg, ns))
        o = (order, 0)
        with env:
            ES = sg.dispatcher(o, m, gs, a1, a0, nfs, 1, o)
            ENs = [ns.dispatcher(o, mns, g, a1, a0, nfs) for g in (p, q)]
        for (i, j) in ((0, 1), (1, 0)):
            v = prove_zero(Cx.lift(ES[i, j]), "singlet %s order %d nf %s: off-diagonal [%d,%d] == 0" % (method, order, nf, i, j))
            log.decide(v, key=key + ":offdiag", replay=rp, sampler=_sampler)
        for i in (0, 1):
            v = prove_zero(Cx.lift(ES[i, i]) - Cx.lift(ENs[i]), "singlet %s order %d nf %s: [%d,%d] == non-singlet %s" % (method, order, nf, i, i, mns.name), timeout_ms=60000)
            log.decide(v, key=key + ":diag", replay=rp, sampler=_sampler)
        log.twin("domain")
        log.collect_ctx()

    _r, pm = explore(run)
    log.path_stats(pm)


def case_jets(log, order, nf, method, shape="complex"):
    """ordered-truncated vs NS ordered-truncated; perturbative-* vs NS dispatcher: through lam^(n-1)."""
    ns, sg, ei, as4, ad = kernel_modules()
    as4.np.exact_const_sqrt = True
    from eko.kernels import EvoMethods

    m = EvoMethods[method]
    n = order
    jetmod.set_cap(n + 1)
    log.encode(sg.dispatcher, ns.dispatcher, sg.eko_perturbative, sg.u_vec, sg.r_vec)
    rp = (MOD, "replay_scaling", {"order": order, "nf": nf, "method": method})
    log.register_replay("fallback:replay_scaling", rp, _sampler)
    key = "singlet.%s:%d" % (method, order)

    def run():
        a0, a1, al0, al1 = jet_couplings(seed=False)
        assume(al1 - al0, "!=0")
        gs, p, q = _diag(order)
        nfs, env = _env(order, nf, shape, (sg, ns))
        o = (order, 0)
        with env:
            ES = sg.dispatcher(o, m, gs, a1, a0, nfs, 1, o)
            ENs = [ns.dispatcher(o, m, g, a1, a0, nfs) for g in (p, q)]
        for (i, j) in ((0, 1), (1, 0)):
            if not _zero_through(log, as_jet(ES[i, j]), n, "singlet %s order %d nf %s: off-diagonal [%d,%d] == O(lam^%d)" % (method, order, nf, i, j, n), key + ":offdiag", rp):
                return
        for i in (0, 1):
            d = as_jet(ES[i, i]) - as_jet(ENs[i])
            if not _zero_through(log, d, n, "singlet %s order %d nf %s: [%d,%d] - non-singlet %s == O(lam^%d)" % (method, order, nf, i, i, m.name, n), key + ":diag", rp):
                return
        log.twin("domain")
        log.collect_ctx()

    _r, pm = explore(run)
    log.path_stats(pm)


def case_iterate(log, order, nf, method, shape="complex"):
    """one iterate step a0 -> a0(1+eps) with diagonal gamma vs the exact NS kernel, through eps^2."""
    ns, sg, ei, as4, ad = kernel_modules()
    as4.np.exact_const_sqrt = True
    from eko.kernels import EvoMethods

    m = EvoMethods[method]
    jetmod.set_cap(5)
    log.encode(sg.dispatcher, sg.eko_iterate, ns.dispatcher)
    rp = (MOD, "replay_iterate", {"order": order, "nf": nf, "method": method})
    log.register_replay("fallback:replay_iterate", rp, _sampler)
    key = "singlet.%s:%d" % (method, order)

    def run():
        a0 = SR.var("a0")
        assume(a0, ">0")
        assume(Fraction(1, 10) - a0, ">0")
        eps = Jet.lam()
        a1 = a0 * (1 + eps)
        gs, p, q = _diag(order)
        nfs, env = _env(order, nf, shape, (sg, ns))
        if nf is None and order == 4 and shape == "real":
            assume(SR.var("r3") - 2 * a0, ">0")
        o = (order, 0)
        saved_ad = sg.ad
        sg.ad = AdSeries(saved_ad)  # exp_matrix_2D by its contract (C23): power series of the matrix exponential in the step
        try:
            with env:
                ES = sg.dispatcher(o, m, gs, a1, a0, nfs, 1, o)
                ENs = [ns.dispatcher(o, EvoMethods.ITERATE_EXACT, g, a1, a0, nfs) for g in (p, q)]
        finally:
            sg.ad = saved_ad
        for (i, j) in ((0, 1), (1, 0)):
            if not _zero_through(log, as_jet(ES[i, j]), 3, "singlet %s order %d nf %s: off-diagonal [%d,%d] == O(eps^3)" % (method, order, nf, i, j), key + ":offdiag", rp):
                return
        for i in (0, 1):
            d = as_jet(ES[i, i]) - as_jet(ENs[i])
            if not _zero_through(log, d, 3, "singlet %s order %d nf %s: [%d,%d] - exact non-singlet == O(eps^3)" % (method, order, nf, i, i), key + ":diag", rp):
                return
        log.twin("domain")
        log.collect_ctx()

    _r, pm = explore(run)
    log.path_stats(pm)


# ---------------------------------------------------------------------------
def _sampler(rng):
    p = {"a0": rnd(rng, 0.005, 0.04), "a1": rnd(rng, 0.005, 0.04), "alpha0": rnd(rng, 0.01, 0.04), "alpha1": rnd(rng, 0.01, 0.04)}
    for k in range(4):
        for i in range(2):
            p["g%d_%d%d" % (k, i, i)] = rnd(rng, -3, 3) * 4**k
    return p


def _gam(point, order):
    import numpy as np

    g = np.zeros((order, 2, 2), dtype=complex)
    for k in range(order):
        for i in range(2):
            re = float(point.get("g%d_%d%d" % (k, i, i), 1.0 + i + k))
            g[k, i, i] = complex(re, 0.25 * (i + 1))
    return g


def replay(point, order, nf, method):
    import numpy as np
    import eko.kernels.singlet as sg
    import eko.kernels.non_singlet as ns
    from eko.kernels import EvoMethods

    if not all(k in point for k in ("a0", "a1")):
        return None
    f = fpoint({k: point[k] for k in ("a0", "a1")})
    if not (0 < f["a0"] < 0.1 and 0 < f["a1"] < 0.1 and abs(f["a0"] - f["a1"]) > 1e-4):
        return None
    g = _gam(point, order)
    m = EvoMethods[method]
    mns = EvoMethods[NS_PARTNER.get(method, method)]
    o = (order, 0)
    if nf is None:
        for nfx in (3, 4, 5, 6):
            r = replay(point, order, nfx, method)
            if r:
                return r
        return None
    ES = np.array(sg.dispatcher(o, m, g, f["a1"], f["a0"], nf, 1, o), dtype=complex)
    if not np.all(np.isfinite(ES)):
        return {"detail": "singlet %s order %d nf %d returned non-finite entries for diagonal gamma: %r" % (method, order, nf, ES)}
    scale = max(1.0, np.abs(ES).max())
    if abs(ES[0, 1]) > 1e-9 * scale or abs(ES[1, 0]) > 1e-9 * scale:
        return {"detail": "singlet %s order %d nf %d: off-diagonals %r, %r for diagonal gamma" % (method, order, nf, ES[0, 1], ES[1, 0])}
    for i in range(2):
        EN = complex(ns.dispatcher(o, mns, g[:, i, i], f["a1"], f["a0"], nf))
        if abs(ES[i, i] - EN) > 1e-8 * max(abs(EN), 1e-30):
            return {"detail": "singlet %s order %d nf %d: E[%d,%d] = %r but non-singlet %s gives %r (a0=%r a1=%r gamma_k=%r)" % (method, order, nf, i, i, ES[i, i], mns.name, EN, f["a0"], f["a1"], list(g[:, i, i]))}
    return None


def _local_exponent(errs, lams):
    import math

    pairs = [(l, e) for l, e in zip(lams, errs) if e > 1e-13]
    if len(pairs) < 2:
        return 99.0
    (l1, e1), (l2, e2) = pairs[-2], pairs[-1]
    return math.log(e1 / e2) / math.log(l1 / l2)


def replay_scaling(point, order, nf, method):
    import numpy as np
    import eko.kernels.singlet as sg
    import eko.kernels.non_singlet as ns
    from eko.kernels import EvoMethods

    if not all(k in point for k in ("alpha0", "alpha1")):
        return None
    f = fpoint({k: point[k] for k in ("alpha0", "alpha1")})
    if not (0 < f["alpha0"] < 0.06 and 0 < f["alpha1"] < 0.06 and abs(f["alpha0"] - f["alpha1"]) > 1e-3):
        return None
    g = _gam(point, order)
    m = EvoMethods[method]
    o = (order, 0)
    if nf is None:
        for nfx in (3, 4, 5, 6):
            r = replay_scaling(point, order, nfx, method)
            if r:
                return r
        return None
    lams = [1.0, 0.5, 0.25, 0.125]
    errs, offs = [], []
    for l in lams:
        a0, a1 = l * f["alpha0"], l * f["alpha1"]
        ES = np.array(sg.dispatcher(o, m, g, a1, a0, nf, 1, o), dtype=complex)
        offs.append(float(max(abs(ES[0, 1]), abs(ES[1, 0]))))
        errs.append(float(max(abs(ES[i, i] - complex(ns.dispatcher(o, m, g[:, i, i], a1, a0, nf))) for i in range(2))))
    if max(offs) > 1e-9:
        return {"detail": "singlet %s order %d nf %d: non-zero off-diagonals %r for diagonal gamma" % (method, order, nf, offs)}
    ex = _local_exponent(errs, lams)
    if ex < order - 0.5:
        return {"detail": "singlet %s order %d nf %d vs non-singlet: differences %r at lam=1,1/2,1/4,1/8 scale like lam^%.2f < %d" % (method, order, nf, errs, ex, order)}
    return None


def replay_iterate(point, order, nf, method):
    import numpy as np
    import eko.kernels.singlet as sg
    import eko.kernels.non_singlet as ns
    from eko.kernels import EvoMethods

    a0 = float(point.get("a0", 0.02))
    if not 0 < a0 < 0.1:
        return None
    g = _gam(point, order)
    m = EvoMethods[method]
    o = (order, 0)
    if nf is None:
        for nfx in (3, 4, 5, 6):
            r = replay_iterate(point, order, nfx, method)
            if r:
                return r
        return None
    epss = [0.4, 0.2, 0.1, 0.05]
    errs, offs = [], []
    for e in epss:
        a1 = a0 * (1 + e)
        ES = np.array(sg.dispatcher(o, m, g, a1, a0, nf, 1, o), dtype=complex)
        offs.append(float(max(abs(ES[0, 1]), abs(ES[1, 0]))))
        errs.append(float(max(abs(ES[i, i] - complex(ns.dispatcher(o, EvoMethods.ITERATE_EXACT, g[:, i, i], a1, a0, nf))) for i in range(2))))
    if max(offs) > 1e-9:
        return {"detail": "singlet %s order %d nf %d: non-zero off-diagonals %r for diagonal gamma" % (method, order, nf, offs)}
    ex = _local_exponent(errs, epss)
    if ex < 2.5:
        return {"detail": "singlet %s (one step) vs exact non-singlet: differences %r at eps=0.4..0.05 scale like eps^%.2f < 3" % (method, errs, ex)}
    return None


def main():
    chk = H.Check("C09")
    thorough = H.tier() == "thorough"
    chk.bounds = ["orders 2-4, all eight methods through the real dispatchers; beta_k symbolic (module `beta` replaced in the kernel modules' namespace by a proxy returning symbols: one run covers every nf) and additionally the real eko.beta values (quick nf=4, thorough nf 3-6) at orders 2-3",
                  "order 4: roots() stubbed by symbolic roots tied to b_k by Vieta (argument-checked); shapes: one real + conjugate pair (quick), also three real (thorough)",
                  "gamma_k = diag(p_k, q_k), p_k, q_k real symbols; a0 != a1 in (0, 1/10)",
                  "perturbative / ordered-truncated-vs-ordered-truncated: equality through lam^(n-1) (ev_op_iterations=1, ev_op_max_order=n)",
                  "iterate: one step a0 -> a0(1+eps), equality with the exact non-singlet kernel through eps^2"]
    chk.stubs = ["ekore exp_matrix_2D -> power series of the matrix exponential in the iterate (series-valued) cases only (C23 decides it computes the exponential)", "eko.beta -> BetaProxy (symbolic beta_k) inside eko.kernels.singlet / non_singlet", "as4_evolution_integrals.roots -> symbolic roots + Vieta (order 4)"]
    chk.out_of_claim = ["floating point; more than one iteration (C12 gives the per-step order)",
                        "iterate-expanded is compared with the exact non-singlet kernel because the singlet code runs eko_iterate for both labels"]
    shapes = {2: [None], 3: [None], 4: ["complex", "real"] if thorough else ["complex"]}
    # quick tier: the heavy exact-NNLO/N3LO decompose comparisons with symbolic beta and the higher-order iterate cases
    # are left to the thorough tier (decompose-exact at NNLO stays in quick through the concrete nf=4 run below)
    heavy = set()
    for o in (2, 3, 4):
        for sh in shapes[o]:
            tag = ("." + sh) if sh else ""
            kw = {"shape": sh} if sh else {}
            for meth in EXACT_GROUP:
                if thorough or ("exact", meth, o) not in heavy:
                    chk.case("exact.%s.o%d.sym%s" % (meth, o, tag), case_exact, order=o, nf=None, method=meth, **kw)
            for meth in ("ORDERED_TRUNCATED", "PERTURBATIVE_EXACT", "PERTURBATIVE_EXPANDED"):
                if thorough or ("jets", meth, o) not in heavy:
                    chk.case("jets.%s.o%d.sym%s" % (meth, o, tag), case_jets, order=o, nf=None, method=meth, **kw)
            for meth in ("ITERATE_EXACT", "ITERATE_EXPANDED"):
                if thorough or ("iterate", meth, o) not in heavy:
                    chk.case("iterate.%s.o%d.sym%s" % (meth, o, tag), case_iterate, order=o, nf=None, method=meth, **kw)
    # the same through the real eko.beta values (orders 2-3; at order 4 the closed-form roots of the concrete
    # cubic make the normal forms too large -- covered by the symbolic-beta runs above, which hold for every nf)
    for nf in ((3, 4, 5, 6) if thorough else (4,)):
        for o in (2, 3):
            for meth in EXACT_GROUP:
                chk.case("exact.%s.o%d.nf%d" % (meth, o, nf), case_exact, order=o, nf=nf, method=meth)
    # "every singlet solution method ... the non-singlet solution of the same method": the singlet dispatcher hands each method name to
    # the kernel and fill mode documented for it (shared with C12)
    from . import C12 as c12

    for o in (2, 3):
        chk.case("dispatcher.routing.o%d" % o, c12.case_routing, order=o)
    return chk.run()


if __name__ == "__main__":
    import sys

    sys.exit(main())
