"""C18  MSbar heavy-quark masses are computable fixed points m(m) = m.

`scipy.optimize.fsolve` and `scipy.integrate.quad` are Fortran; they are replaced in eko.msbar_masses' namespace by stubs of their documented
contracts.  Real code executed symbolically: msbar_masses.compute, solve, evolve, ker_dispatcher, ker_expanded, ker_exact,
compute_matching_coeffs_up/_down (+ Couplings.a / compute and the expanded coupling solutions underneath `solve`).

(i)   bookkeeping of `compute` with solve / evolve / Couplings replaced by recorders returning arbitrary positive symbols; reference masses, their
      scales and the coupling reference scale symbolic, nf_ref in {3,4,5,6} enumerated: ValueError is raised exactly on the documented inconsistent
      configurations (or unsorted results), every quark is solved in the patch adjoining its threshold on the side of the coupling reference,
      starting from its reference point or -- iff that lies in another patch -- from the value evolved to the adjoining wall; the result is sorted.
(ii)  fsolve stubbed by its contract (calls the residual with a length-1 ndarray, returns one) above the REAL solve / ker_dispatcher / Couplings:
      `solve` returns without error on every feasible path and returns fsolve's root; the residual handed to fsolve is m2_ref*ker(m2 <- q2m_ref)^2 - m2.
(iii) ker_expanded (jets a0 = lam*alpha0, a1 = lam*alpha1, AD in alpha1, symbolic beta_k, gamma_k):
      a1 d ker/d a1 - ker * sum gamma_k a1^k / sum beta_k a1^k = O(a^order),  ker(a0,a0) = 1;
      ker_exact: the integrand handed to quad equals gamma_m(a)/(-beta(a)), limits (a0,a1), result exp(integral);
      ker_dispatcher: couplings requested at (q2m_ref*xif2, nf) and (q2_to*xif2, nf), kernel called as ker(a0, a1, order, nf) by method.
(v)   io.runcards.masses (the runner's entry point) with msbar_masses.compute a recorder: hands down the card's masses / couplings / order, the coupling
      method of the evolution method, the SQUARED matching ratios and xif2 = xif^2; pole scheme: squared values, no computation.
(vi)  evolve's switch scale: with the coupling object's own matching scales W_i, the ratios k_i and xif2 symbolic, the scale handed to the coupling at a
      threshold (switch scale * xif2) is W_i = k_i m_i^2 xif2, i.e. evolve leaves the patch where its logarithm ln k_i and the coupling object place the threshold.
(iv)  evolve's matching loop (reference ON a wall, target the same wall in the next patch): factors applied = the table of the right direction / nf /
      logarithm with a_s of the upper patch at wall*xif2; m^2 changes by the square of the published zeta_m (refs/decoupling.py) through O(a^(order-1));
      logarithms as required by RG invariance of m^2 in both theories; down o up = 1 through the order.
"""
from fractions import Fraction
import types

import numpy as realnp
import z3

from .cplkit import *  # noqa
from .kern import jet_tangent
from symx.solver import explore, prove_zero, prove_rel, prove_formula, Verdict
from symx import harness as H
from refs import decoupling as DEC
from refs import rge_literature as LIT

MOD = "harness.C18"
WALLS = [3.0, 25.0, 30000.0]


class RatioTok:
    """threshold ratio: concrete value for placing the walls, free symbol for its logarithm"""

    def __init__(self, L, val=1.0):
        self.L, self.val = L, val

    def __rmul__(self, o):
        return o * self.val

    __mul__ = __rmul__


class C18Numpy(CplNumpy):
    def log(self, x):
        if isinstance(x, RatioTok):
            return x.L
        return CplNumpy.log(self, x)


def _load():
    mm = cpl_module("eko.msbar_masses")
    mm.np = C18Numpy()
    mm.float = sym_float
    cpl = cpl_module("eko.couplings")
    cpl.float = sym_float
    return mm, cpl


def _ok(log, what):
    log.ok(prove_zero(SR(0), what))


class RgeSyms:
    """argument-checked symbolic beta / gamma coefficients for eko.msbar_masses"""

    def __init__(self, nf):
        self.nf = nf
        self.B = [SR.var("beta%d" % k) for k in range(4)]
        self.G = [SR.var("gamma%d" % k) for k in range(4)]
        assume(self.B[0], ">0")

    def _chk(self, nf):
        if not (nf is self.nf or nf == self.nf):
            raise EngineError("coefficient requested for nf=%r, harness passed %r" % (nf, self.nf))

    def beta_qcd(self, k, nf):
        self._chk(nf)
        if k[1] != 0:
            raise EngineError("mixed beta requested by the mass kernel")
        return self.B[k[0] - 2]

    def b_qcd(self, k, nf):
        return self.beta_qcd(k, nf) / self.B[0]

    def gamma(self, order, nf):
        self._chk(nf)
        return self.G[order - 1]

    def install(self, mm):
        self.saved = (mm.beta_qcd, mm.b_qcd, mm.gamma)
        mm.beta_qcd, mm.b_qcd, mm.gamma = self.beta_qcd, self.b_qcd, self.gamma

    def restore(self, mm):
        mm.beta_qcd, mm.b_qcd, mm.gamma = self.saved


# ---------------------------------------------------------------------------
# (iii) kernels
# ---------------------------------------------------------------------------
def case_ker_expanded(log):
    mm, _cpl = _load()
    log.encode(mm.ker_expanded)
    D = Decider(log)

    def mk(order):
        def run():
            jetmod.set_cap(order + 1)
            sy = RgeSyms(4)
            sy.install(mm)
            try:
                al0, al1 = SR.var("alpha0"), SR.var("alpha1", seed=True)
                assume(al0, ">0")
                assume(al1, ">0")
                lam = Jet.lam()
                a0, a1 = lam * al0, lam * al1
                ker = as_jet(mm.ker_expanded(a0, a1, (order, 0), 4))
                kern = Jet(ker.v, [c.novar() for c in ker.c], ker.prec)
                a1n = lam * al1.novar()
                num = sum(sy.G[k] * a1n**k for k in range(order))
                den = sum(sy.B[k] * a1n**k for k in range(order))
                T = jet_tangent(ker) * al1.novar() - kern * num / den
                rp = (MOD, "replay_ker", {"order": order, "method": "expanded"})
                if T.prec < order:
                    raise EngineError("residual known to O(lam^%d) only" % T.prec)
                for k in range(min(T.v, 0) if T.c else 0, order):
                    v = prove_zero(T._known(k), "ker_expanded order %d: a^%d coefficient of a1 dk/da1 - k*gamma_m(a1)/(-beta(a1)/a1) == 0" % (order, k))
                    D(v, key="ker_expanded:rge", replay=rp, sampler=_sampler)
                one = as_jet(mm.ker_expanded(a0, a0, (order, 0), 4)) - 1
                for k in range(0, order + 1):
                    v = prove_zero(one._known(k), "ker_expanded order %d at a1 == a0: a^%d coefficient of k - 1 == 0" % (order, k))
                    D(v, key="ker_expanded:unit", replay=rp, sampler=_sampler)
                log.twin("domain")
                log.collect_ctx()
            finally:
                sy.restore(mm)

        return run

    for order in (1, 2, 3, 4):
        _r, pm = explore(mk(order))
        log.path_stats(pm)


class QuadStub:
    def __init__(self):
        self.calls = []

    def quad(self, func, a, b, args=(), **kw):
        val = SR.var("QUADVAL%d" % len(self.calls))
        self.calls.append({"func": func, "a": a, "b": b, "args": args, "kw": kw, "val": val})
        if kw.get("full_output"):
            return (val, SR(0), {})
        return (val, SR(0))


def case_ker_exact(log):
    mm, _cpl = _load()
    log.encode(mm.ker_exact, mm.ker_dispatcher)
    D = Decider(log)

    def mk(order):
        def run():
            sy = RgeSyms(5)
            sy.install(mm)
            real_int = mm.integrate
            stub = QuadStub()
            mm.integrate = types.SimpleNamespace(quad=stub.quad)
            try:
                a0, a1, a = SR.var("a0"), SR.var("a1"), SR.var("a")
                for x in (a0, a1, a):
                    assume(x, ">0")
                res = mm.ker_exact(a0, a1, (order, 0), 5)
                rp = (MOD, "replay_ker", {"order": order, "method": "exact"})
                if len(stub.calls) != 1:
                    raise EngineError("quad called %d times" % len(stub.calls))
                c = stub.calls[0]
                got = c["func"](a, *c["args"])
                want = sum(sy.G[k] * a**k for k in range(order)) / (a * sum(sy.B[k] * a**k for k in range(order)))
                v = prove_zero(SR(0) + got - want, "ker_exact order %d: integrand == sum gamma_k a^k / (a sum beta_k a^k)" % order)
                D(v, key="ker_exact:integrand", replay=rp, sampler=_sampler)
                v = prove_zero(SR(0) + c["a"] - a0, "ker_exact order %d: lower limit is a0" % order)
                D(v, key="ker_exact:limits", replay=rp, sampler=_sampler)
                v = prove_zero(SR(0) + c["b"] - a1, "ker_exact order %d: upper limit is a1" % order)
                D(v, key="ker_exact:limits", replay=rp, sampler=_sampler)
                v = prove_zero(SR(0) + res - c["val"].exp(), "ker_exact order %d: result == exp(integral)" % order)
                D(v, key="ker_exact:exp", replay=rp, sampler=_sampler)
                log.twin("domain")
            finally:
                mm.integrate = real_int
                sy.restore(mm)

        return run

    for order in (1, 2, 3, 4):
        _r, pm = explore(mk(order))
        log.path_stats(pm)

    # dispatcher
    def run_disp(method):
        def run():
            calls = []

            class FakeSC:
                order = (3, 0)

                def a(self, scale, nf=None):
                    calls.append((scale, nf))
                    return [SR.var("A%d" % len(calls)), SR.var("E%d" % len(calls))]

            sc = FakeSC()
            sc.method = method
            rec = []
            saved = (mm.ker_expanded, mm.ker_exact)
            mm.ker_expanded = lambda *a: rec.append(("expanded", a)) or SR.var("K")
            mm.ker_exact = lambda *a: rec.append(("exact", a)) or SR.var("K")
            try:
                q_to, q_ref, xif2 = SR.var("q2_to"), SR.var("q2m_ref"), SR.var("xif2")
                out = mm.ker_dispatcher(q_to, q_ref, sc, xif2, 4)
            finally:
                mm.ker_expanded, mm.ker_exact = saved
            rp = (MOD, "replay_ker", {"order": 3, "method": method})
            ok = len(calls) == 2 and len(rec) == 1 and rec[0][0] == method and len(rec[0][1]) == 4 and rec[0][1][2] == (3, 0) and rec[0][1][3] == 4 and calls[0][1] == 4 and calls[1][1] == 4
            v = prove_zero(SR(0 if ok else 1), "ker_dispatcher[%s]: two coupling requests with the given nf, kernel of the requested method called with (a0, a1, order, nf)" % method)
            D(v, key="ker_dispatcher:dispatch", replay=rp, sampler=_sampler)
            if ok:
                v = prove_zero(SR(0) + calls[0][0] - q_ref * xif2, "ker_dispatcher[%s]: a0 requested at q2m_ref*xif2" % method)
                D(v, key="ker_dispatcher:scales", replay=rp, sampler=_sampler)
                v = prove_zero(SR(0) + calls[1][0] - q_to * xif2, "ker_dispatcher[%s]: a1 requested at q2_to*xif2" % method)
                D(v, key="ker_dispatcher:scales", replay=rp, sampler=_sampler)
                v = prove_zero(SR(0) + rec[0][1][0] - SR.var("A1"), "ker_dispatcher[%s]: first kernel argument is the coupling at the initial scale" % method)
                D(v, key="ker_dispatcher:args", replay=rp, sampler=_sampler)
                v = prove_zero(SR(0) + rec[0][1][1] - SR.var("A2"), "ker_dispatcher[%s]: second kernel argument is the coupling at the final scale" % method)
                D(v, key="ker_dispatcher:args", replay=rp, sampler=_sampler)
                v = prove_zero(SR(0) + out - SR.var("K"), "ker_dispatcher[%s]: returns the kernel" % method)
                D(v, key="ker_dispatcher:args", replay=rp, sampler=_sampler)
            log.twin("domain")

        return run

    for method in ("expanded", "exact"):
        _r, pm = explore(run_disp(method))
        log.path_stats(pm)


def _sampler(rng):
    p = {"alpha0": rnd(rng, 0.01, 0.028), "alpha1": rnd(rng, 0.01, 0.028), "a0": rnd(rng, 0.01, 0.028), "a1": rnd(rng, 0.01, 0.028), "A": rnd(rng, 0.008, 0.025),
         "Lq": rnd(rng, -1.38, 1.38), "Lc": rnd(rng, -1.38, 1.38), "Lb": rnd(rng, -1.38, 1.38), "Lt": rnd(rng, -1.38, 1.38), "nf": Fraction(rng.randint(3, 5)),
         "x0": rnd(rng, 1.5, 30), "m2_ref": rnd(rng, 1.5, 30)}
    return p


# ---------------------------------------------------------------------------
# (iv) evolve: matching loop
# ---------------------------------------------------------------------------
class FakeCouplings:
    """stands for the Couplings object handed to evolve: concrete walls, symbolic a_s per (scale, nf) request (recorded)."""

    method = "expanded"

    def __init__(self, order, avals):
        self.order = (order, 0)
        self.atlas = types.SimpleNamespace(walls=[0] + list(WALLS) + [realnp.inf])
        self.avals = avals  # nf -> symbolic a_s returned for a request with that nf
        self.calls = []

    def a(self, scale, nf=None):
        self.calls.append((scale, nf))
        return [self.avals[int(nf)], SR.var("aem")]

    # the rest of the public interface of Couplings
    def a_s(self, scale, nf=None):
        return self.a(scale, nf)[0]

    def a_em(self, scale, nf=None):
        return self.a(scale, nf)[1]


def _steps(nf_from, nf_to):
    if nf_to > nf_from:
        return [(n, "up") for n in range(nf_from, nf_to)]
    return [(n - 1, "down") for n in range(nf_from, nf_to, -1)]


def _factor(A, tab, L, order):
    f = 1
    for n in range(1, order):
        for l in range(n + 1):
            f = f + A**n * L**l * tab[n, l]
    return f


def _lift_tab(tab):
    out = realnp.empty(tab.shape, dtype=object)
    for idx in realnp.ndindex(tab.shape):
        out[idx] = lift_exact(tab[idx])
    return out


def _install_lifted_up(mm):
    real_up = mm.compute_matching_coeffs_up
    if not getattr(real_up, "_lifted", False):
        def up(nf):
            return _lift_tab(real_up(nf))

        up._lifted = True
        up.__wrapped__ = real_up
        mm.compute_matching_coeffs_up = up


def _run_evolve(mm, order, nf_from, nf_to, avals, Ls, xif2, m2):
    steps = _steps(nf_from, nf_to)
    sc = FakeCouplings(order, avals)
    ratios = [RatioTok(L) for L in Ls]
    out = mm.evolve(m2, WALLS[steps[0][0] - 3], sc, ratios, xif2, WALLS[steps[-1][0] - 3], nf_ref=SR(nf_from), nf_to=SR(nf_to))
    return out, sc, steps


def case_evolve_loop(log, order):
    mm, cpl = _load()
    _install_lifted_up(mm)
    log.encode(mm.evolve, mm.compute_matching_coeffs_up.__wrapped__, mm.compute_matching_coeffs_down)
    D = Decider(log)

    def mk(nf_from, nf_to):
        def run():
            Ls = [SR.var("Lc"), SR.var("Lb"), SR.var("Lt")]
            avals = {n: SR.var("A%d" % n) for n in (3, 4, 5, 6)}
            xif2 = 1.0  # the scale handed to the coupling for symbolic xif2 and ratios is decided in evolve.scale; here the reference sits ON a wall
            m2 = SR.var("m2_ref")
            assume(m2, ">0")
            real_kd = mm.ker_dispatcher
            legs = []
            mm.ker_dispatcher = lambda q_to, q_ref, s, x, nf: legs.append((q_to, q_ref, nf)) or SR.var("KER%d" % len(legs))
            try:
                out, sc, steps = _run_evolve(mm, order, nf_from, nf_to, avals, Ls, xif2, m2)
            finally:
                mm.ker_dispatcher = real_kd
            want1, want2 = m2, m2
            for i, (nfl, d) in enumerate(steps):
                tab = mm.compute_matching_coeffs_up(SR(nfl)) if d == "up" else mm.compute_matching_coeffs_down(SR(nfl))
                f = _factor(avals[nfl + 1], tab, Ls[nfl - 3], order)
                want1, want2 = want1 * f, want2 * f * f
                if i + 1 < len(steps):
                    want1 = want1 * SR.var("KER%d" % (i + 1)) ** 2
                    want2 = want2 * SR.var("KER%d" % (i + 1)) ** 2
            tag = "evolve order %d, nf %d -> %d" % (order, nf_from, nf_to)
            rp = (MOD, "replay_evolve", {"order": order, "nf_from": nf_from, "nf_to": nf_to})
            # which power of the per-mass factor multiplies m^2 is the subject of evolve.physics; here: right table / coupling / logarithm / legs
            v = prove_zero((SR(0) + out - want1) * (SR(0) + out - want2), "%s: m^2 out == m^2 in * prod(table factor [to the 1st or 2nd power] with a_s of the upper patch, right logarithm) * prod(ker^2 of the legs)" % tag)
            D(v, key="evolve:matching:%s" % ("up" if nf_to > nf_from else "down"), replay=rp, sampler=_sampler)
            # couplings requested at wall*xif2 with the upper nf of the threshold
            okc = True
            for (scale, nf), (nfl, d) in zip([c for c in sc.calls], [s for s in steps for _ in range(sum(n + 1 for n in range(1, order)))]):
                if int(nf) != nfl + 1:
                    okc = False
                else:
                    vv = prove_zero(SR(0) + scale - WALLS[nfl - 3] * xif2, "%s: threshold coupling requested at wall*xif2" % tag)
                    if not vv.holds:
                        okc = False
            v = prove_zero(SR(0 if okc else 1), "%s: every threshold coupling is a_s^(nf+1)(wall*xif2)" % tag)
            D(v, key="evolve:as_thr", replay=rp, sampler=_sampler)
            want_legs = []
            for (n1, d1), (n2, d2) in zip(steps[:-1], steps[1:]):
                nfmid = n1 + 1 if d1 == "up" else n1
                want_legs.append((WALLS[n2 - 3], WALLS[n1 - 3], nfmid))
            okl = [(float(t), float(f), int(n)) for t, f, n in legs] == want_legs
            v = prove_zero(SR(0 if okl else 1), "%s: kernel legs between thresholds are %r" % (tag, want_legs))
            D(v, key="evolve:legs", replay=rp, sampler=_sampler)
            log.twin("domain")
            log.collect_ctx()

        return run

    for route in ((3, 4), (4, 5), (5, 6), (4, 3), (5, 4), (6, 5), (3, 5), (6, 4)):
        _r, pm = explore(mk(*route))
        log.path_stats(pm)


def _lit_zeta_m(nl, z3, A, L, order):
    """published zeta_m(A, L) truncated as the code truncates (n < order)"""
    t = DEC.zeta_m_msbar(nl, z3=z3, z4=lift_exact(float(DEC.ZETA4)), b4=lift_exact(float(DEC.B4)))
    f = 1
    for n in range(1, order):
        for l in range(n + 1):
            f = f + A**n * L**l * DEC.get(t, n, l)
    return f


def case_evolve_physics(log, order):
    """table level: the per-mass factor is the published zeta_m, RG consistent, down x up = 1;  evolve level: m^2 changes by its square."""
    mm, cpl = _load()
    _install_lifted_up(mm)
    log.encode(mm.evolve, mm.compute_matching_coeffs_up.__wrapped__, mm.compute_matching_coeffs_down, cpl.invert_matching_coeffs)
    D = Decider(log, max_replays=4)

    def mk(nfl):
        def run():
            jetmod.set_cap(order + 1)
            z3 = lift_exact(float(DEC.ZETA3))
            L = SR.var("Lq", seed=True)
            assume(L + Fraction(139, 100), ">=0")
            assume(Fraction(139, 100) - L, ">=0")
            Ln = L.novar()
            Ls = [SR.var("L0"), SR.var("L1"), SR.var("L2")]
            Ls[nfl - 3] = L
            lam = Jet.lam()
            top = order  # coefficients a^0 .. a^(order-1)
            Fd = as_jet(_factor(lam, mm.compute_matching_coeffs_down(SR(nfl)), L, order))
            Fu = as_jet(_factor(lam, mm.compute_matching_coeffs_up(SR(nfl)), L, order))
            Fdn = Jet(Fd.v, [c.novar() for c in Fd.c], Fd.prec)
            rpt = (MOD, "replay_table", {"nfl": nfl, "order": order})
            # (a) the downward factor is the published zeta_m (decimal a^3 entries to the printed digits)
            zm = as_jet(_lit_zeta_m(SR(nfl), z3, lam, Ln, order))
            diff = Fdn - zm
            for k in range(0, top):
                c = diff._known(k)
                if k == 3:
                    tol = Fraction(15, 10000)  # 118.248, 1.58257 nf, 71.7887 L, 7.85185 nf L with |L| <= 1.39, nf <= 5
                    for rel, expr, side in ((">=0", c + tol, "lower"), ("<=0", c - tol, "upper")):
                        v = prove_rel(expr, rel, "mass decoupling nl=%d: a^3 coefficient of the downward factor equals the published zeta_m to the printed digits (%s)" % (nfl, side))
                        D(v, key="compute_matching_coeffs_down[mass]:a3", replay=rpt, sampler=_sampler)
                else:
                    v = prove_zero(c, "mass decoupling nl=%d: a^%d coefficient of the downward factor == published zeta_m" % (nfl, k))
                    D(v, key="compute_matching_coeffs_down[mass]:a%d" % k, replay=rpt, sampler=_sampler)
            # (b) inverse
            prod = Fd * Fu - 1
            for k in range(0, top):
                v = prove_zero(prod._known(k).novar(), "mass decoupling nl=%d order %d: a^%d coefficient of (down factor)(up factor) - 1 == 0" % (nfl, order, k))
                D(v, key="compute_matching_coeffs_down[mass]:inverse", replay=rpt, sampler=_sampler)
            # (c) RG invariance of the mass on both sides, independent of the published zeta_m:  F = m_low/m_up as function of A = a^(nf+1), L
            #     -gamma^(nf)(a_low) F = -gamma^(nf+1)(A) F + dF/dA beta^(nf+1)(A) + dF/dL (1 + 2 gamma^(nf+1)(A)),   a_low = A zeta_g^2(A, L) (published)
            dFdL = jet_tangent(Fd)
            dFdA = Jet(0, [Fdn._known(k) * k for k in range(1, order + 1)], INF)
            bu = [LIT.beta0(nfl + 1), LIT.beta1(nfl + 1), LIT.beta2(nfl + 1)]
            gl = [LIT.gamma0(), LIT.gamma1(nfl), LIT.gamma2(nfl, z3)]
            gu = [LIT.gamma0(), LIT.gamma1(nfl + 1), LIT.gamma2(nfl + 1, z3)]
            zg = DEC.zeta_g2_msbar(nfl, z3=z3)
            a_low = lam * (1 + sum(lam**n * Ln**l * DEC.get(zg, n, l) for n in range(1, 4) for l in range(n + 1)))
            gam_low = sum(g * a_low ** (k + 1) for k, g in enumerate(gl))
            gam_up = sum(g * lam ** (k + 1) for k, g in enumerate(gu))
            beta_up = -sum(b * lam ** (k + 2) for k, b in enumerate(bu))
            res = as_jet(-gam_low * Fdn + gam_up * Fdn - dFdA * beta_up - dFdL * (1 + 2 * gam_up))
            for k in range(0, top):
                c = res._known(k)
                if k == 3:
                    tol = Fraction(2, 1000)
                    for rel, expr, side in ((">=0", c + tol, "lower"), ("<=0", c - tol, "upper")):
                        v = prove_rel(expr, rel, "mass decoupling nl=%d: a^3 coefficient of the RG consistency condition vanishes to the printed digits of the table (%s)" % (nfl, side))
                        D(v, key="compute_matching_coeffs_down[mass]:rg", replay=rpt, sampler=_sampler)
                else:
                    v = prove_zero(c, "mass decoupling nl=%d: a^%d coefficient of the RG consistency condition of the running mass == 0" % (nfl, k))
                    D(v, key="compute_matching_coeffs_down[mass]:rg", replay=rpt, sampler=_sampler)
            # (d) evolve works on m^2: across the threshold m^2 must change by the SQUARE of the factor for m
            avals = {n: lam for n in (3, 4, 5, 6)}
            for direction, (n1, n2), Fm in (("downward", (nfl + 1, nfl), Fdn), ("upward", (nfl, nfl + 1), Jet(Fu.v, [c.novar() for c in Fu.c], Fu.prec))):
                R, _sc, _st = _run_evolve(mm, order, n1, n2, avals, [x.novar() for x in Ls], 1.0, SR(1))
                R = as_jet(R)
                d2 = Jet(R.v, [c.novar() for c in R.c], R.prec) - Fm * Fm
                rp = (MOD, "replay_evolve", {"order": order, "nf_from": n1, "nf_to": n2, "physics": True})
                for k in range(0, top):
                    v = prove_zero(d2._known(k), "evolve order %d threshold %d|%d %s: a^%d coefficient of [m^2 out / m^2 in] - [factor for m]^2 == 0" % (order, nfl, nfl + 1, direction, k))
                    D(v, key="evolve:mass-matching-not-squared", replay=rp, sampler=_sampler)
            log.twin("domain")
            log.collect_ctx()

        return run

    for nfl in (3, 4, 5):
        _r, pm = explore(mk(nfl))
        log.path_stats(pm)


# ---------------------------------------------------------------------------
# (vi) where evolve switches nf: the matching scale its logarithm and its coupling request assume
# ---------------------------------------------------------------------------
SR.__format__ = lambda self, spec: "<sym>"  # Atlas.__init__ logs its walls with "{w:.2e}"


def case_evolve_scale(log, order):
    """evolve with a coupling object whose own matching scales are free symbols W_i (as compute's sc() builds them: W_i = m_i^2 * k_i * xif2), threshold
    ratios k_i and xif2 symbolic, reference and target scales symbolic (np.isclose forks), kernels recorded.  Across every threshold crossed:
    the scale T at which evolve leaves the patch, times xif2 (the argument it hands to the coupling), must be the coupling's own matching scale W_i --
    otherwise a_s^(nf+1) is requested where the coupling object itself still is in the nf-flavour regime and the logarithm L = ln k_i = ln(T/m_i^2) it
    applies is not the logarithm of the scale it matches at."""
    mm, cpl = _load()
    _install_lifted_up(mm)
    log.encode(mm.evolve)
    D = Decider(log)

    def mk(nf_from, nf_to):
        def run():
            m2q = [SR.var("m2_%s" % q) for q in "cbt"]
            ks = [SR.var("k_%s" % q) for q in "cbt"]
            xif2 = SR.var("xif2")
            for x in m2q + ks + [xif2]:
                assume(x, ">0")
            W = [m2q[i] * ks[i] * xif2 for i in range(3)]  # the walls of the coupling object compute() builds
            sc = FakeCouplings(order, {n: SR.var("A%d" % n) for n in (3, 4, 5, 6)})
            sc.atlas = types.SimpleNamespace(walls=[0] + W + [realnp.inf])
            ratios = [RatioTok(SR.var("L_%s" % q), val=ks[i]) for i, q in enumerate("cbt")]
            q0, q1 = SR.var("q2m_ref"), SR.var("q2_to")
            assume(q0, ">0")
            assume(q1, ">0")
            legs = []
            real_kd = mm.ker_dispatcher
            mm.ker_dispatcher = lambda q_to, q_ref, s_, x, nf: legs.append((q_to, q_ref, nf)) or SR.var("KER%d" % len(legs))
            try:
                mm.evolve(SR.var("m2_ref"), q0, sc, ratios, xif2, q1, nf_ref=SR(nf_from), nf_to=SR(nf_to))
            finally:
                mm.ker_dispatcher = real_kd
            steps = _steps(nf_from, nf_to)
            per = sum(n + 1 for n in range(1, order))
            rp = (MOD, "replay_evolve_scale", {"order": order})
            tag = "evolve order %d nf %d -> %d" % (order, nf_from, nf_to)
            ok = len(sc.calls) == per * len(steps)
            v = prove_zero(SR(0 if ok else 1), "%s: one block of threshold-coupling requests per threshold crossed" % tag)
            D(v, key="evolve:as_thr", replay=rp, sampler=_sampler_scale)
            if ok:
                for j, (nfl, d) in enumerate(steps):
                    scale, nf = sc.calls[j * per]
                    i = nfl - 3
                    v = prove_zero(SR(0) + scale - W[i], "%s, threshold %d|%d: the scale handed to the coupling when matching (switch scale * xif2) is the coupling's own matching scale" % (tag, nfl, nfl + 1))
                    D(v, key="evolve:matching-scale", replay=rp, sampler=_sampler_scale)
                    v = prove_zero(SR(0) + scale - ks[i] * m2q[i] * xif2, "%s, threshold %d|%d: the switch scale is k*m^2, the scale whose logarithm ln k is applied" % (tag, nfl, nfl + 1))
                    D(v, key="evolve:matching-scale", replay=rp, sampler=_sampler_scale)
            log.twin("domain")
            log.collect_ctx()

        return run

    for route in ((3, 4), (5, 4), (4, 6), (6, 3)):
        _r, pm = explore(mk(*route), max_paths=256)
        log.path_stats(pm)


def _sampler_scale(rng):
    return {"k_b": rnd(rng, 1.3, 2.0) if rng.random() < 0.5 else rnd(rng, 0.5, 0.8), "xif2": Fraction(1), "q2m_ref": rnd(rng, 90, 200), "q2_to": rnd(rng, 6, 12)}


def replay_evolve_scale(point, order):
    """real evolve, coupling object built as compute's sc() does (masses, ratios*xif2), reference in the nf=5 region above the bottom matching scale,
    target below it; oracle: d ln m^2/d ln s = -2 gamma_m(a_s(s*xif2)) integrated piecewise (literature gamma_m; a_s from the same coupling object with
    the nf of each side) with the nf switch and the decoupling factor (as evolve applies it: first power) placed at s = k_b*m_b^2."""
    import math
    import mpmath as mp
    from eko import msbar_masses as mm

    k = float(point.get("k_b", 1.8))
    x = float(point.get("xif2", 1.0))
    q0, q1 = float(point.get("q2m_ref", 120.0)), float(point.get("q2_to", 8.0))
    if not (0.45 <= k <= 2.2 and abs(k * x - 1) > 0.15 and 0.5 <= x <= 2):
        return None
    masses2 = [2.0, 20.0, 30000.0]
    T = k * masses2[1]
    if not (q0 > 1.3 * max(T, T * k * x) and 2.5 < q1 < 0.75 * min(T, T * k * x)):
        return None
    ratios = [1.0, k, 1.0]
    sc = _real_sc(order, "exact", 5, masses2, [r * x for r in ratios], alphas=0.118, mu=91.0)
    got = float(mm.evolve(1.0, q0, sc, ratios, x, q1, nf_ref=5, nf_to=4))
    z3v, z4v, z5v = (Fraction(float(mp.zeta(n))) for n in (3, 4, 5))

    def gam(nf):
        return [float(g) for g in (LIT.gamma0(), LIT.gamma1(nf), LIT.gamma2(nf, z3v), LIT.gamma3(nf, z3v, z4v, z5v))][:order]

    def leg(s0, s1, nf):
        g = gam(nf)
        f = lambda t: -2 * sum(c * float(sc.a(math.exp(t) * x, nf)[0]) ** (i + 1) for i, c in enumerate(g))
        return float(mp.exp(mp.quad(f, [math.log(s0), math.log(s1)])))

    A = float(sc.a(T * x, 5)[0])
    dn = mm.compute_matching_coeffs_down(4)
    L = math.log(k)
    fac = 1 + sum(A**n * L**l * dn[n, l] for n in range(1, order) for l in range(n + 1))
    want = leg(q0, T, 5) * fac * leg(T, q1, 4)
    if abs(got / want - 1) > 4e-5:
        return {"detail": "evolve(m2=1 at %r (nf=5) -> %r (nf=4)), bottom mass^2 %r, matching ratio %r, xif2 %r, order %d: %r; mass RGE with the nf switch and the decoupling factor at "
                "mu^2 = ratio*m_b^2 = %r gives %r (evolve places its switch at %r)" % (q0, q1, masses2[1], k, x, order, got, T, want, T * k * x)}
    return None


# ---------------------------------------------------------------------------
# (ii) fsolve contract above the real solve / ker_dispatcher / Couplings
# ---------------------------------------------------------------------------
class FsolveStub:
    """documented contract of scipy.optimize.fsolve for a scalar start value: x0 is converted with asarray(x0).flatten() (a length-1 array), the
    residual is called as func(x, *args) with that ndarray and must return something of the same length; a length-1 ndarray is returned."""

    def __init__(self):
        self.calls = []

    def fsolve(self, func, x0, args=(), **kw):
        x = realnp.empty(1, dtype=object)
        x[0] = x0
        r = func(x, *args)
        root = realnp.empty(1, dtype=object)
        root[0] = SR.var("ROOT")
        self.calls.append({"x": x, "r": r, "args": args, "root": root})
        return root


def _real_couplings(cpl, order, method, nf_ref, scheme="MSBAR"):
    from eko.quantities.couplings import CouplingEvolutionMethod, CouplingsInfo
    from eko.quantities.heavy_quarks import QuarkMassScheme

    info = CouplingsInfo(alphas=0.118, alphaem=0.007496, ref=(91.0, nf_ref), em_running=False)
    meth = CouplingEvolutionMethod.EXACT if method == "exact" else CouplingEvolutionMethod.EXPANDED
    thr = [0.0] * (nf_ref - 3) + [realnp.inf] * (6 - nf_ref)
    return cpl.Couplings(info, (order, 0), meth, [1.0, 1.0, 1.0], QuarkMassScheme[scheme], thr)


def case_solve(log, order, method):
    mm, cpl = _load()
    log.encode(mm.solve, mm.ker_dispatcher, mm.ker_expanded, mm.ker_exact, cpl.Couplings.a, cpl.Couplings.compute)
    D = Decider(log, max_replays=2)
    from .C15 import IvpStub

    def run():
        x0 = SR.var("x0")  # = q2m_ref, the start value handed to fsolve
        m2 = SR.var("m2_ref")
        assume(x0 - 1, ">0")
        assume(1000 - x0, ">0")
        assume(m2 - 1, ">0")
        assume(1000 - m2, ">0")
        sc = _real_couplings(cpl, order, method, 5)
        fs = FsolveStub()
        real_opt, real_int, real_scipy = mm.optimize, mm.integrate, cpl.scipy
        mm.optimize = types.SimpleNamespace(fsolve=fs.fsolve)
        qs = QuadStub()
        mm.integrate = types.SimpleNamespace(quad=qs.quad)
        ivp = IvpStub()
        cpl.scipy = types.SimpleNamespace(integrate=types.SimpleNamespace(solve_ivp=ivp.solve_ivp))
        rp = (MOD, "replay_solve", {"order": order, "method": method})
        what = "solve[order %d, %s]: returns without error (fsolve calls the residual with a length-1 ndarray)" % (order, method)
        try:
            try:
                out = mm.solve(m2, x0, sc, 5, 1.0)
                err = None
            except (TypeError, ValueError, IndexError, AttributeError, ZeroDivisionError) as e:
                err = e
            if err is not None:
                rs, model = S.reachable()
                v = Verdict("sat" if rs == "sat" else "unknown", what + " -- raised %s: %s" % (type(err).__name__, str(err)[:120]), model=model or {})
                D(v, key="solve:fsolve_contract", replay=rp, sampler=_sampler)
                return
            _ok(log, what)
            v = prove_zero(SR(0) + out - SR.var("ROOT"), "solve[order %d, %s]: returns the root found by fsolve" % (order, method))
            D(v, key="solve:root", replay=rp, sampler=_sampler)
            c = fs.calls[0]
            r = c["r"]
            r = r[0] if isinstance(r, realnp.ndarray) else r
            if method == "expanded":
                # at the start value x = q2m_ref the kernel of the (zero-length) evolution is identically 1
                v = prove_zero(SR(0) + r + x0 - m2, "solve[order %d, %s]: residual at the start value x = q2m_ref equals m2_ref - x" % (order, method))
                D(v, key="solve:residual", replay=rp, sampler=_sampler)
            else:
                q = qs.calls[-1]
                v = prove_zero(SR(0) + r + x0 - m2 * q["val"].exp() ** 2, "solve[order %d, %s]: residual == m2_ref*exp(integral)^2 - x" % (order, method))
                D(v, key="solve:residual", replay=rp, sampler=_sampler)
                v = prove_zero(SR(0) + q["a"] - q["b"], "solve[order %d, %s]: at the start value the kernel integral runs over a zero-length interval" % (order, method))
                D(v, key="solve:residual", replay=rp, sampler=_sampler)
            log.twin("domain")
            log.collect_ctx()
        finally:
            mm.optimize, mm.integrate, cpl.scipy = real_opt, real_int, real_scipy

    _r, pm = explore(run)
    log.path_stats(pm)


# ---------------------------------------------------------------------------
# (i) bookkeeping of compute
# ---------------------------------------------------------------------------
class SqTok:
    """a linear scale whose square is a free symbol (keeps every comparison of compute linear)"""

    def __init__(self, sq):
        self.sq = sq

    def __pow__(self, k):
        if k != 2:
            raise EngineError("scale token raised to power %r" % (k,))
        return self.sq


def _dec(c):
    return c if isinstance(c, bool) else bool(c)


class MassArr(realnp.ndarray):
    """object array of squared masses; comparisons with a scalar are decided element-wise through the path manager"""

    def _cmp(self, o, op):
        return realnp.array([_dec(op(e, o)) for e in realnp.asarray(self).tolist()], dtype=bool)

    def __lt__(self, o):
        return self._cmp(o, lambda e, x: (SR(0) + e) < x)

    def __gt__(self, o):
        return self._cmp(o, lambda e, x: (SR(0) + e) > x)

    def __le__(self, o):
        return self._cmp(o, lambda e, x: (SR(0) + e) <= x)

    def __ge__(self, o):
        return self._cmp(o, lambda e, x: (SR(0) + e) >= x)


class BkNumpy(C18Numpy):
    @property
    def inf(self):
        return SR.var("INF")

    def concatenate(self, arrs, *a, **k):
        out = realnp.concatenate([realnp.asarray(x, dtype=object) for x in arrs]).astype(object)
        return out.view(MassArr)

    def allclose(self, a, b, rtol=1e-05, atol=1e-08, equal_nan=False):
        """numpy's formula |a-b| <= atol + rtol*|b| for all elements as ONE symbolic Boolean (absolute values through z3 If)"""
        from symx.solver import ZBool

        xs = [SR(0) + e for e in realnp.asarray(a).tolist()]
        ys = [SR(0) + e for e in realnp.asarray(b).tolist()]
        conj = []
        for x, y in zip(xs, ys):
            d = (x - y).v.canon()
            if d.n.is_zero():
                continue
            dz = S.poly_to_z3(d.n)
            yz = S.poly_to_z3(y.v.canon().n)
            ad = z3.If(dz >= 0, dz, -dz)
            ay = z3.If(yz >= 0, yz, -yz)
            conj.append(ad <= z3.RealVal(str(Fraction(atol).limit_denominator(10**12))) + z3.RealVal(str(Fraction(rtol).limit_denominator(10**12))) * ay)
        if not conj:
            return True
        return bool(ZBool(z3.And(conj)))

    def sort(self, a, *args, **k):
        xs = [SR(0) + e for e in realnp.asarray(a).tolist()]
        for i in range(1, len(xs)):
            j = i
            while j > 0 and _dec(xs[j - 1] > xs[j]):
                xs[j - 1], xs[j] = xs[j], xs[j - 1]
                j -= 1
        out = realnp.empty(len(xs), dtype=object)
        for i, e in enumerate(xs):
            out[i] = e
        return out.view(MassArr)


def case_bookkeeping(log, nf_ref):
    mm, cpl = _load()
    mm.np = BkNumpy()
    log.encode(mm.compute)
    D = Decider(log, max_replays=3)
    names = "cbt"

    def run():
        v2 = [SR.var("m2_%s" % q) for q in names]  # reference mass^2
        s2 = [SR.var("q2_%s" % q) for q in names]  # its reference scale^2
        mu2 = SR.var("mu2_ref")
        INFs = SR.var("INF")
        for x in v2 + s2 + [mu2]:
            assume(x, ">0")
            assume(INFs - x - 1, ">0")
        sol = [SR.var("SOL_%s" % q) for q in names]
        evs = [SR.var("EV_%s" % q) for q in names]
        for x in sol + evs:
            assume(x, ">0")
            assume(INFs - x - 1, ">0")
        from eko.quantities.heavy_quarks import HeavyQuarkMasses

        mref = HeavyQuarkMasses([types.SimpleNamespace(value=SqTok(v2[i]), scale=SqTok(s2[i])) for i in range(3)])
        cinfo = types.SimpleNamespace(ref=(SqTok(mu2), nf_ref), alphas=0.118, alphaem=0.0075, em_running=False, values=(0.118, 0.0075))
        state = {"cur": None}
        solves, evolves, scs = [], [], []

        class RecCouplings:
            def __init__(self, couplings, order=None, method=None, masses=None, hqm_scheme=None, thresholds_ratios=None):
                self.thr = [SR(0) + e for e in realnp.asarray(masses).tolist()]
                self.kw = dict(couplings=couplings, order=order, method=method, hqm_scheme=hqm_scheme, thresholds_ratios=thresholds_ratios)
                scs.append(self)

        def which(m2_ref_arg, q2m_arg):
            return len(solves)

        def rec_evolve(m2_ref, q2m_ref, strong_coupling, thresholds_ratios, xif2, q2_to, nf_ref=None, nf_to=None):
            k = len(evolves)
            evolves.append(dict(m2_ref=m2_ref, q2m_ref=q2m_ref, sc=strong_coupling, ratios=thresholds_ratios, xif2=xif2, q2_to=q2_to, nf_ref=nf_ref, nf_to=nf_to, at_solve=len(solves)))
            return evs[k]

        def rec_solve(m2_ref, q2m_ref, strong_coupling, nf_target, xif2):
            k = len(solves)
            solves.append(dict(m2_ref=m2_ref, q2m_ref=q2m_ref, sc=strong_coupling, nf=nf_target, xif2=xif2))
            return sol[k]

        saved = (mm.solve, mm.evolve, mm.Couplings)
        mm.solve, mm.evolve, mm.Couplings = rec_solve, rec_evolve, RecCouplings
        matching = [1.0, 1.0, 1.0]
        xif2 = 1.0
        err = None
        out = None
        try:
            try:
                out = mm.compute(mref, cinfo, (3, 0), "METHOD", matching, xif2)
            except ValueError as e:
                err = str(e)
        finally:
            mm.solve, mm.evolve, mm.Couplings = saved
        rp = (MOD, "replay_compute", {"nf_ref": nf_ref})
        # ---- independent model of the documented rules, evaluated under the path condition ----
        order_idx = [0, 1, 2] if nf_ref <= 4 else [2, 1, 0]

        def z(c):
            return z3.BoolVal(c) if isinstance(c, bool) else S.symbool_to_z3(c)

        bad = []
        for i in range(3):
            notfix = z3.Not(z(s2[i] == v2[i]))
            conds = []
            if nf_ref == i + 4:
                conds.append(z(s2[i] > mu2))
            if nf_ref == i + 3:
                conds.append(z(s2[i] < mu2))
            if i + 3 >= nf_ref:
                conds.append(z(s2[i] >= v2[i]))
            else:
                conds.append(z(s2[i] < v2[i]))
            bad.append(z3.And(notfix, z3.Or(conds)))
        E = z3.Or(bad)
        sorting_msg = err is not None and "not to be sorted" in err
        if err is not None and not sorting_msg:
            v = prove_formula(E, "nf_ref=%d: ValueError(%s...) raised only on a documented inconsistent configuration" % (nf_ref, err[:40]))
            D(v, key="compute:valueerror_spurious", replay=rp, sampler=_sampler_bk, candidates=_bk_candidates(nf_ref))
            log.twin("raise path")
            return
        v = prove_formula(z3.Not(E), "nf_ref=%d: no documented inconsistency on a path that reaches the end of the quark loop (every inconsistent configuration raises)" % nf_ref)
        D(v, key="compute:valueerror_missing", replay=rp, sampler=_sampler_bk, candidates=_bk_candidates(nf_ref))
        # ---- per-quark patch selection (plain model; comparisons are implied by the path condition) ----
        cur = [SR(0)] * (nf_ref - 3) + [INFs] * (6 - nf_ref)
        k_solve = 0
        k_ev = 0
        okstruct = True
        notes = []
        for i in order_idx:
            if _dec(s2[i] == v2[i]):
                cur[i] = v2[i]
                continue
            forward = i + 3 >= nf_ref
            nf_target = i + 3 if forward else i + 4
            nf_here = 3 + sum(1 for m in cur if _dec(s2[i] > m))
            start = (v2[i], s2[i])
            if nf_here != nf_target:
                wall = cur[i - 1] if forward else cur[i + 1]
                if k_ev >= len(evolves):
                    okstruct = False
                    notes.append("quark %s: reference point in the nf=%d patch, target patch nf=%d, but evolve was not called" % (names[i], nf_here, nf_target))
                    break
                e = evolves[k_ev]
                k_ev += 1
                chk = [("evolve m2_ref", e["m2_ref"], v2[i]), ("evolve q2m_ref", e["q2m_ref"], s2[i]), ("evolve q2_to", e["q2_to"], wall)]
                for nm, got, want in chk:
                    vv = prove_zero(SR(0) + got - want, "nf_ref=%d quark %s: %s is the documented one" % (nf_ref, names[i], nm))
                    D(vv, key="compute:evolve_args", replay=rp, sampler=_sampler_bk)
                if int(e["nf_ref"]) != nf_here or int(e["nf_to"]) != nf_target or e["at_solve"] != k_solve:
                    okstruct = False
                    notes.append("quark %s: evolve called with nf %r -> %r, expected %d -> %d" % (names[i], e["nf_ref"], e["nf_to"], nf_here, nf_target))
                thr = e["sc"].thr
                for j in range(3):
                    vv = prove_zero(thr[j] - cur[j], "nf_ref=%d quark %s: coupling used for the evolution has the thresholds known so far [%d]" % (nf_ref, names[i], j))
                    D(vv, key="compute:thresholds", replay=rp, sampler=_sampler_bk)
                start = (evs[k_ev - 1], wall)
            if k_solve >= len(solves):
                okstruct = False
                notes.append("quark %s: solve not called" % names[i])
                break
            sv = solves[k_solve]
            k_solve += 1
            if int(sv["nf"]) != nf_target:
                okstruct = False
                notes.append("quark %s solved with nf=%r, the patch adjoining its threshold on the side of the coupling reference is nf=%d" % (names[i], sv["nf"], nf_target))
            for nm, got, want in (("solve m2_ref", sv["m2_ref"], start[0]), ("solve q2m_ref", sv["q2m_ref"], start[1])):
                vv = prove_zero(SR(0) + got - want, "nf_ref=%d quark %s: %s is the documented start point" % (nf_ref, names[i], nm))
                D(vv, key="compute:solve_args", replay=rp, sampler=_sampler_bk)
            for j in range(3):
                vv = prove_zero(sv["sc"].thr[j] - cur[j], "nf_ref=%d quark %s: coupling used for the fixed point has the thresholds known so far [%d]" % (nf_ref, names[i], j))
                D(vv, key="compute:thresholds", replay=rp, sampler=_sampler_bk)
            cur[i] = sol[k_solve - 1]
        if k_solve != len(solves) or k_ev != len(evolves):
            okstruct = False
            notes.append("%d solve / %d evolve calls, model expects %d / %d" % (len(solves), len(evolves), k_solve, k_ev))
        v = prove_zero(SR(0 if okstruct else 1), "nf_ref=%d: patch selection per quark as documented %s" % (nf_ref, "; ".join(notes)))
        D(v, key="compute:patch_selection", replay=rp, sampler=_sampler_bk)
        if err is None:
            res = [SR(0) + e for e in realnp.asarray(out).tolist()]
            for j in range(2):
                v = prove_rel(res[j + 1] - res[j], ">=0", "nf_ref=%d: returned masses sorted [%d] <= [%d]" % (nf_ref, j, j + 1))
                D(v, key="compute:sorted", replay=rp, sampler=_sampler_bk)
            # multiset: every computed mass is returned
            for j in range(3):
                f = z3.Or([z(res[t] == cur[j]) for t in range(3)])
                v = prove_formula(f, "nf_ref=%d: computed mass of quark %s is among the returned values" % (nf_ref, names[j]))
                D(v, key="compute:sorted", replay=rp, sampler=_sampler_bk)
        log.twin("end of loop")
        log.collect_ctx()

    _r, pm = explore(run, max_paths=4000)
    log.path_stats(pm)


def _bk_candidates(nf_ref):
    """physically sensible boundary configurations: a mass reference scale exactly equal to the alpha_s reference scale, or to the mass itself"""
    F = Fraction
    base = {"m2_c": F(2), "q2_c": F(4), "m2_b": F(17), "q2_b": F(25), "m2_t": F(30000), "q2_t": F(29000)}
    out = []
    if nf_ref == 3:
        out.append(dict(base, q2_c=F(3, 2), mu2_ref=F(3, 2), q2_b=F(16), m2_b=F(20)))  # charm given exactly at Qref from above the patch
    if nf_ref == 4:
        out.append(dict(base, m2_c=F(3, 2), q2_c=F(9), mu2_ref=F(9), q2_b=F(16), m2_b=F(20)))  # charm exactly at Qref
        out.append(dict(base, m2_c=F(3, 2), q2_c=F(9), mu2_ref=F(16), q2_b=F(16), m2_b=F(20)))  # bottom exactly at Qref
    if nf_ref == 5:
        out.append(dict(base, q2_b=F(8281), mu2_ref=F(8281)))  # bottom exactly at Qref = M_Z^2
        out.append(dict(base, q2_b=F(8281), mu2_ref=F(8281), q2_t=F(8281), m2_t=F(30000)))  # and top exactly at Qref
    if nf_ref == 6:
        out.append(dict(base, q2_t=F(40000), mu2_ref=F(40000)))  # top exactly at Qref
    out.append(dict(base, q2_c=F(2), mu2_ref={3: F(3, 2), 4: F(9), 5: F(8281), 6: F(40000)}[nf_ref], **({"q2_t": F(40000)} if nf_ref == 6 else {})))  # charm given at its own scale
    return out


def _sampler_bk(rng):
    return {"m2_c": rnd(rng, 1.5, 4), "q2_c": rnd(rng, 1.5, 9000), "m2_b": rnd(rng, 15, 25), "q2_b": rnd(rng, 10, 9000), "m2_t": rnd(rng, 28000, 31000), "q2_t": rnd(rng, 100, 40000),
            "mu2_ref": rnd(rng, 2, 40000)}


# ---------------------------------------------------------------------------
# (v) runcards.masses: what the runner hands to msbar_masses.compute
# ---------------------------------------------------------------------------
def case_runcards(log):
    rc = sym_module("eko.io.runcards")
    from eko.io.types import EvolutionMethod
    from eko.quantities.heavy_quarks import QuarkMassScheme
    from eko.quantities.couplings import CouplingEvolutionMethod

    log.encode(rc.masses)
    D = Decider(log)

    def mk(scheme, evmeth):
        def run():
            xif = SR.var("xif")
            assume(xif, ">0")
            ratios = [SR.var("k_%s" % q) for q in "cbt"]
            vals = [SR.var("m_%s" % q) for q in "cbt"]
            scl = [SR.var("q_%s" % q) for q in "cbt"]
            for x in ratios + vals + scl:
                assume(x, ">0")
            hm = [types.SimpleNamespace(value=v, scale=q) for v, q in zip(vals, scl)]
            heavy = types.SimpleNamespace(masses=hm, masses_scheme=QuarkMassScheme[scheme], matching_ratios=ratios)
            cinfo = object()
            theory = types.SimpleNamespace(heavy=heavy, couplings=cinfo, order=(3, 0), xif=xif)
            calls = []

            def rec_compute(masses_ref, couplings, order, evm, matching, xif2=1.0):
                calls.append(dict(masses_ref=masses_ref, couplings=couplings, order=order, evm=evm, matching=matching, xif2=xif2))
                return realnp.array([SR.var("M2_%s" % q) for q in "cbt"], dtype=object)

            real = rc.msbar_masses
            rc.msbar_masses = types.SimpleNamespace(compute=rec_compute)
            try:
                out = rc.masses(theory, evmeth)
            finally:
                rc.msbar_masses = real
            rp = (MOD, "replay_runcards", {"evmeth": evmeth.value})
            tag = "runcards.masses[%s, %s]" % (scheme, evmeth.value)
            if scheme == "POLE":
                ok = len(calls) == 0 and len(out) == 3
                v = prove_zero(SR(0 if ok else 1), "%s: pole masses need no computation" % tag)
                D(v, key="runcards.masses:pole", replay=rp, sampler=_sampler_rc)
                for i in range(3):
                    v = prove_zero(SR(0) + out[i] - vals[i] * vals[i], "%s: squared pole mass [%d]" % (tag, i))
                    D(v, key="runcards.masses:pole", replay=rp, sampler=_sampler_rc)
                log.twin("domain")
                return
            want_meth = CouplingEvolutionMethod.EXACT if evmeth.value in ("iterate-exact", "decompose-exact", "perturbative-exact") else CouplingEvolutionMethod.EXPANDED
            ok = (len(calls) == 1 and calls[0]["masses_ref"] is hm and calls[0]["couplings"] is cinfo and tuple(calls[0]["order"]) == (3, 0) and calls[0]["evm"] is want_meth
                  and len(calls[0]["matching"]) == 3 and isinstance(out, list) and len(out) == 3)
            v = prove_zero(SR(0 if ok else 1), "%s: one call of msbar_masses.compute with the card's masses, couplings, order and the coupling method of the evolution method" % tag)
            D(v, key="runcards.masses:dispatch", replay=rp, sampler=_sampler_rc)
            if ok:
                c = calls[0]
                v = prove_zero(SR(0) + c["xif2"] - xif * xif, "%s: xif2 handed to compute is the square of the card's (linear) scale ratio xif" % tag)
                D(v, key="runcards.masses:xif2", replay=rp, sampler=_sampler_rc)
                for i in range(3):
                    v = prove_zero(SR(0) + c["matching"][i] - ratios[i] * ratios[i], "%s: matching ratio [%d] handed to compute is the square of the card's (linear) ratio" % (tag, i))
                    D(v, key="runcards.masses:ratios", replay=rp, sampler=_sampler_rc)
                    v = prove_zero(SR(0) + out[i] - SR.var("M2_%s" % "cbt"[i]), "%s: returns compute's result [%d]" % (tag, i))
                    D(v, key="runcards.masses:dispatch", replay=rp, sampler=_sampler_rc)
            log.twin("domain")

        return run

    for scheme in ("MSBAR", "POLE"):
        for evmeth in (EvolutionMethod.ITERATE_EXACT, EvolutionMethod.TRUNCATED):
            _r, pm = explore(mk(scheme, evmeth))
            log.path_stats(pm)


def _sampler_rc(rng):
    return {"xif": rnd(rng, 0.5, 2.0), "k_c": rnd(rng, 0.7, 1.5), "k_b": rnd(rng, 0.7, 1.5), "k_t": rnd(rng, 0.7, 1.5)}


def replay_runcards(point, evmeth):
    """real runcards.masses on a duck-typed theory card vs msbar_masses.compute called directly with the documented squared ratios"""
    import numpy as np
    from eko import msbar_masses as mm
    from eko.io import runcards as rc
    from eko.io.types import EvolutionMethod
    from eko.couplings import couplings_mod_ev
    from eko.quantities.couplings import CouplingsInfo
    from eko.quantities.heavy_quarks import HeavyQuarkMasses, QuarkMassRef, QuarkMassScheme

    xif = float(point.get("xif", 1.4))
    ks = [float(point.get("k_%s" % q, 1.0)) for q in "cbt"]
    if not (0.5 <= xif <= 2 and all(0.6 <= k <= 1.6 for k in ks)) or abs(xif - 1) < 0.05:
        return None
    ev = EvolutionMethod(evmeth)
    hm = HeavyQuarkMasses([QuarkMassRef(v) for v in [(2.0, 2.1), (4.0, 4.1), (175.0, 174.9)]])
    cinfo = CouplingsInfo(alphas=0.118, alphaem=0.00781, ref=(91.0, 5))
    heavy = types.SimpleNamespace(masses=hm, masses_scheme=QuarkMassScheme.MSBAR, matching_ratios=ks)
    theory = types.SimpleNamespace(heavy=heavy, couplings=cinfo, order=(3, 0), xif=xif)
    try:
        got = rc.masses(theory, ev)
        want = mm.compute(hm, cinfo, (3, 0), couplings_mod_ev(ev), [k * k for k in ks], xif2=xif * xif).tolist()
    except ValueError:
        return None
    if not np.allclose(got, want, rtol=1e-7):
        return {"detail": "runcards.masses(xif=%r, matching ratios %r, %s) = %r, msbar_masses.compute with xif2=xif^2 and squared ratios = %r" % (xif, ks, evmeth, got, want)}
    return None


# ---------------------------------------------------------------------------
# replays on the real, unpatched code
# ---------------------------------------------------------------------------
def _real_sc(order, method, nf_ref, masses2, ratios, alphas=0.118, mu=91.0, scheme="MSBAR"):
    from eko.couplings import Couplings
    from eko.quantities.couplings import CouplingEvolutionMethod, CouplingsInfo
    from eko.quantities.heavy_quarks import QuarkMassScheme

    info = CouplingsInfo(alphas=alphas, alphaem=0.007496, ref=(mu, nf_ref), em_running=False)
    meth = CouplingEvolutionMethod.EXACT if method == "exact" else CouplingEvolutionMethod.EXPANDED
    return Couplings(info, (order, 0), meth, masses2, QuarkMassScheme[scheme], ratios)


def _mass_ode(m2, a, lmu, order, nf):
    """independent: d ln m^2/dlmu = -2 gamma_m(a), da/dlmu = beta(a) with literature coefficients truncated at `order`."""
    import mpmath as mp

    z3, z4, z5 = (Fraction(float(mp.zeta(k))) for k in (3, 4, 5))
    bet = [float(x) for x in (LIT.beta0(nf), LIT.beta1(nf), LIT.beta2(nf), LIT.beta3(nf, z3))][:order]
    gam = [float(x) for x in (LIT.gamma0(), LIT.gamma1(nf), LIT.gamma2(nf, z3), LIT.gamma3(nf, z3, z4, z5))][:order]
    if lmu == 0:
        return m2, a
    sg = 1 if lmu > 0 else -1

    def f(t, y):
        A = y[0]
        return [-sg * sum(b * A ** (k + 2) for k, b in enumerate(bet)), -2 * sg * sum(g * A ** (k + 1) for k, g in enumerate(gam))]

    sol = mp.odefun(f, 0, [mp.mpf(a), mp.mpf(0)], tol=mp.mpf(10) ** (-14))
    y = sol(abs(lmu))
    return float(m2 * mp.exp(y[1])), float(y[0])


def replay_solve(point, order, method):
    """the real msbar_masses.solve (real fsolve): must return, and the returned m^2 must be a fixed point of the independent mass RGE."""
    import math
    from eko import msbar_masses as mm

    x0 = float(point.get("x0", 17.0))
    m2 = float(point.get("m2_ref", 16.0))
    if not (1.5 <= x0 <= 900 and 1.5 <= m2 <= 900 and 0.3 < x0 / m2 < 3):
        return None
    sc = _real_sc(order, method, 5, [1.0, 1.0, 1.0], [0.0, 0.0, float("inf")])
    try:
        out = mm.solve(m2, x0, sc, 5, 1.0)
    except Exception as e:  # noqa
        return {"detail": "msbar_masses.solve(m2_ref=%r, q2m_ref=%r, order %d, %s) raised %s: %s" % (m2, x0, order, method, type(e).__name__, e)}
    a0 = float(sc.a(x0, 5)[0])
    want, _a = _mass_ode(m2, a0, math.log(out / x0), order, 5)
    tol = 2e-4 if method == "exact" else 5e-3
    if abs(want - out) > tol * out:
        return {"detail": "solve returned m^2=%r but the running mass evolved from (m2_ref=%r at q2=%r) to that scale is %r (order %d, %s)" % (out, m2, x0, want, order, method)}
    return None


def replay_ker(point, order, method):
    import math
    from eko import msbar_masses as mm

    a0 = float(point.get("a0", point.get("alpha0", 0.02)))
    a1 = float(point.get("a1", point.get("alpha1", 0.015)))
    if not (0.005 <= a0 <= 0.03 and 0.005 <= a1 <= 0.03):
        return None
    import mpmath as mp

    for nf in (3, 4, 5):
        z3, z4, z5 = (Fraction(float(mp.zeta(k))) for k in (3, 4, 5))
        bet = [float(x) for x in (LIT.beta0(nf), LIT.beta1(nf), LIT.beta2(nf), LIT.beta3(nf, z3))][:order]
        gam = [float(x) for x in (LIT.gamma0(), LIT.gamma1(nf), LIT.gamma2(nf, z3), LIT.gamma3(nf, z3, z4, z5))][:order]
        f = lambda a: sum(g * a**k for k, g in enumerate(gam)) / (a * sum(b * a**k for k, b in enumerate(bet)))
        if method == "exact":
            want = float(mp.exp(mp.quad(f, [a0, a1])))
            got = float(mm.ker_exact(a0, a1, (order, 0), nf))
            if abs(got - want) > 3e-5 * abs(want):
                return {"detail": "ker_exact(a0=%r, a1=%r, order %d, nf=%d) = %r, exp(int gamma_m/beta) = %r" % (a0, a1, order, nf, got, want)}
        else:
            errs, lams = [], [1.0, 0.5, 0.25, 0.125]
            for l in lams:
                want = float(mp.exp(mp.quad(f, [a0 * l, a1 * l])))
                errs.append(abs(float(mm.ker_expanded(a0 * l, a1 * l, (order, 0), nf)) - want))
            if abs(float(mm.ker_expanded(a0, a0, (order, 0), nf)) - 1) > 1e-12:
                return {"detail": "ker_expanded(a0, a0) != 1"}
            pairs = [(l, e) for l, e in zip(lams, errs) if e > 1e-15]
            if len(pairs) >= 2:
                ex = math.log(pairs[-2][1] / pairs[-1][1]) / math.log(pairs[-2][0] / pairs[-1][0])
                if ex < order - 0.6:
                    return {"detail": "ker_expanded - exp(int gamma_m/beta) at (a0,a1)*(1,1/2,1/4,1/8) = %r scales like a^%.2f < a^%d (order %d, nf=%d)" % (errs, ex, order, order, nf)}
    return None


def replay_evolve(point, order, nf_from, nf_to, physics=False):
    """real evolve with a real Couplings object, reference ON the matching scale, target the same scale in the neighbouring patch(es); oracle: the
    published zeta_m (for m, hence squared for m^2) with a_s^(nf+1) taken from the same object, legs in between by the independent mass ODE."""
    import math
    from eko import msbar_masses as mm

    Ls = [float(point.get(k, d)) for k, d in (("Lc", 0.3), ("Lb", -0.4), ("Lt", 0.5))]
    if physics and "Lq" in point:
        Ls = [float(point["Lq"])] * 3
    if any(abs(x) > 1.39 for x in Ls):
        return None
    ratios = [math.exp(x) for x in Ls]
    masses2 = [2.0, 22.0, 30000.0]
    walls = [m * r for m, r in zip(masses2, ratios)]
    steps = _steps(nf_from, nf_to)
    if len(steps) > 1:
        return None  # multi-threshold routes: structural obligations only
    # the coupling object carries unit ratios: evolve multiplies the walls of the object it is given by `thresholds_ratios` once more
    sc = _real_sc(order, "exact", 5, masses2, [1.0, 1.0, 1.0])
    nfl, d = steps[0]
    w = walls[nfl - 3]
    m2 = 4.0
    got = float(mm.evolve(m2, w, sc, ratios, 1.0, w, nf_ref=nf_from, nf_to=nf_to))
    A = float(sc.a(w, nfl + 1)[0])
    t = DEC.zeta_m_msbar(nfl)
    zm = 1 + sum(A**n * Ls[nfl - 3] ** l * float(DEC.get(t, n, l)) for n in range(1, order) for l in range(n + 1))
    want = m2 * zm**2 if d == "down" else m2 / zm**2
    # square of the truncated series vs truncated square, and truncated inverse (the a^1 coefficients vanish): O(delta^2)
    allow = 6 * (zm - 1) ** 2 + 1e-9
    if abs(got / want - 1) > allow:
        return {"detail": "evolve across the threshold nf %d -> %d at mu^2 = %r*m^2 (order %d, a_s^(%d)=%r): m^2 ratio %r, the published decoupling relation zeta_m (for m) gives %r for m^2"
                % (nf_from, nf_to, ratios[nfl - 3], order, nfl + 1, A, got / m2, want / m2)}
    return None


def replay_table(point, nfl, order):
    """real mass tables vs the published zeta_m, and down x up = 1, numerically at a point"""
    from eko import msbar_masses as mm

    A = float(point.get("A", 0.02))
    L = float(point.get("Lq", 0.4))
    if not (0.005 <= A <= 0.03 and abs(L) <= 1.39):
        return None
    dn, up = mm.compute_matching_coeffs_down(nfl), mm.compute_matching_coeffs_up(nfl)
    t = DEC.zeta_m_msbar(nfl)
    for n in range(1, order):
        for l in range(n + 1):
            tol = 2e-3 if n == 3 and l in (0, 1) else 1e-9
            if abs(dn[n, l] - float(DEC.get(t, n, l))) > tol:
                return {"detail": "downward mass-matching coefficient [%d,%d] for nl=%d is %r, published zeta_m has %r" % (n, l, nfl, float(dn[n, l]), float(DEC.get(t, n, l)))}
    fd = 1 + sum(A**n * L**l * dn[n, l] for n in range(1, order) for l in range(n + 1))
    fu = 1 + sum(A**n * L**l * up[n, l] for n in range(1, order) for l in range(n + 1))
    if abs(fd * fu - 1) > 6 * (fd - 1) ** 2 + 1e-12:
        return {"detail": "mass decoupling factors down*up - 1 = %r at A=%r, L=%r, nl=%d, order %d (allowed O(delta^2) = %r)" % (fd * fu - 1, A, L, nfl, order, 6 * (fd - 1) ** 2)}
    return None


def replay_compute(point, nf_ref):
    """real compute on concrete inputs: ValueError iff documented inconsistency (independent restatement), otherwise sorted fixed points"""
    import numpy as np
    from eko import msbar_masses as mm
    from eko.quantities.couplings import CouplingEvolutionMethod, CouplingsInfo
    from eko.quantities.heavy_quarks import HeavyQuarkMasses, QuarkMassRef

    need = ["m2_c", "q2_c", "m2_b", "q2_b", "m2_t", "q2_t", "mu2_ref"]
    if not all(k in point for k in need):
        return None
    f = {k: float(point[k]) for k in need}
    if not all(1.2 < f[k] < 1e5 for k in need):
        return None
    v2 = [f["m2_c"], f["m2_b"], f["m2_t"]]
    s2 = [f["q2_c"], f["q2_b"], f["q2_t"]]
    mu2 = f["mu2_ref"]
    bad = False
    for i in range(3):
        if s2[i] == v2[i]:
            continue
        if (nf_ref == i + 4 and s2[i] > mu2) or (nf_ref == i + 3 and s2[i] < mu2) or (i + 3 >= nf_ref and s2[i] >= v2[i]) or (i + 3 < nf_ref and s2[i] < v2[i]):
            bad = True
    masses = HeavyQuarkMasses([QuarkMassRef([v**0.5, s**0.5]) for v, s in zip(v2, s2)])
    info = CouplingsInfo(alphas=0.118 if mu2 > 1000 else 0.25, alphaem=0.007496, ref=(mu2**0.5, nf_ref), em_running=False)
    try:
        out = mm.compute(masses, info, (3, 0), CouplingEvolutionMethod.EXPANDED, [1.0, 1.0, 1.0])
        err = None
    except ValueError as e:
        err = str(e)
    except Exception as e:  # noqa
        return {"detail": "compute raised %s: %s for masses %r, scales %r, mu2_ref %r, nf_ref %d" % (type(e).__name__, e, v2, s2, mu2, nf_ref)}
    if err is not None and "not to be sorted" not in err and not bad:
        return {"detail": "compute raised ValueError(%s) for a consistent configuration: masses^2 %r at scales^2 %r, mu2_ref %r, nf_ref %d" % (err[:60], v2, s2, mu2, nf_ref)}
    if err is None and bad:
        return {"detail": "compute accepted an inconsistent configuration: masses^2 %r at scales^2 %r, mu2_ref %r, nf_ref %d -> %r" % (v2, s2, mu2, nf_ref, list(out))}
    if err is None and not np.all(np.diff(out) >= 0):
        return {"detail": "compute returned unsorted masses %r" % (list(out),)}
    return None


# ---------------------------------------------------------------------------
def main():
    chk = H.Check("C18")
    thorough = H.tier() == "thorough"
    preimport("eko.msbar_masses", "eko.couplings", "eko.io.runcards", "refs.decoupling", "refs.rge_literature")
    chk.bounds = ["compute: nf_ref in {3,4,5,6}, all three reference masses, their scales and the coupling reference scale free positive symbols (squares), "
                  "fixed points / evolved values arbitrary positive symbols; every feasible path of the bookkeeping",
                  "solve: expanded coupling method at orders 2-3 and exact at orders 2-4 (quick: order 3; the order-4 expanded closed form on plain symbols exceeds the time cap), start value and reference mass symbolic in (1, 1000) GeV^2, nf=5 patch",
                  "kernels: orders 1-4, symbolic beta_k, gamma_k (all nf); evolve: single thresholds in both directions and the routes 3->5, 6->4, orders 1-4, "
                  "symbolic couplings, logarithms and xif2; RG / published-relation comparison through O(a^(order-1)) for nf_l = 3, 4, 5"]
    chk.bounds.append("runcards.masses: xif, the three matching ratios, masses and scales free symbols; both schemes; one exact-type and one expanded-type evolution method")
    chk.out_of_claim = ["existence, uniqueness and numerical accuracy of the fixed point found by MINPACK (fsolve) and of QUADPACK (quad)",
                        "the value m_MSbar(m) = m itself (only: the residual handed to fsolve is the fixed-point condition, its root is returned)",
                        "construction of a TheoryCard from files (runcards.masses is run on an object carrying the attributes it reads)"]
    chk.stubs = ["scipy.optimize.fsolve -> contract stub: residual called once with a length-1 ndarray holding the start value, returns a length-1 ndarray holding a fresh symbol",
                 "scipy.integrate.quad -> records (integrand, limits, args), returns a fresh symbol", "scipy.integrate.solve_ivp (exact coupling) -> recording stub as in C15",
                 "compute bookkeeping: solve / evolve / Couplings -> recorders returning fresh positive symbols; np.inf -> symbol INF larger than every scale",
                 "evolve: the Couplings object -> recorder with concrete walls returning symbolic a_s per requested nf; thresholds_ratios -> tokens (value 1, symbolic log)",
                 "builtin float() -> real float() on numbers and numpy arrays (so float(length-1 array) raises as on the installed numpy), identity on symbols",
                 "msbar_masses.compute_matching_coeffs_up -> the real function with float entries lifted to exact rationals"]
    chk.assumptions = ["refs/decoupling.py (zeta_m, zeta_g) and refs/rge_literature.py transcribe the cited papers correctly; their mutual RG consistency is itself an obligation",
                       "MS-bar heavy-quark mass m_h(mu) in the logarithm runs with the (nf+1)-flavour anomalous dimension"]
    for nf_ref in (3, 4, 5, 6):
        chk.case("compute.bookkeeping.nfref%d" % nf_ref, case_bookkeeping, nf_ref=nf_ref)
    for method in ("expanded", "exact"):
        for order in ((3,) if not thorough else ((2, 3, 4) if method == "exact" else (2, 3))):
            chk.case("solve.%s.o%d" % (method, order), case_solve, order=order, method=method)
    chk.case("runcards.masses", case_runcards)
    chk.case("ker.expanded", case_ker_expanded)
    chk.case("ker.exact+dispatcher", case_ker_exact)
    for order in (1, 2, 3, 4):
        chk.case("evolve.loop.o%d" % order, case_evolve_loop, order=order)
    for order in (3, 4):
        chk.case("evolve.physics.o%d" % order, case_evolve_physics, order=order)
    chk.case("evolve.scale.o3", case_evolve_scale, order=3)
    return chk.run()


if __name__ == "__main__":
    import sys

    sys.exit(main())
