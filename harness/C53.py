"""C53  EKOs are continuous in the target scale within a flavour-number patch (plumbing part).

What decides the operator of a target (t, nf) besides the numerical kernels is the data handed to them for the
*final* segment of its path: the two arguments of a_s, nf, the scale-variation mode, log(xif^2), the flag
is_threshold (= recipe.cliff), whether the expanded scale-variation factor multiplies the kernel, and whether
Operator.compute replaces the whole computation by the identity.  The earlier segments and matchings do not
depend on t at all.  The harness executes, unmodified and on symbolic scales,

  eko.runner.operators._parts -> eko.runner.recipes._elements -> eko.matchings.Atlas.*  (eko.runner.commons.atlas,
  commons.couplings, commons.interpolator, eko.io.runcards.masses), eko.runner.parts.{evolve,_evolve_configs,_managers},
  eko.evolution_operator.Operator.{__init__,mu2,compute_a,compute_aem_list,compute,labels,quad_ker,integrate,
  run_op_integration,initialize_op_members,copy_ns_ops}, eko.evolution_operator.quad_ker.{quad_ker_ad,quad_ker_qcd}

for ONE symbolic target t per run and records, for every feasible path i, the path condition phi_i(t) and that
data D_i(t) (a "function summary").  The continuity statement is then decided by z3 on the summary: for all i, j

  phi_i(t) and phi_j(t') and t' = t (1 + eps) and 0 < |eps| <= 1e-6 and nf_i = nf_j   ==>   C(D_i(t), D_j(t'))

where C says: same head of the path, same flags / kernel class, first a_s argument identical, second a_s argument
scaled by exactly (1 + eps); and if exactly one of the two is replaced by the identity, the other one carries no
non-trivial expanded factor and has a_s arguments that collapse when t' -> segment origin.  t, the walls, the
initial scale and xif^2 are symbolic, so "t exactly on a matching scale / on the initial scale" are found by the
solver, not enumerated.  A model is replayed on the real code: real Operator objects (mu2, is_threshold, real
Couplings) and then two tiny real managed.solve runs whose operators must differ by >> eps.
"""
import functools
from fractions import Fraction

import numpy as np
import z3

from .common import *  # noqa
from symx import harness as H
from symx import shim as _shim
from symx import poly as P
from symx.val import EngineError
from . import C19 as R
from .C19 import zb, zeq, zand, Decider, RunnerNumpy
from .C02 import MemoPM, NS, explore

MOD = "harness.C53"
EPS_MAX = Fraction(1, 10**6)
RATIOS = [2.0, 4.0, 2.0]  # matching ratios k_q (exact binary fractions, all > 1: the a_s matching is non-trivial from NLO on and the decoupling logs of neighbouring walls cannot cancel); walls w_q = k_q^2 * m_q^2


class Squarable:
    """input encoding: a positive quantity given by its square (x ** 2 -> the symbol of the square)."""

    def __init__(self, sq):
        self.sq = sq

    def __pow__(self, k):
        if k != 2:
            raise EngineError("Squarable ** %r" % (k,))
        return self.sq


# ---------------------------------------------------------------------------
# world
# ---------------------------------------------------------------------------
def load_world():
    import importlib

    w = NS()
    w.mat = R.sym_runner_module("eko.matchings")
    w.com = R.sym_runner_module("eko.runner.commons")
    w.rec = importlib.import_module("eko.runner.recipes")
    w.ops = R.sym_runner_module("eko.runner.operators")
    w.prt = R.sym_runner_module("eko.runner.parts")
    w.evop = R.sym_runner_module("eko.evolution_operator")
    w.qk = R.sym_runner_module("eko.evolution_operator.quad_ker")
    w.items = importlib.import_module("eko.io.items")
    w.runcards = importlib.import_module("eko.io.runcards")
    w.sv = importlib.import_module("eko.scale_variations")
    from eko.io.types import EvolutionMethod, ScaleVariationsMethod
    from eko.quantities.heavy_quarks import QuarkMassScheme

    w.POLE = QuarkMassScheme.POLE
    w.METHOD = EvolutionMethod.ITERATE_EXACT
    w.SVM = {"unvaried": None, "exponentiated": ScaleVariationsMethod.EXPONENTIATED, "expanded": ScaleVariationsMethod.EXPANDED}
    w.calls = NS(a=[], quad=[], couplings_kw=[])

    class StubCouplings:
        """Couplings by contract: a(scale, nf_to) -> (a_s, a_em); every call is recorded."""

        alphaem_running = False

        def __init__(self, **kw):
            w.calls.couplings_kw.append(kw)
            # the couplings' own flavour-number landscape, built as the real __init__ builds it
            scales = [m_ * r for m_, r in zip(list(kw["masses"]), list(kw["thresholds_ratios"]))]
            self.atlas = w.mat.Atlas(scales, (kw["couplings"].ref[0] ** 2, kw["couplings"].ref[1]))

        def a(self, scale_to, nf_to=None):
            n = len(w.calls.a)
            # the flavour number the coupling is evaluated in: the requested one, else the default flow at that scale (real Atlas.normalize)
            eff = self.atlas.normalize((scale_to, nf_to))[1]
            w.calls.a.append((scale_to, nf_to, eff))
            out = np.empty(2, dtype=object)  # the real Couplings.a returns an ndarray (callers may .copy() it)
            out[0], out[1] = SR.var("as_%d" % n), SR.var("aem_%d" % n)
            return out

        def a_s(self, scale_to, nf_to=None):
            return self.a(scale_to, nf_to)[0]

    class StubInterpolator:
        log = True

        def __init__(self, xgrid=None, polynomial_degree=None):
            self.xgrid = NS(raw=np.array([0.5, 1.0]), size=2)

        def __iter__(self):
            return iter([NS(areas_representation=("bf0",)), NS(areas_representation=("bf1",))])

    def stub_quad(func, a, b, **kw):
        w.calls.quad.append(func)
        return (0.0, 0.0, {})

    w.com.Couplings = StubCouplings
    w.com.InterpolatorDispatcher = StubInterpolator
    w.evop.integrate = NS(quad=stub_quad)
    w.prt.physical = NS(PhysicalOperator=NS(ad_to_evol_map=lambda members, nf, q2, qed: NS(to_flavor_basis_tensor=lambda qed_: (members, None))))

    # --- kernel probes: which gamma reaches the solution, is the expanded factor multiplied in -------------------
    def garr(tag, n=4):
        return np.array([SR.var("%s%d" % (tag, i)) for i in range(n)], dtype=object)

    def gmat(tag, n=4):
        out = np.empty((n, 2, 2), dtype=object)
        for idx in np.ndindex(out.shape):
            out[idx] = SR.var("%s%d%d%d" % ((tag,) + idx))
        return out

    ad = NS(gamma_ns=lambda *a, **k: garr("g"), gamma_singlet=lambda *a, **k: gmat("G"))
    w.qk.ad_us = w.qk.ad_ps = w.qk.ad_ut = ad

    def gamma_variation(gamma, order, nf, L):
        out = np.empty(gamma.shape, dtype=object)
        for idx in np.ndindex(gamma.shape):
            out[idx] = gamma[idx] * SR.var("EXPVAR")
        return out

    w.qk.sv_exponentiated = NS(gamma_variation=gamma_variation)
    w.qk.ns = NS(dispatcher=lambda order, method, gamma, as1, as0, nf: SR.var("Kns") * gamma[0])

    def s_disp(order, method, gamma, as1, as0, nf, it, mo):
        out = np.empty((2, 2), dtype=object)
        for idx in np.ndindex(2, 2):
            out[idx] = SR.var("Ks%d%d" % idx) * gamma[0][0, 0]
        return out

    w.qk.s = NS(dispatcher=s_disp)

    # the expanded scale-variation factors are the real functions (trivial at LO, polynomial in a_s L gamma beyond)
    w.qk.sv_expanded = R.sym_runner_module("eko.scale_variations.expanded")

    class StubKerBase:
        def __init__(self, u, is_log, logx, mode0):
            self.is_singlet = mode0 in [100, 21, 90]
            self.n = SR.var("N")

        def integrand(self, areas):
            return 1

    w.qk.QuadKerBase = StubKerBase
    return w


def z3_of(x):
    """SR / number -> z3 real term (polynomials only)"""
    if isinstance(x, SR):
        q = x.v.canon() if x.v.den else x.v
        if q.den:
            raise EngineError("rational function in summary")
        return S.poly_to_z3(q.n.reduce())
    if isinstance(x, bool):
        raise EngineError("bool in summary")
    fr = Fraction(x)
    return z3.RealVal(str(fr))


def make_inputs(w, nf0, nff, sv, order):
    Ms = [SR.var("M%d" % q) for q in (4, 5, 6)]
    for m_ in Ms:
        assume(m_, ">0")
    W = [k * k * m_ for k, m_ in zip(RATIOS, Ms)]
    assume(W[1] - W[0], ">0")
    assume(W[2] - W[1], ">0")
    mu0 = SR.var("mu0")
    t = SR.var("t")
    X2 = SR.var("X2")
    for v in (mu0, t, X2):
        assume(v, ">0")
    R.finite_below_inf(mu0, t, *W)
    X2.log()  # the atom log(xif^2) gets its name before any fork
    # lemmas (implied by the assumptions above, stated to spare the solver non-linear reasoning): the couplings' walls under
    # exponentiated scale variation, w_q * xif^2, are ordered like the w_q
    assume(X2 * (W[1] - W[0]), ">0")
    assume(X2 * (W[2] - W[1]), ">0")
    R.finite_below_inf(t * X2, mu0 * X2, *[x * X2 for x in W])  # shifted renormalization scales / couplings' walls are finite too
    Qref2 = SR.var("Qref2")
    assume(Qref2, ">0")
    R.finite_below_inf(Qref2)
    theory = NS(order=order, xif=Squarable(X2), couplings=NS(ref=(Squarable(Qref2), 5)), n3lo_ad_variation=(0,) * 7, use_fhmruvv=True, matching_order=(order[0] - 1, 0),
                heavy=NS(masses=[NS(value=Squarable(m_)) for m_ in Ms], masses_scheme=w.POLE, matching_ratios=list(RATIOS)))
    operator = NS(mu20=mu0, init=(None, nf0), evolgrid=[(t, nff)], xgrid=NS(log=True, raw=np.array([0.5, 1.0]), size=2),
                  configs=NS(evolution_method=w.METHOD, ev_op_iterations=1, ev_op_max_order=(10, 0), polarized=False, time_like=False,
                             n_integration_cores=1, scvar_method=w.SVM[sv], interpolation_polynomial_degree=1, interpolation_is_log=True),
                  debug=NS(skip_singlet=False, skip_non_singlet=False))
    return theory, operator, W, mu0, t, X2


def _head_item(w, el):
    if isinstance(el, w.items.Evolution):
        return ("E", z3_of(el.origin), z3_of(el.target), el.nf, bool(el.cliff))
    return ("M", z3_of(el.scale), el.hq, bool(el.inverse))


def case_cont(log, nf0, nff, sv, order=(1, 0)):
    w = load_world()
    log.encode(w.ops._parts, w.rec._elements, w.com.atlas, w.com.couplings, w.com.interpolator, w.prt.evolve, w.prt._evolve_configs, w.prt._managers,
               w.evop.Operator.__init__, w.evop.Operator.mu2.fget,
               w.evop.Operator.compute_a, w.evop.Operator.compute, w.evop.Operator.quad_ker, w.evop.Operator.integrate, w.evop.Operator.run_op_integration,
               w.qk.quad_ker_ad, w.qk.quad_ker_qcd, w.items.Evolution.from_atlas, w.mat.Atlas.matched_path, w.mat.nf_default)
    decide = Decider(log)
    kw = {"nf0": nf0, "nff": nff, "sv": sv, "order": list(order)}
    tag = "[nf0=%s nff=%s %s order=%s]" % (nf0, nff, sv, list(order))
    summary = []

    def run():
        theory, operator, W, mu0, t, X2 = make_inputs(w, nf0, nff, sv, order)
        eko = NS(theory_card=theory, operator_card=operator)
        del w.calls.a[:], w.calls.quad[:], w.calls.couplings_kw[:]
        els = w.ops._parts((t, nff), eko)
        final = els[-1]
        D = NS()
        if isinstance(final, w.items.Evolution):
            w.prt.evolve(eko, final)
            D.head = [_head_item(w, e) for e in els[:-1]]
            D.origin = z3_of(final.origin)
            D.target = z3_of(final.target)
            D.nf = final.nf
            D.cliff = bool(final.cliff)
        else:
            # the path ends with a matching: nothing is evolved after it, i.e. the part of the operator that depends on the
            # target scale is the identity (treated like the identity shortcut of Operator.compute)
            D.head = [_head_item(w, e) for e in els]
            D.origin = D.target = z3_of(final.scale)
            D.nf = final.hq - 1 if final.inverse else final.hq
            D.cliff = False
        D.a_calls = [(z3_of(s), (n, eff)) for s, n, eff in w.calls.a]
        D.order = tuple(order)
        D.skipped = not w.calls.quad
        D.classes = {}
        D.factor = False
        D.flags = None
        if not D.skipped:
            seen = set()
            fidx = {P.INDEX[n] for n in ("FSV",) if n in P.INDEX}
            for f in w.calls.quad:
                k = f.keywords
                lab = (k["mode0"], k["mode1"])
                if lab in seen:
                    continue
                seen.add(lab)
                ker = f(0.75)  # the real quad_ker_ad -> quad_ker_qcd on the probe stubs
                ker = ker if isinstance(ker, SR) else SR(Q(Poly.const(ker)))
                D.classes[lab] = z3_of(ker)
                # the kernel carries a non-trivial expanded factor iff it depends on L = log(xif^2) (the probes for gamma and the solution do not)
                lv = k["Lsv"].v.n.vars() if isinstance(k["Lsv"], SR) else set()
                if set(lv) & set(ker.v.n.vars()):
                    D.factor = True
            k = w.calls.quad[0].keywords
            # is_threshold itself is not compared: only its effects are (kernel class, coupling arguments, identity shortcut)
            D.is_threshold = bool(k["is_threshold"])
            D.flags = (int(k["sv_mode"]), k["nf"], tuple(k["order"]), str(k["ev_method"]))
            D.Lsv = z3_of(k["Lsv"])
            D.q2 = (z3_of(k["mu2_from"]), z3_of(k["mu2_to"]))
        D.pc = [S.symbool_to_z3(b) for b in ctx.path.pc]
        D.dom = [S.rel_to_z3(p, r) for p, r in ctx.domain] + [S.rel_to_z3(p, r) for p, r in ctx.side] + [S.poly_to_z3(f) != 0 for f in ctx.nonzero.values()]
        D.x2 = z3_of(X2)
        summary.append(D)
        log.twin("path %d %s" % (len(summary), tag))
        log.collect_ctx()

    _r, pm = explore(run, max_paths=1500)
    log.path_stats(pm)
    ctx.reset()
    _decide_summary(log, decide, summary, kw, tag)


# ---------------------------------------------------------------------------
# deciding continuity on the summary
# ---------------------------------------------------------------------------
def _sub(e, pairs):
    return z3.substitute(e, *pairs) if not isinstance(e, (bool, int, str, tuple)) and e is not None else e


def _cont(Di, Dj, sub, eps):
    """C(D_i(t), D_j(t')) as z3 formula; entries of D_j are taken at t' through sub()."""
    g = []
    # the part of the path before the final segment does not move
    if len(Di.head) != len(Dj.head):
        return z3.BoolVal(False), "the number of segments/matchings before the final segment changes"
    for a, b in zip(Di.head, Dj.head):
        if a[0] != b[0]:
            return z3.BoolVal(False), "the path before the final segment changes"
        for x, y in zip(a[1:], b[1:]):
            g.append(x == sub(y) if z3.is_expr(x) or z3.is_expr(y) else z3.BoolVal(x == y))
    g.append(Di.origin == sub(Dj.origin))
    why = "flags / coupling arguments of the final segment are not continuous"
    if Di.skipped and Dj.skipped:
        return z3.And(g), why
    if not Di.skipped and not Dj.skipped:
        if Di.flags != Dj.flags:
            return z3.BoolVal(False), "flags (sv_mode, nf, order, method) differ: %r vs %r" % (Di.flags, Dj.flags)
        if set(Di.classes) != set(Dj.classes) or len(Di.a_calls) != len(Dj.a_calls) or len(Di.a_calls) != 2:
            return z3.BoolVal(False), "different sectors / number of coupling evaluations"
        for lab in Di.classes:
            g.append(Di.classes[lab] == sub(Dj.classes[lab]))
        g.append(Di.Lsv == sub(Dj.Lsv))
        g.append(Di.q2[0] == sub(Dj.q2[0]))
        g.append(sub(Dj.q2[1]) == Di.q2[1] * (1 + eps))
        (a0, n0), (a1, n1) = Di.a_calls
        (b0, m0), (b1, m1) = Dj.a_calls
        # (requested nf, nf the coupling is actually evaluated in); at LO a_s is continuous across the matching scales, so only
        # from NLO on the flavour number of the coupling is part of the continuity statement
        if Di.order[0] >= 2 and not (n0 == m0 and n1 == m1):
            return z3.And(g + [z3.BoolVal(False)]), ("the coupling is evaluated with a different number of flavours: (requested, effective) = %r, %r at t "
                                                      "vs %r, %r at t(1+eps)" % (n0, n1, m0, m1))
        g.append(a0 == sub(b0))
        g.append(sub(b1) == a1 * (1 + eps))
        return z3.And(g), why
    # exactly one is replaced by the identity: the computed one must tend to the identity when its segment closes
    Dc, s = (Dj, sub) if Di.skipped else (Di, (lambda e: e))
    x2 = s(Dc.x2)
    trivial_factor = z3.And(x2 - 1 <= Fraction(1, 10**8) + Fraction(1, 10**5), 1 - x2 <= Fraction(1, 10**8) + Fraction(1, 10**5))
    if Dc.factor:
        g.append(trivial_factor)
    if len(Dc.a_calls) != 2:
        return z3.BoolVal(False), "number of coupling evaluations"
    (c0, _n0), (c1, _n1) = Dc.a_calls
    # the evolution part of the computed neighbour is within the shortcut tolerance of the identity: its two a_s arguments
    # nearly coincide (np.isclose tolerance of the shortcut plus the displacement eps)
    c0z, c1z = s(c0), s(c1)
    tol = z3.RealVal(str(3 * Fraction(1, 10**5)))
    slack = tol * c1z + z3.RealVal(str(Fraction(1, 10**7))) * (1 + x2)
    g.append(z3.And(c1z - c0z <= slack, c0z - c1z <= slack))
    return z3.And(g), "an identity operator neighbours an operator carrying a non-trivial expanded factor (or whose a_s arguments are not close)"


def _decide_summary(log, decide, summary, kw, tag):
    t = z3.Real("t")
    eps = z3.Real("eps")
    tp = t * (1 + eps)
    pairs = [(t, tp)]
    sub = lambda e: z3.substitute(e, *pairs) if z3.is_expr(e) else e  # noqa: E731
    eps_dom = [eps != 0, eps <= z3.RealVal(str(EPS_MAX)), eps >= -z3.RealVal(str(EPS_MAX))]
    n = len(summary)
    if n == 0:
        log.inconclusive.append("no path " + tag)
        return
    for i, Di in enumerate(summary):
        base = Di.dom + Di.pc + eps_dom
        # vacuity twin of the pair obligations: path i has neighbours in the domain
        rs, _m, _dt = S.check(base + [sub(c) for c in summary[0].dom], 20000)
        log.twins.append(("pairs of path %d %s" % (i + 1, tag), rs))
        if rs != "sat":
            log.inconclusive.append("vacuity twin of the pair obligations of path %d %s is %s" % (i + 1, tag, rs))
        # totality: every neighbour t' of a point of path i lies on some explored path (sanity of the summary)
        cover = z3.Or([z3.And([sub(c) for c in Dj.pc]) for Dj in summary])
        rs, m, dt = S.check(base + [sub(c) for c in summary[0].dom] + [z3.Not(cover)], 20000)
        decide(S.Verdict(rs, "summary covers every neighbour of path %d/%d %s" % (i + 1, n, tag), None, _model(m), dt, None, 1),
               "summary:total", (MOD, "replay_none", {}))
        goals = []
        whys = []
        for j, Dj in enumerate(summary):
            if Dj.nf != Di.nf:
                continue  # another patch
            c, why = _cont(Di, Dj, sub, eps)
            goals.append((j, z3.Implies(z3.And([sub(x) for x in Dj.dom + Dj.pc]), c), why))
        goal = z3.And([g for _j, g, _w in goals])
        rs, m, dt = S.check(base + [z3.Not(goal)], 30000)
        what = "tuple of the final segment continuous from path %d/%d (cliff=%s, %s) to every neighbour t(1+eps) in the patch %s" % (
            i + 1, n, Di.cliff, "identity" if Di.skipped else "computed", tag)
        key = "final-segment"
        if rs == "sat":
            for j, g, why in goals:
                try:
                    if z3.is_false(m.eval(g, model_completion=True)):
                        what += " -- fails towards path %d (cliff=%s, %s): %s" % (j + 1, summary[j].cliff, "identity" if summary[j].skipped else "computed", why)
                        if summary[j].cliff != Di.cliff:
                            key = "recipes._elements:cliff"  # the recipe flag itself depends on the target scale
                        elif summary[j].skipped != Di.skipped:
                            key = "Operator.compute:identity-shortcut"
                        else:
                            key = "Operator:final-segment-arguments"
                        break
                except Exception:
                    pass
        decide(S.Verdict(rs, what, None, _model(m), dt, None, 1), key, (MOD, "replay_cont", kw), sampler=_sampler_for(kw["nf0"], kw["nff"]))


def _model(m):
    if m is None:
        return None
    out = {}
    for d in m.decls():
        v = m[d]
        try:
            if z3.is_rational_value(v):
                out[d.name()] = Fraction(v.numerator_as_long(), v.denominator_as_long())
            elif z3.is_algebraic_value(v):
                a = v.approx(30)
                out[d.name()] = Fraction(a.numerator_as_long(), a.denominator_as_long())
        except Exception:
            pass
    return out or None


def _sampler_for(nf0, nff):
    def sampler(rng):
        """candidate points: target on the origin of its final segment / on a wall / on the initial scale, neighbour displaced by 1e-7 or 1e-6"""
        Ms = sorted(rnd(rng, 2, 40, 1) for _ in range(3))
        while len(set(Ms)) < 3:
            Ms = sorted(rnd(rng, 2, 40, 1) for _ in range(3))
        W = sorted([Ms[0], 4 * Ms[1], 100 * Ms[2]])
        M4, M5, M6 = (W[i] / Fraction(RATIOS[i]) ** 2 for i in range(3))
        mu0 = rng.choice([rnd(rng, 2, 9, 4), W[0], W[1], rnd(rng, 2, 5000, 4)])
        if nf0 is None or nff is None or nf0 == nff:
            fo = mu0
        elif nff > nf0:
            fo = W[nff - 4]  # last activated quark
        else:
            fo = W[nff - 3]  # last de-activated quark nff+1
        t = rng.choice([fo, fo, W[0], W[1], W[2], mu0])
        return {"M4": M4, "M5": M5, "M6": M6, "mu0": mu0, "t": t, "eps": rng.choice([1, -1]) * Fraction(1, rng.choice([10**6, 10**7])),
                "X2": rng.choice([Fraction(1, 4), Fraction(4), Fraction(2)])}

    return sampler


# ---------------------------------------------------------------------------
# replay on the real code
# ---------------------------------------------------------------------------
def replay_none(point, **kw):
    return None


def _real_setup(point, nf0, nff, sv, order):
    from eko import interpolation
    from eko.io.types import ScaleVariationsMethod
    from ekobox import cards

    vals = {}
    dflt = {"M4": 4.0, "M5": 5.0625, "M6": 119808.0, "mu0": 2.7225, "t": 20.25, "eps": 1e-6, "X2": 4.0}
    for n in dflt:
        v = point.get(n, dflt[n])
        try:
            vals[n] = Fraction(v) if not isinstance(v, float) else Fraction(v)
        except Exception:
            return None
    # the statement is invariant under a common rescaling of all scales (up to the absolute 1e-8 of np.isclose):
    # bring solver models with tiny scales into the perturbative region by a power of 4 (exact in binary floating point)
    lo = min(vals[n] for n in ("M4", "M5", "M6", "mu0", "t"))
    lam = Fraction(1)
    while lo > 0 and lo * lam < 2:
        lam *= 4
    for n in ("M4", "M5", "M6", "mu0", "t"):
        vals[n] = vals[n] * lam
    W = [Fraction(k) ** 2 * vals[m] for k, m in zip(RATIOS, ("M4", "M5", "M6"))]
    if not (0 < W[0] < W[1] < W[2]) or not (vals["mu0"] > 0 and vals["t"] > 0 and vals["X2"] > 0) or not (0 < abs(vals["eps"]) <= EPS_MAX):
        return None
    if any(not (1 <= x < 10**9) for x in W + [vals["mu0"], vals["t"]]) or not (Fraction(1, 100) <= vals["X2"] <= 100):
        return None
    # linear scales; equal rationals -> bitwise equal squared scales
    q = {"w1": W[0], "w2": W[1], "w3": W[2], "mu0": vals["mu0"], "t": vals["t"]}
    lin = {n: float(v) ** 0.5 for n, v in q.items()}
    for a in q:
        for b in q:
            if q[a] == q[b]:
                lin[b] = lin[a]
    lin["t2"] = (float(vals["t"]) * (1.0 + float(vals["eps"]))) ** 0.5
    if lin["t2"] == lin["t"]:
        return None

    def mk(targets):
        tc = cards.example.theory()
        oc = cards.example.operator()
        oc.xgrid = interpolation.XGrid([0.2, 0.6, 1.0])
        oc.configs.interpolation_polynomial_degree = 1
        oc.configs.ev_op_iterations = 1
        oc.configs.scvar_method = {"unvaried": None, "exponentiated": ScaleVariationsMethod.EXPONENTIATED, "expanded": ScaleVariationsMethod.EXPANDED}[sv]
        tc.xif = float(vals["X2"]) ** 0.5
        tc.order = tuple(order)
        tc.matching_order = (max(order[0] - 1, 0), 0)
        for q_, n, k in zip("cbt", ("w1", "w2", "w3"), RATIOS):
            setattr(tc.heavy.matching_ratios, q_, k)
            getattr(tc.heavy.masses, q_).value = lin[n] / k
        oc.init = (lin["mu0"], nf0)
        oc.mugrid = [(m_, nff) for m_ in targets]
        return tc, oc

    return lin, vals, mk


def replay_cont(point, nf0, nff, sv, order):
    """Real objects first (recipes, Operator.mu2, real couplings), then two real tiny solves."""
    import pathlib
    import shutil
    import tempfile

    from eko import EKO
    from eko import evolution_operator as evop
    from eko import scale_variations
    from eko.runner import commons, managed, parts, recipes

    r = _real_setup(point, nf0, nff, sv, list(order))
    if r is None:
        return None
    lin, vals, mk = r
    eps = float(vals["eps"])
    tc, oc = mk([lin["t"], lin["t2"]])
    atlas = commons.atlas(tc, oc)
    info = []
    for ep in oc.evolgrid:
        els = recipes._elements(ep, atlas)
        fin = els[-1]
        if not hasattr(fin, "as_atlas") or not hasattr(fin, "cliff"):
            info.append(NS(ep=ep, nf=(fin.hq - 1 if fin.inverse else fin.hq), n=len(els) + 1, cliff=None, mu2=("path ends with the matching",), a_s=(), factor=False))
            continue
        op = evop.Operator(parts._evolve_configs(NS(theory_card=tc, operator_card=oc)), parts._managers(NS(theory_card=tc, operator_card=oc)),
                           fin.as_atlas, is_threshold=fin.cliff)
        info.append(NS(ep=ep, nf=fin.nf, n=len(els), cliff=fin.cliff, mu2=tuple(float(x) for x in op.mu2), a_s=tuple(float(x) for x in op.a_s),
                       factor=(op.sv_mode == scale_variations.Modes.expanded and not op.is_threshold)))
    a, b = info
    if a.nf != b.nf:
        return None  # neighbour is in another patch
    # independent expectation: a relative displacement eps of the target moves nothing by more than O(eps)
    if a.cliff is None or b.cliff is None:
        suspicious = True
    else:
        suspicious = (a.n != b.n or a.factor != b.factor or abs(a.mu2[0] - b.mu2[0]) > 1e-9 * abs(a.mu2[0])
                      or abs(b.mu2[1] - a.mu2[1]) > 10 * abs(eps) * abs(a.mu2[1]))
    # end to end: two real solves on a tiny grid
    d = tempfile.mkdtemp(prefix="c53_replay_")
    try:
        path = pathlib.Path(d) / "eko.tar"
        managed.solve(tc, oc, path)
        ops = {}
        with EKO.read(path) as e:
            for ep, op in e.items():
                ops[float(ep[0])] = np.array(op.operator)
    finally:
        shutil.rmtree(d, ignore_errors=True)
    t2s = [float(ep[0]) for ep in oc.evolgrid]
    if len(ops) != 2 or any(x not in ops for x in t2s):
        return None
    diff = float(np.max(np.abs(ops[t2s[0]] - ops[t2s[1]])))
    # continuity scale: |dO| <~ |dO/dlog t| * eps, with |dO/dlog t| = O(1) for these tiny grids; 1e3 * eps is far above that
    if diff > max(1e3 * abs(eps), 1e-4):
        return {"detail": "walls=%r init=(%r,%r) %s xif2=%r order=%r: targets (%r, nf=%r) and (%r, nf=%r) [relative distance %.1e] give operators differing by %.3g "
                          "(max element); final segment at t: cliff=%s a_s arguments %r a_s %r expanded-factor=%s; at t(1+eps): cliff=%s a_s arguments %r a_s %r expanded-factor=%s%s"
                          % ([float(x) for x in atlas.walls[1:4]], lin["mu0"] ** 2, nf0, sv, float(vals["X2"]), list(order), t2s[0], a.nf, t2s[1], b.nf, eps, diff,
                             a.cliff, a.mu2, a.a_s, a.factor, b.cliff, b.mu2, b.a_s, b.factor, "" if suspicious else " (plumbing tuple looked continuous)")}
    return None


# ---------------------------------------------------------------------------
def main():
    thorough = H.tier() == "thorough"
    import eko.runner.managed  # noqa: F401
    import eko.runner.parts  # noqa: F401

    chk = H.Check("C53", level="other")
    chk.explanation = ("Partial claim (plumbing): symbolic execution of the runner/Operator code that prepares the final segment of a target, summarised per path, "
                       "and an SMT decision that this data is continuous in the target scale within a patch. Continuity of the numerical kernels and of a_s(mu^2) "
                       "in their arguments is not part of the claim.")
    chk.bounds = [
        "nf0 in {3,4,5,6} x nff in {3,4,5,6,None}%s; scale-variation mode in {unvaried, exponentiated, expanded}; order %s"
        % (" plus nf0=None" if thorough else "", "(1,0),(2,0),(3,0)" if thorough else "(2,0), and (1,0) for the expanded scheme"),
        "walls w_q = k_q^2 m_q^2 with k = (2, 4, 2) and m_q^2 symbolic, strictly ordered; initial scale, target t, xif^2 > 0 symbolic reals; neighbour t(1+eps), 0<|eps|<=1e-6, same target nf",
        "targets exactly on a matching scale (lower or upper nf) or on the initial scale are reached symbolically (equalities decided by the solver)",
    ]
    chk.out_of_claim = [
        "continuity of the numerical kernels and of Couplings.a in their arguments (Couplings.a itself skips segments closer than 1e-5 relative)",
        "the identity shortcut of Operator.compute (np.isclose, rtol 1e-5): at the edge of that window the operator jumps by a relative 1e-5 effect; only claimed: the shortcut "
        "never stands next to an operator carrying a non-trivial expanded factor, and the couplings of its neighbour collapse",
        "QED (order[1] > 0) kernels, polarized/time-like flags, coincident or unsorted matching scales",
    ]
    chk.stubs = [
        "Couplings -> stub recording constructor arguments and every a(scale, nf_to) call together with the flavour number the coupling is evaluated in "
        "(nf_to, or the default flow of the couplings' own Atlas, built from masses * thresholds_ratios as the real constructor does); InterpolatorDispatcher -> 2-point stub",
        "scipy.integrate.quad -> records the integrand (functools.partial of the real quad_ker_ad) and returns 0",
        "quad_ker module: anomalous dimensions, ns/singlet dispatchers, sv_expanded.*_variation, sv_exponentiated.gamma_variation, QuadKerBase -> symbolic probes (which gamma reaches "
        "the solver, whether the expanded factor multiplies the kernel)",
        "parts.physical.PhysicalOperator.ad_to_evol_map -> passthrough; EKO -> namespace with theory_card/operator_card",
        "theory.xif and heavy.masses[i].value are given by their squares (x ** 2 -> symbol); numpy.inf -> symbol INF above every finite scale; hash(symbolic scalar) = 0",
    ]
    chk.assumptions = ["floats are read as exact reals",
                       "at LO a_s is continuous across the matching scales (trivial decoupling), so the flavour number the coupling is evaluated in is compared from NLO on"]
    orders = [(1, 0), (2, 0), (3, 0)] if thorough else [(1, 0), (2, 0)]
    nf0s = (3, 4, 5, 6) + ((None,) if thorough else ())
    # expanded first (longest)
    for sv in ("expanded", "exponentiated", "unvaried"):
        for order in orders:
            if not thorough and order == (1, 0) and sv != "expanded":
                continue  # quick tier: LO only for the expanded scheme (NLO covers the same plumbing plus the couplings' flavour number)
            for nf0 in nf0s:
                for nff in (None, 3, 4, 5, 6):
                    chk.case("cont.%s.o%d.%s-%s" % (sv, order[0], nf0, nff), case_cont, nf0=nf0, nff=nff, sv=sv, order=order)
    return chk.run()


if __name__ == "__main__":
    import sys

    sys.exit(main())
