"""C31  Flavour/evolution basis rotations and sector projectors are exact and complete.

Real code executed (exactly, floats read as the rationals they denote): the tables of eko.basis_rotation
(rotate_flavor_to_evolution, rotate_flavor_to_unified_evolution, evol_basis(_pids), unified_evol_basis(_pids),
map_ad_to_evolution, map_ad_to_unified_evolution, full_labels, full_unified_labels), ad_projector,
select_light_flavors_uni_ev, ad_projectors, intrinsic_unified_evol_labels.

The inputs (nf, qed, sector label) are finite and enumerated as cases; the universally quantified object is the
vector that is rotated / projected: 14 real symbols.  Oracle: harness.flavour_model (transcribed from
doc/source/theory/FlavorSpace.rst).

Sector maps act on row vectors (tests/eko/test_basis_rotation.py: `g @ ad_projector((21,100)) == S`): for an
element "A.B" of a sector the distribution A is sent to B, every other element of the intrinsic (unified)
evolution basis with nf light flavours is annihilated.  With f = sum_X c_X r_X (r_X: flavour content of basis
element X, c_X symbolic) the goal is   f @ P_sector == sum_{A.B in sector} c_A r_B   for all c.
"""
import importlib
import traceback
from fractions import Fraction

import z3

from .common import *  # noqa
from symx.solver import explore, prove_formula
from symx import harness as H
from . import flavour_model as M
from .flavour_sym import TOL, fr, box, symvec, prove_small, prove_all_zero, failed, lin, evalf

MOD = "harness.C31"


def _br():
    return importlib.import_module("eko.basis_rotation")


def _tag(qed):
    return "qed" if qed else "qcd"


def _exc_key(e):
    """<innermost eko function>:<exception type> of an exception raised by the real code"""
    if isinstance(e, NonFinite):
        return "ad_projector:non-finite"
    tb = traceback.extract_tb(e.__traceback__)
    fn = [fr_.name for fr_ in tb if "/eko/" in fr_.filename]
    return "%s:%s" % (fn[-1] if fn else "?", type(e).__name__)


class NonFinite(Exception):
    pass


def _matrix(P):
    """numpy float matrix -> exact Fractions (non-finite entries raise NonFinite)"""
    try:
        return [[fr(x) for x in r] for r in P.tolist()]
    except (ValueError, OverflowError):
        raise NonFinite("matrix contains nan/inf")


def _vecmat(f, P):
    return [lin([P[j][i] for j in range(len(f))], f) for i in range(len(P[0]))]


# ---------------------------------------------------------------------------
# rotation tables
# ---------------------------------------------------------------------------
def case_tables(log, qed):
    br = _br()
    log.encode(br)
    labels = list(br.unified_evol_basis if qed else br.evol_basis)
    table = br.rotate_flavor_to_unified_evolution if qed else br.rotate_flavor_to_evolution
    name = "rotate_flavor_to_unified_evolution" if qed else "rotate_flavor_to_evolution"
    R = _matrix(table)

    def run():
        f = symvec("f", M.PIDS)
        box(f)
        Rf = [lin(r, f) for r in R]
        # (1) every row is the distribution its label names (FlavorSpace.rst), position by position
        ok_shape = len(labels) == 14 and len(R) == 14 and all(len(r) == 14 for r in R) and tuple(br.flavor_basis_pids) == M.PIDS
        v = prove_formula(z3.BoolVal(bool(ok_shape)), "%s is 14x14 over flavor_basis_pids == documented order" % name)
        log.decide(v, key="%s:shape" % name, replay=(MOD, "replay_tables", {"qed": qed}), candidates=[{}])
        for i, lab in enumerate(labels):
            want = lin(M.row(lab, 6, qed), f)
            v = prove_all_zero([Rf[i] - want], "%s[%s] . f == documented content of %s" % (name, lab, lab))
            log.decide(v, key="%s:row[%s]" % (name, lab), replay=(MOD, "replay_tables", {"qed": qed, "row": lab}), sampler=_sampler_f)
        # (2) invertible: R f = 0 has only the trivial solution
        v = prove_formula(z3.And([S.poly_to_z3(x.v.n) == 0 for x in f]), "%s . f == 0  =>  f == 0" % name,
                          assumptions=[S.poly_to_z3(x.v.n) == 0 for x in Rf])
        log.decide(v, key="%s:invertible" % name, replay=(MOD, "replay_tables", {"qed": qed, "inv": True}), candidates=[{}])
        # (3) rows mutually orthogonal <=> R^T diag(|r_i|^2)^-1 R == 1 for a square R: the stated inverse reproduces f
        norms = [sum((x * x for x in r), Fraction(0)) for r in R]
        if all(norms):
            back = [lin([R[k][i] / norms[k] for k in range(14)], Rf) for i in range(14)]
            v = prove_all_zero([back[i] - f[i] for i in range(14)], "R^T diag(r_i.r_i)^-1 R f == f  (rows of %s mutually orthogonal, R^-1 R f = f)" % name)
        else:
            v = failed("%s has a zero row" % name)
        log.decide(v, key="%s:orthogonal" % name, replay=(MOD, "replay_tables", {"qed": qed, "orth": True}), sampler=_sampler_f)
        # (4) label / pid tables
        for what, ok in _table_facts(br, qed):
            v = prove_formula(z3.BoolVal(bool(ok)), what)
            log.ok(v, {"nontrivial": False}) if v.holds else log.decide(v, key="tables:%s" % what.split(":")[0], replay=(MOD, "replay_tables", {"qed": qed, "fact": what}), candidates=[{}])
        log.twin("domain")
        log.collect_ctx()
        # translator validation
        pt = _sampler_f(log.rng)
        import numpy as np

        fl = np.array([float(pt[M.vname("f", p)]) for p in M.PIDS])
        num = np.asarray(table, dtype=float) @ fl
        for i in (1, 3, 9):
            if abs(evalf(Rf[i], pt) - num[i]) > 1e-10:
                log.inconclusive.append("translator validation failed on %s row %d" % (name, i))
            log.validate()

    _r, pm = explore(run)
    log.path_stats(pm)


def _evol_pid(lab):
    if lab in ("ph", "g"):
        return {"ph": 22, "g": 21}[lab]
    base = {"S": 100, "T": 100, "V": 200}[lab[0]]
    if lab in ("S", "V"):
        return base
    if lab in ("Sdelta", "Vdelta"):
        return base + 1
    tag = lab[1:]
    if tag in M.QED_NS:  # pid_ns(u) = pid_ns + 1, pid_ns(d) = pid_ns + 2
        return base + int(tag[1]) + (1 if tag[0] == "u" else 2)
    return base + int(tag)


def _table_facts(br, qed):
    facts = []
    if qed:
        facts.append(("unified_evol_basis_pids: follow the documented numbering", list(br.unified_evol_basis_pids) == [_evol_pid(l) for l in br.unified_evol_basis]))
        facts.append(("unified_evol_basis: 14 distinct labels == documented unified basis", sorted(br.unified_evol_basis) == sorted(M.basis(6, True))))
        facts.append(("full_unified_labels: == documented sectors", list(br.full_unified_labels) == M.sector_labels(True)))
        facts.append(("map_ad_to_unified_evolution: sector -> members", all(
            br.map_ad_to_unified_evolution.get(l) == [".".join(e) for e in M.sector_elements(l, 6, True)] for l in M.sector_labels(True))
            and len(br.map_ad_to_unified_evolution) == len(M.sector_labels(True))))
        for nf in range(3, 7):
            facts.append(("intrinsic_unified_evol_labels: nf=%d == documented intrinsic unified basis" % nf,
                          sorted(br.intrinsic_unified_evol_labels(nf)) == sorted(M.basis(nf, True))))
    else:
        facts.append(("evol_basis_pids: follow the documented numbering", list(br.evol_basis_pids) == [_evol_pid(l) for l in br.evol_basis]))
        facts.append(("evol_basis: 14 distinct labels == documented basis", sorted(br.evol_basis) == sorted(M.basis(6, False))))
        facts.append(("full_labels: == documented sectors", list(br.full_labels) == M.sector_labels(False) and tuple(br.anomalous_dimensions_basis) == tuple(br.full_labels)))
        facts.append(("map_ad_to_evolution: sector -> members", all(
            br.map_ad_to_evolution.get(l) == [".".join(e) for e in M.sector_elements(l, 6, False)] for l in M.sector_labels(False))
            and len(br.map_ad_to_evolution) == len(M.sector_labels(False))))
        facts.append(("non_singlet_pids_map: documented pids", dict(br.non_singlet_pids_map) == M.NS))
        facts.append(("flavor_basis_names: match flavor_basis_pids", all(
            (n == "ph" and p == 22) or (n == "g" and p == 21) or (p == M.QUARK.get(n)) or (n.endswith("bar") and p == -M.QUARK.get(n[:-3], 0))
            for n, p in zip(br.flavor_basis_names, br.flavor_basis_pids)) and br.quark_names == "duscbt"))
    return facts


def _sampler_f(rng):
    return {M.vname("f", p): rnd(rng, -1, 1) for p in M.PIDS}


def _decide(log, v, key, **kw):
    """log.decide, but a defect already replayed in this case (same key) is not replayed again (a replay imports eko: ~10 s)."""
    if not v.holds and any(x["key"] == key for x in log.violations):
        log.obligations.append({"case": log.case, "what": v.what, "status": v.status, "time_s": round(v.time, 4), "residual_terms": v.nterms,
                                "note": "same finding as the replayed violation with key %s" % key})
        return False
    return log.decide(v, key=key, **kw)


# ---------------------------------------------------------------------------
# availability: every sector of the basis has a map, for every nf
# ---------------------------------------------------------------------------
def case_available(log, qed):
    br = _br()
    log.encode(br.ad_projector, br.select_light_flavors_uni_ev, br.ad_projectors)
    sectors = M.sector_labels(qed)

    def run():
        bad = {}
        import warnings

        for nf in (3, 4, 5, 6):
            for lab in sectors:
                try:
                    with warnings.catch_warnings():
                        warnings.simplefilter("ignore")
                        _matrix(br.ad_projector(lab, nf, qed))
                except Exception as e:  # noqa
                    bad.setdefault(_exc_key(e), []).append((nf, lab, "%s: %s" % (type(e).__name__, e)))
        for key, items in bad.items():
            v = failed("ad_projector is available for every sector of the %s basis: %d (nf, sector) pairs fail, e.g. %r" % (_tag(qed), len(items), items[0]))
            log.decide(v, key=key, replay=(MOD, "replay_available", {"qed": qed, "pairs": [(nf, lab) for nf, lab, _ in items]}), candidates=[{}])
        n_ok = 4 * len(sectors) - sum(len(i) for i in bad.values())
        v = prove_formula(z3.BoolVal(True), "ad_projector returned a finite matrix for %d of %d (nf, sector) pairs of the %s basis" % (n_ok, 4 * len(sectors), _tag(qed)))
        log.ok(v, {"nontrivial": False})
        badc = {}
        for nf in (3, 4, 5, 6):
            try:
                n = len([_matrix(p) for p in br.ad_projectors(nf, qed)])
                if n != len(sectors):
                    badc.setdefault("ad_projectors[%s]:count" % _tag(qed), []).append((nf, "%d maps for %d sectors" % (n, len(sectors))))
            except Exception as e:  # noqa
                badc.setdefault("ad_projectors[%s]:%s" % (_tag(qed), type(e).__name__), []).append((nf, "%s: %s" % (type(e).__name__, e)))
        for key, items in badc.items():
            v = failed("ad_projectors(nf, qed=%s) collects one map per sector of the %s basis: fails for %r" % (qed, _tag(qed), items))
            log.decide(v, key=key, replay=(MOD, "replay_collection", {"qed": qed, "nfs": [nf for nf, _ in items]}), candidates=[{}])
        if not badc:
            log.ok(prove_formula(z3.BoolVal(True), "ad_projectors(nf, qed=%s) returns %d finite maps for nf=3..6" % (qed, len(sectors))), {"nontrivial": False})

    _r, pm = explore(run)
    log.path_stats(pm)


# ---------------------------------------------------------------------------
# state carried between calls: every ordered pair of (nf, qed, sector) computed one after the other in ONE process
# ---------------------------------------------------------------------------
def _nodes():
    return [(nf, qed, lab) for qed in (False, True) for nf in (3, 4, 5, 6) for lab in M.sector_labels(qed)]


def _sequence(n):
    """i, 0, i, 1, ..., i, n-1 for every i: every ordered pair (p, q), p == q included, occurs as two consecutive calls"""
    for i in range(n):
        for j in range(n):
            yield i
            yield j


def _snapshot(br):
    import copy

    names = ("rotate_flavor_to_evolution", "rotate_flavor_to_unified_evolution", "map_ad_to_evolution", "map_ad_to_unified_evolution", "flavor_basis_pids",
             "evol_basis", "unified_evol_basis", "evol_basis_pids", "unified_evol_basis_pids", "full_labels", "full_unified_labels", "non_singlet_pids_map")
    return {n: copy.deepcopy(getattr(br, n)) for n in names}


def _same(a, b):
    import numpy as np

    if isinstance(a, np.ndarray) or isinstance(b, np.ndarray):
        return np.array_equal(np.asarray(a), np.asarray(b))
    return a == b


def _call_sequence(br, nodes, upto=None):
    """Run the call sequence on the module `br`.  Returns {node index: {result key: (first call index, matrix | exception)}}."""
    import warnings
    import numpy as np

    seen = {}
    with warnings.catch_warnings():
        warnings.simplefilter("ignore")
        for k, idx in enumerate(_sequence(len(nodes))):
            nf, qed, lab = nodes[idx]
            try:
                P = np.asarray(br.ad_projector(lab, nf, qed), dtype=float)
                key = P.tobytes()
            except Exception as e:  # noqa
                P, key = e, ("exc", type(e).__name__, str(e))
            d = seen.setdefault(idx, {})
            if key not in d:
                d[key] = (k, P)
            if upto is not None and k >= upto:
                break
    return seen


def case_sequence(log):
    """All 124 (nf, qed, sector) projectors are requested one after the other in this worker process such that every ordered
    pair occurs as two consecutive calls (30752 calls).  Every DISTINCT matrix that a (nf, qed, sector) ever returned in that
    history must be the documented sector map (for a symbolic row vector); the module-level tables must be unchanged afterwards.
    The replay re-runs the same call sequence up to the offending call on the real module in a clean interpreter."""
    br = _br()
    log.encode(br.ad_projector, br.select_light_flavors_uni_ev)
    nodes = _nodes()
    before = _snapshot(br)
    seen = _call_sequence(br, nodes)
    after = _snapshot(br)
    ncalls = 2 * len(nodes) ** 2

    def run_tables():
        changed = [n for n in before if not _same(before[n], after[n])]
        what = "module-level tables of eko.basis_rotation are unchanged after the %d ad_projector calls" % ncalls
        if changed:
            log.decide(failed(what + ": changed %r" % changed), key="ad_projector:mutates-tables", replay=(MOD, "replay_sequence", {"tables": True}), candidates=[{}])
        else:
            log.ok(prove_formula(z3.BoolVal(True), what), {"nontrivial": False})

    _r, pm = explore(run_tables)
    log.path_stats(pm)
    for idx, (nf, qed, lab) in enumerate(nodes):
        labs = M.basis(nf, qed)
        Rb = {l: M.row(l, nf, qed) for l in labs}
        els = M.sector_elements(lab, nf, qed)

        def run(idx=idx, nf=nf, qed=qed, lab=lab, labs=labs, Rb=Rb, els=els):
            c = dict(zip(labs, symvec("c", labs)))
            box(c.values())
            f = [lin([Rb[l][i] for l in labs], [c[l] for l in labs]) for i in range(14)]
            want = [sum((c[a] * Rb[b][i] for a, b in els), SR(0)) for i in range(14)]
            for _key, (k, P) in sorted(seen[idx].items(), key=lambda t: t[1][0]):
                kw = {"upto": k, "node": idx}
                what = "ad_projector(%r, nf=%d, %s) as returned at call %d of the in-process sequence (%d distinct results in %d calls)" % (lab, nf, _tag(qed), k, len(seen[idx]), ncalls)
                if isinstance(P, Exception):
                    _decide(log, failed(what + " raised %s: %s" % (type(P).__name__, P)), key="ad_projector[%s]:history" % _tag(qed), replay=(MOD, "replay_sequence", kw), candidates=[{}])
                    continue
                try:
                    img = _vecmat(f, _matrix(P))
                except NonFinite:
                    _decide(log, failed(what + " contains nan/inf"), key="ad_projector[%s]:history" % _tag(qed), replay=(MOD, "replay_sequence", kw), candidates=[{}])
                    continue
                v = prove_small([img[i] - want[i] for i in range(14)], what + ": f @ P == sum c_A r_B over %s for every f" % (["%s.%s" % e for e in els] or "no element"))
                _decide(log, v, key="ad_projector[%s]:history" % _tag(qed), replay=(MOD, "replay_sequence", kw), sampler=_sampler_c(labs))
            log.twin("domain")

        _r, pm = explore(run)
        log.path_stats(pm)


# ---------------------------------------------------------------------------
# sector maps
# ---------------------------------------------------------------------------
def case_projectors(log, nf, qed, deep=False):
    br = _br()
    log.encode(br.ad_projector, br.select_light_flavors_uni_ev, br.ad_projectors)
    sectors = M.sector_labels(qed)
    labs = M.basis(nf, qed)
    Rb = {l: M.row(l, nf, qed) for l in labs}
    kw = {"nf": nf, "qed": qed}

    def run():
        c = dict(zip(labs, symvec("c", labs)))
        box(c.values())
        f = [lin([Rb[l][i] for l in labs], [c[l] for l in labs]) for i in range(14)]
        proj, img, skipped = {}, {}, []
        # action of every available sector of the basis (availability itself is decided in case_available)
        for lab in sectors:
            try:
                P = _matrix(br.ad_projector(lab, nf, qed))
            except Exception as e:  # noqa
                skipped.append((lab, _exc_key(e)))
                continue
            proj[lab] = P
            img[lab] = _vecmat(f, P)
            els = M.sector_elements(lab, nf, qed)
            want = [sum((c[a] * Rb[b][i] for a, b in els), SR(0)) for i in range(14)]
            v = prove_small([img[lab][i] - want[i] for i in range(14)],
                            "f @ ad_projector(%r, nf=%d, %s) == sum c_A r_B over %s (source -> target, all other basis distributions annihilated)"
                            % (lab, nf, _tag(qed), ["%s.%s" % e for e in els] or "no element"))
            _decide(log, v, key="ad_projector[%s]:sector-map" % _tag(qed), replay=(MOD, "replay_sector", dict(kw, lab=lab)), sampler=_sampler_c(labs))
        # diagonal maps: idempotent, mutually orthogonal, complete on the active parton space
        diag = [l for l in sectors if M.is_diagonal_sector(l)]
        if all(l in proj for l in diag):
            for a in diag:
                for b in diag:
                    comp = _vecmat(img[a], proj[b])
                    want = img[a] if a == b else [SR(0)] * 14
                    v = prove_small([comp[i] - want[i] for i in range(14)],
                                    "f @ P%r @ P%r == %s (nf=%d, %s)" % (a, b, "f @ P%r" % (a,) if a == b else "0", nf, _tag(qed)))
                    _decide(log, v, key="ad_projector[%s]:algebra" % _tag(qed), replay=(MOD, "replay_algebra", dict(kw, a=a, b=b)), sampler=_sampler_c(labs))
            tot = [sum((img[a][i] for a in diag), SR(0)) for i in range(14)]
            active = M.light_partons(nf, qed)
            want = [f[i] if M.PIDS[i] in active else SR(0) for i in range(14)]
            v = prove_small([tot[i] - want[i] for i in range(14)], "sum of diagonal sector maps == identity on the active partons %r (nf=%d, %s)" % (active, nf, _tag(qed)))
            _decide(log, v, key="ad_projector[%s]:completeness" % _tag(qed), replay=(MOD, "replay_algebra", dict(kw, complete=True)), sampler=_sampler_c(labs))
        else:
            log.notes.append("nf=%d %s: sectors %r unavailable (%s, decided by case available.%s); idempotence/orthogonality/completeness not evaluated"
                             % (nf, _tag(qed), [l for l, _ in skipped], sorted({k for _, k in skipped}), _tag(qed)))
        if deep:
            # composition law of all sector maps: P_{A.B} P_{C.D} = delta_{BC} P_{A.D}
            for a in proj:
                for b in proj:
                    comp = _vecmat(img[a], proj[b])
                    want = [sum((c[x] * Rb[w][i] for x, y in M.sector_elements(a, nf, qed) for z, w in M.sector_elements(b, nf, qed) if y == z), SR(0)) for i in range(14)]
                    v = prove_small([comp[i] - want[i] for i in range(14)], "f @ P%r @ P%r follows the composition law (nf=%d, %s)" % (a, b, nf, _tag(qed)))
                    _decide(log, v, key="ad_projector[%s]:algebra" % _tag(qed), replay=(MOD, "replay_algebra", dict(kw, a=a, b=b, law=True)), sampler=_sampler_c(labs))
        # the collection of all sector maps
        try:
            mats = [_matrix(p) for p in br.ad_projectors(nf, qed)]
        except Exception:  # noqa: decided in case_available
            mats = None
        if mats is not None and len(mats) == len(sectors):
            for k, lab in enumerate(sectors):
                if lab not in proj:
                    continue
                got = _vecmat(f, mats[k])
                v = prove_small([got[i] - img[lab][i] for i in range(14)], "f @ ad_projectors(nf=%d, %s)[%d] == f @ ad_projector(%r)" % (nf, _tag(qed), k, lab))
                _decide(log, v, key="ad_projectors[%s]:member" % _tag(qed), replay=(MOD, "replay_collection", dict(kw, nfs=[nf])), sampler=_sampler_c(labs))
        log.twin("domain")
        log.collect_ctx()
        # translator validation: symbolic image evaluated at a point == numpy on floats
        import numpy as np

        pt = _sampler_c(labs)(log.rng)
        fl = np.array([sum(float(pt[M.vname("c", l)]) * float(Rb[l][i]) for l in labs) for i in range(14)])
        for lab in list(proj)[:3]:
            num = fl @ br.ad_projector(lab, nf, qed)
            sym = [evalf(x, pt) for x in img[lab]]
            if max(abs(a - b) for a, b in zip(sym, num)) > 1e-10:
                log.inconclusive.append("translator validation failed for ad_projector(%r, %d, %s)" % (lab, nf, qed))
            log.validate()

    _r, pm = explore(run)
    log.path_stats(pm)


def _sampler_c(labs):
    def s(rng):
        return {M.vname("c", l): rnd(rng, -1, 1) for l in labs}

    return s


# ---------------------------------------------------------------------------
# replays: the real module on floats against the documented flavour content
# ---------------------------------------------------------------------------
def _far(a, b, rtol=1e-8):
    import numpy as np

    a, b = np.asarray(a, dtype=float), np.asarray(b, dtype=float)
    if not (np.all(np.isfinite(a)) and np.all(np.isfinite(b))):
        return True
    return bool(np.max(np.abs(a - b)) > rtol * max(1.0, float(np.max(np.abs(b)))))


def _setup(point, nf, qed):
    import numpy as np

    labs = M.basis(nf, qed)
    Rb = {l: np.array([float(x) for x in M.row(l, nf, qed)]) for l in labs}
    cv = {l: float(Fraction(point.get(M.vname("c", l), 0))) for l in labs}
    f = sum(cv[l] * Rb[l] for l in labs)
    return labs, Rb, cv, f


def replay_available(point, qed, pairs):
    import numpy as np
    import warnings
    M.light_eko()
    import eko.basis_rotation as br

    bad = []
    for nf, lab in pairs:
        lab = tuple(lab)
        try:
            with warnings.catch_warnings():
                warnings.simplefilter("ignore")
                P = br.ad_projector(lab, nf, qed)
            if not np.all(np.isfinite(P)):
                bad.append("ad_projector(%r, nf=%d, qed=%s) contains nan/inf" % (lab, nf, qed))
        except Exception as e:  # noqa
            bad.append("ad_projector(%r, nf=%d, qed=%s) raises %s: %s" % (lab, nf, qed, type(e).__name__, e))
    if bad:
        return {"detail": "%d sector maps of the %s basis are not available in eko.basis_rotation: %s" % (len(bad), _tag(qed), "; ".join(bad[:6]) + (" ..." if len(bad) > 6 else ""))}
    return None


def replay_sector(point, nf, qed, lab):
    import numpy as np
    M.light_eko()
    import eko.basis_rotation as br

    labs, Rb, cv, f = _setup(point, nf, qed)
    P = br.ad_projector(tuple(lab), nf, qed)
    want = np.zeros(14)
    for a, b in M.sector_elements(tuple(lab), nf, qed):
        want = want + cv[a] * Rb[b]
    got = f @ P
    if _far(got, want):
        return {"detail": "row vector f = sum c_X r_X with c = %r (intrinsic %s basis, nf=%d): f @ ad_projector(%r) = %r but the sector map must give %r"
                          % ({k: v for k, v in cv.items() if v}, _tag(qed), nf, tuple(lab), got.tolist(), want.tolist())}
    return None


def replay_algebra(point, nf, qed, a=None, b=None, complete=False, law=False):
    import numpy as np
    M.light_eko()
    import eko.basis_rotation as br

    labs, Rb, cv, f = _setup(point, nf, qed)
    if complete:
        diag = [l for l in M.sector_labels(qed) if M.is_diagonal_sector(l)]
        tot = sum(f @ br.ad_projector(l, nf, qed) for l in diag)
        act = M.light_partons(nf, qed)
        want = np.array([f[i] if M.PIDS[i] in act else 0.0 for i in range(14)])
        return {"detail": "sum of diagonal sector maps applied to %r gives %r, expected %r" % (f.tolist(), tot.tolist(), want.tolist())} if _far(tot, want) else None
    a, b = tuple(a), tuple(b)
    got = f @ br.ad_projector(a, nf, qed) @ br.ad_projector(b, nf, qed)
    want = np.zeros(14)
    for x, y in M.sector_elements(a, nf, qed):
        for z, w in M.sector_elements(b, nf, qed):
            if y == z:
                want = want + cv[x] * Rb[w]
    return {"detail": "f @ P%r @ P%r = %r, expected %r (nf=%d, %s)" % (a, b, got.tolist(), want.tolist(), nf, _tag(qed))} if _far(got, want) else None


def replay_collection(point, qed, nfs):
    import numpy as np
    M.light_eko()
    import eko.basis_rotation as br

    sectors = M.sector_labels(qed)
    for nf in nfs:
        try:
            allp = br.ad_projectors(nf, qed)
        except Exception as e:  # noqa
            return {"detail": "eko.basis_rotation.ad_projectors(nf=%d, qed=%s) raises %s: %s" % (nf, qed, type(e).__name__, e)}
        if len(allp) != len(sectors):
            return {"detail": "ad_projectors(nf=%d, qed=%s) returns %d maps, the %s basis has %d sectors" % (nf, qed, len(allp), _tag(qed), len(sectors))}
        if not np.all(np.isfinite(allp)):
            return {"detail": "ad_projectors(nf=%d, qed=%s) contains nan/inf" % (nf, qed)}
        labs, Rb, cv, f = _setup(point, nf, qed)
        for k, lab in enumerate(sectors):
            try:
                one = br.ad_projector(lab, nf, qed)
            except Exception:  # noqa
                continue
            if _far(f @ allp[k], f @ one):
                return {"detail": "ad_projectors(nf=%d, qed=%s)[%d] differs from ad_projector(%r)" % (nf, qed, k, lab)}
    return None


def replay_sequence(point, upto=None, node=None, tables=False):
    """the same call sequence as in the harness worker, on the real module in this clean interpreter"""
    import numpy as np

    M.light_eko()
    import eko.basis_rotation as br

    nodes = _nodes()
    if tables:
        _call_sequence(br, nodes)
        bad = []
        for qed in (False, True):
            tab = np.asarray(br.rotate_flavor_to_unified_evolution if qed else br.rotate_flavor_to_evolution, dtype=float)
            labels = list(br.unified_evol_basis if qed else br.evol_basis)
            for i, l in enumerate(labels):
                if _far(tab[i], [float(x) for x in M.row(l, 6, qed)]):
                    bad.append("row %s of the %s rotation table is now %r" % (l, _tag(qed), tab[i].tolist()))
            bad += [w for w, ok in _table_facts(br, qed) if not ok]
        return {"detail": "after %d ad_projector calls the module-level tables of eko.basis_rotation have changed: %s" % (2 * len(nodes) ** 2, "; ".join(bad[:4]))} if bad else None
    seen = _call_sequence(br, nodes, upto=upto)
    nf, qed, lab = nodes[node]
    hit = [P for (k, P) in seen.get(node, {}).values() if k == upto]
    if not hit:
        return None  # the call at index `upto` returned a result already seen earlier: not the reported one
    P = hit[0]
    seq = list(_sequence(len(nodes)))[: upto + 1]
    prev = nodes[seq[-2]] if len(seq) > 1 else None
    where = "call %d of one process (the preceding call was ad_projector%r; first calls: %r)" % (
        upto, (prev[2], prev[0], prev[1]) if prev else None, [(nodes[i][2], nodes[i][0], nodes[i][1]) for i in seq[:3]])
    if isinstance(P, Exception):
        return {"detail": "ad_projector(%r, nf=%d, qed=%s) at %s raises %s: %s" % (lab, nf, qed, where, type(P).__name__, P)}
    labs, Rb, cv, f = _setup(point, nf, qed)
    want = np.zeros(14)
    for a, b in M.sector_elements(lab, nf, qed):
        want = want + cv[a] * Rb[b]
    got = f @ P
    if _far(got, want):
        return {"detail": "ad_projector(%r, nf=%d, qed=%s) at %s: for f = sum c_X r_X with c = %r, f @ P = %r but the sector map must give %r"
                          % (lab, nf, qed, where, {k: v for k, v in cv.items() if v}, got.tolist(), want.tolist())}
    return None


def replay_tables(point, qed, row=None, inv=False, orth=False, fact=None):
    import numpy as np
    M.light_eko()
    import eko.basis_rotation as br

    table = np.asarray(br.rotate_flavor_to_unified_evolution if qed else br.rotate_flavor_to_evolution, dtype=float)
    labels = list(br.unified_evol_basis if qed else br.evol_basis)
    if fact is not None:
        bad = [w for w, ok in _table_facts(br, qed) if not ok]
        return {"detail": "inconsistent tables in eko.basis_rotation: %r" % bad} if bad else None
    if row is not None:
        want = np.array([float(x) for x in M.row(row, 6, qed)])
        got = table[labels.index(row)]
        return {"detail": "row %s of the %s rotation is %r, documented content %r" % (row, _tag(qed), got.tolist(), want.tolist())} if _far(got, want) else None
    if inv:
        return {"detail": "rotation table (%s) is singular: rank %d" % (_tag(qed), np.linalg.matrix_rank(table))} if np.linalg.matrix_rank(table) < 14 else None
    if orth:
        g = table @ table.T
        off = g - np.diag(np.diag(g))
        if np.max(np.abs(off)) > 1e-12:
            i, j = np.unravel_index(np.argmax(np.abs(off)), off.shape)
            return {"detail": "rows %s and %s of the %s rotation are not orthogonal: dot = %r" % (labels[i], labels[j], _tag(qed), g[i, j])}
        return None
    if table.shape != (14, 14) or tuple(br.flavor_basis_pids) != M.PIDS:
        return {"detail": "table shape %r / flavor_basis_pids %r" % (table.shape, br.flavor_basis_pids)}
    return None


# ---------------------------------------------------------------------------
def main():
    chk = H.Check("C31")
    chk.exhaustive = True
    chk.bounds = ["nf in {3,4,5,6} x {QCD, QED} enumerated (exhaustive); every sector label of the basis (7 QCD, 24 unified) enumerated",
                  "rotated / projected vector: 14 real symbols (coordinates over the intrinsic evolution basis incl. photon and heavy q+-), |c| <= 1 (goals are linear)",
                  "state carried between calls: one call sequence over all 124 (nf, qed, sector) in which every ordered pair occurs consecutively (30752 calls in one process); "
                  "every distinct matrix returned along it is decided symbolically, the module tables are compared before/after",
                  "float entries of the projectors read as exact rationals; goals with non-dyadic weights hold within 1e-12, integer tables exactly"]
    chk.out_of_claim = ["floating-point rounding of ad_projector beyond 1e-12", "nf outside 3..6",
                        "call histories other than the pair-covering sequence (e.g. state that needs three specific calls in a row), calls of other module functions in between"]
    chk.stubs = []
    chk.assumptions = ["harness/flavour_model.py transcribes doc/source/theory/FlavorSpace.rst correctly (trusted base)",
                       "sector maps act on row vectors: for an element 'A.B' the distribution A is sent to B (tests/eko/test_basis_rotation.py)"]
    deep = H.tier() == "thorough"
    _br()  # import eko once in the parent (about 10 s); the forked workers inherit it
    for qed in (False, True):
        chk.case("tables.%s" % _tag(qed), case_tables, qed=qed)
        chk.case("available.%s" % _tag(qed), case_available, qed=qed)
        for nf in (3, 4, 5, 6):
            chk.case("projectors.%s.nf%d" % (_tag(qed), nf), case_projectors, nf=nf, qed=qed, deep=deep)
    chk.case("sequence", case_sequence)
    return chk.run()


if __name__ == "__main__":
    import sys

    sys.exit(main())
