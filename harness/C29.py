"""C29  Matching elements obey sum rules and renormalisation-group structure.

Real functions executed symbolically: ekore.operator_matrix_elements.{unpolarized.space_like, polarized.space_like,
unpolarized.time_like}.{A_singlet, A_non_singlet} and everything below them, the anomalous-dimension towers of
ekore.anomalous_dimensions.* (nf and nf+1 flavours), eko.beta.beta_qcd and eko.couplings.compute_matching_coeffs_down.

(1) sum rules (mode b: N = 2, 1 (2+1e-6 where A_gq^(3) has its removable pole) concrete, nf and L real symbols):
    |column sums| <= documented tolerance for all L in [-3,3], nf in [3,5].
(2) RG structure.  With f^(nf+1)(mu) = A(L, a) f^(nf)(mu), a = a_s^(nf+1)(mu^2), L = ln(mu^2/m^2), differentiating in ln mu^2:
        R(a) := dA/dL + Gamma'(a) A - A Gamma~(a_nf(a, L)) + beta'(a) dA/da = 0    order by order in a,
    Gamma' = (nf+1)-flavour anomalous dimension in eko's matching basis (g, q = Sigma_light, H = h+):
        G_gg = gg', G_gq = G_gH = gq', G_qg = nf qg'/(nf+1), G_qq = (nf qq' + ns+')/(nf+1), G_qH = nf (qq' - ns+')/(nf+1),
        G_Hg = qg'/(nf+1), G_Hq = (qq' - ns+')/(nf+1), G_HH = (qq' + nf ns+')/(nf+1)
    Gamma~ = nf-flavour anomalous dimension with a non-evolving intrinsic H row/column, evaluated at
        a_nf(a, L) = a + d11 L a^2 + (d20 + d21 L + d22 L^2) a^3   (eko.couplings.compute_matching_coeffs_down),
    beta'(a) = - sum_k beta_k^(nf+1) a^(k+2).
    Orders 1-2 in mode a (N, nf, L real symbols, psi atoms): R_1 = 0 (all columns), R_2 = 0 (gluon and light-quark
    columns; the heavy-quark-initiated O(a^2) elements are documented as not implemented) as exact identities, POLE and
    MSBAR; unpolarised, polarised (Delta gamma) and time-like (fragmentation matrices; order 1).
    Order 3 (unpolarised, POLE) in mode b at fixed N: R_3(nf, L) = c0(nf) + c1(nf) L + c2(nf) L^2 with |c2| <= 1e-9,
    |c1| <= 2e-4, |c0| <= 2e-2 (c0 carries the difference of the parametrised NNLO anomalous dimensions at nf+1 and nf).
"""
from fractions import Fraction

import numpy as realnp
import z3

from .common import *  # noqa
from . import ekoresym as E
from symx.solver import explore, prove_zero, prove_rel, prove_formula
from symx import harness as H
from symx import poly as P

MOD = "harness.C29"
ZERO7 = (0, 0, 0, 0, 0, 0, 0)
OME = {"sl": "ekore.operator_matrix_elements.unpolarized.space_like", "pol": "ekore.operator_matrix_elements.polarized.space_like",
       "tl": "ekore.operator_matrix_elements.unpolarized.time_like"}
AD = {"sl": "ekore.anomalous_dimensions.unpolarized.space_like", "pol": "ekore.anomalous_dimensions.polarized.space_like",
      "tl": "ekore.anomalous_dimensions.unpolarized.time_like"}
T = "tests/ekore/operator_matrix_elements/unpolarized/space_like/"
N2EPS = 2.0 + 1e-6

TOL = {
    "as1": ("1e-10", T + "test_as1.py::test_A_1_intrinsic: gluon column exactly 0, heavy-quark column atol=1e-10"),
    "as2.g": ("2e-6", T + "test_as2.py::test_A_2: gluon momentum atol=2e-6 (L in {0,100})"),
    "as2.q": ("1e-11", "test_as2.py::test_A_2: quark momentum atol=1e-11"),
    "as2.ns": ("2e-11", "test_as2.py::test_A_2: quark number atol=2e-11"),
    "as3.g": ("2e-4 + 1.8e-4*|L|", T + "test_as3.py::test_A_3: atol 2e-4 at L=0 and 2e-3 at L=10 (nf=3; 'depends on the approximation of aHg3'): linear interpolation in |L|"),
    "as3.q": ("3e-5 + 1e-4*|L|", "test_as3.py::test_A_3: atol 3e-5 at L=0, N=2+1e-6 (removable pole 1/(N-2) in A_gq^(3)); the test states that the log parts conserve "
              "momentum exactly at N=2: 1e-4*|L| allows for their slope over the 1e-6 offset (not documented in the repo)"),
    "as3.ns": ("6e-5", "test_as3.py::test_A_3: quark number atol=6e-5 (L in {0,10}; 'depends on the precision of the fitted part of aNSqq3')"),
    "rg3.c0": ("2e-2", "no repo test; L^0 coefficient of R_3 contains gamma^(2)(nf+1) - gamma^(2)(nf) of the parametrised NNLO anomalous dimensions "
               "(NNLO class accuracy 6.5e-3 per entry at N=2, see C25) and the fitted pieces of A^(2); chosen 3 x that class tolerance for N <= 20"),
    "rg3.c1": ("2e-4", "no repo test; L^1 coefficient of R_3: exact log terms against the NLO anomalous dimensions with the fitted g3 (accuracy ~1e-5, C25 NLO class 4e-5) times O(10) factors"),
    "rg3.c2": ("1e-9", "L^2 coefficient of R_3: closed forms on both sides (rounding only)"),
}


def tol_value(tid, L):
    e, _s = TOL[tid]
    if "|L|" in e:
        a, b = e.split("+")
        return Fraction(a.strip()) + Fraction(b.strip().split("*")[0]) * abs(L)
    return Fraction(e)


def tol_float(tid, L):
    e, _s = TOL[tid]
    if "|L|" in e:
        a, b = e.split("+")
        return float(a) + float(b.strip().split("*")[0]) * abs(L)
    return float(e)


# ---------------------------------------------------------------------------
# sum rules
# ---------------------------------------------------------------------------
def _abs_le(log, expr, tol, what, key, rkw):
    E.prove_abs_le(E.as_sr(expr), tol, what, log, key, (MOD, "replay_sumrule", rkw),
                   candidates=[{"nf": Fraction(3), "L": Fraction(0)}, {"nf": Fraction(5), "L": Fraction(3)}, {"nf": Fraction(4), "L": Fraction(-3)}])
    im = E.im_sr(expr)
    if not im.is_zero():
        E.prove_abs_le(im, Fraction(1, 10**9), "Im " + what, log, key, (MOD, "replay_sumrule", rkw), candidates=[{"nf": Fraction(3), "L": Fraction(1)}])


def case_sumrules(log):
    om = E.mod(OME["sl"])
    log.encode(om.A_singlet, om.A_non_singlet, om.as3.A_singlet, om.as3.A_ns)
    for t, (e, s) in TOL.items():
        if not t.startswith("rg"):
            log.assume("tolerance %s: %s  [%s]" % (t, e, s))

    def run():
        E.unpatch()
        E.patch()
        nf = SR.var("nf")
        L = SR.var("L")
        E.box(nf, 3, 5)
        E.box(L, -3, 3)
        aL = abs(L)  # forks the path into L >= 0 and L < 0
        c = E.mod("ekore.harmonics.cache")
        for msbar in (False, True):
            A = om.A_singlet((2, 0), 2.0, nf, L, msbar)
            for k in (1, 2):
                for col, cn in enumerate("gqH"):
                    tot = A[k - 1][0, col] + A[k - 1][1, col] + A[k - 1][2, col]
                    tid = "as1" if k == 1 else ("as2.g" if cn == "g" else ("as2.q" if cn == "q" else "as1"))
                    _abs_le(log, tot, tol_value(tid, L), "|A_g%s + A_q%s + A_H%s|(N=2, a_s^%d, %s) <= %s" % (cn, cn, cn, k, "MSBAR" if msbar else "POLE", TOL[tid][0]),
                            "ome.as%d:momentum.%s" % (k, cn), {"order": k, "combo": cn, "msbar": msbar})
        as3 = om.as3
        ch = c.reset()
        gcol = as3.A_gg(2.0, ch, nf, L) + as3.A_qg(2.0, ch, nf, L) + as3.A_Hg(2.0, ch, nf, L)
        _abs_le(log, gcol, tol_value("as3.g", L), "|A_gg + A_qg + A_Hg|(N=2, a_s^3) <= %s" % TOL["as3.g"][0], "ome.as3:momentum.g", {"order": 3, "combo": "g"})
        A3 = om.A_singlet((3, 0), N2EPS, nf, L, False)[2]
        qcol = A3[0, 1] + A3[1, 1] + A3[2, 1]
        _abs_le(log, qcol, tol_value("as3.q", L), "|A_gq + A_qq + A_Hq|(N=2+1e-6, a_s^3) <= %s" % TOL["as3.q"][0], "ome.as3:momentum.q", {"order": 3, "combo": "q"})
        hcol = A3[0, 2] + A3[1, 2] + A3[2, 2]
        _abs_le(log, hcol, tol_value("as1", L), "|third column|(a_s^3) == 0", "ome.as3:momentum.H", {"order": 3, "combo": "H"})
        Ans = om.A_non_singlet((3, 0), 1.0, nf, L)
        _abs_le(log, Ans[0][1, 1], tol_value("as1", L), "|A_HH|(N=1, a_s^1) <= 1e-10", "ome.as1:number", {"order": 1, "combo": "ns"})
        _abs_le(log, Ans[1][0, 0], tol_value("as2.ns", L), "|A_qq,ns|(N=1, a_s^2) <= 2e-11", "ome.as2:number", {"order": 2, "combo": "ns"})
        _abs_le(log, Ans[2][0, 0], tol_value("as3.ns", L), "|A_qq,ns|(N=1, a_s^3) <= 6e-5", "ome.as3:number", {"order": 3, "combo": "ns"})
        for k in range(3):
            for (i, j) in ((0, 1), (1, 0)) + (((1, 1),) if k else ((0, 0),)):
                _abs_le(log, Ans[k][i, j], Fraction(1, 10**12), "A_ns^(%d)[%d,%d] == 0" % (k + 1, i, j), "ome:ns.zero", {"order": k + 1, "combo": "nszero"})
        E.twin(log)
        log.collect_ctx()

    _r, pm = explore(run)
    log.path_stats(pm)


def replay_sumrule(point, order, combo, msbar=False):
    import ekore.operator_matrix_elements.unpolarized.space_like as om
    from ekore.harmonics import cache as c

    nf = float(point.get("nf", 3))
    L = float(point.get("L", 0))
    if not (3 <= nf <= 5 and -3 <= L <= 3):
        return None
    if combo in ("ns", "nszero"):
        A = om.A_non_singlet((3, 0), 1.0, nf, L)
        if combo == "nszero":
            for k in range(3):
                for (i, j) in ((0, 1), (1, 0)) + (((1, 1),) if k else ((0, 0),)):
                    if abs(A[k][i, j]) > 1e-12:
                        return {"detail": "A_ns^(%d)[%d,%d] = %r != 0" % (k + 1, i, j, A[k][i, j])}
            return None
        val = A[order - 1][1, 1] if order == 1 else A[order - 1][0, 0]
        tid = {1: "as1", 2: "as2.ns", 3: "as3.ns"}[order]
    elif order <= 2:
        A = om.A_singlet((2, 0), 2.0, nf, L, msbar)[order - 1]
        col = "gqH".index(combo)
        val = A[0, col] + A[1, col] + A[2, col]
        tid = "as1" if order == 1 else ("as2.g" if combo == "g" else ("as2.q" if combo == "q" else "as1"))
    else:
        as3 = om.as3
        ch = c.reset()
        if combo == "g":
            val = as3.A_gg(2.0, ch, nf, L) + as3.A_qg(2.0, ch, nf, L) + as3.A_Hg(2.0, ch, nf, L)
            tid = "as3.g"
        else:
            A3 = om.A_singlet((3, 0), N2EPS, nf, L, False)[2]
            col = "gqH".index(combo)
            val = A3[0, col] + A3[1, col] + A3[2, col]
            tid = "as3.q" if combo == "q" else "as1"
    tol = tol_float(tid, L)
    if abs(val) > tol * (1 + 1e-6) + 1e-14:
        return {"detail": "OME a_s^%d %s-combination at nf=%r L=%r (msbar=%r): |%r| exceeds the documented tolerance %s = %.3g" % (order, combo, nf, L, msbar, val, TOL[tid][0], tol)}
    return None


# ---------------------------------------------------------------------------
# RG structure
# ---------------------------------------------------------------------------
def zmat(n):
    m = realnp.empty((n, n), dtype=object)
    for i in range(n):
        for j in range(n):
            m[i, j] = SR(QZERO)
    return m


def part(a, which):
    out = realnp.empty(a.shape, dtype=object)
    for idx in realnp.ndindex(a.shape):
        out[idx] = E.as_sr(a[idx]) if which == "re" else E.im_sr(a[idx])
    return out


def cplx(a):
    """object array of Cx"""
    out = realnp.empty(a.shape, dtype=object)
    for idx in realnp.ndindex(a.shape):
        e = a[idx]
        out[idx] = e if isinstance(e, Cx) else Cx.lift(e if isinstance(e, SR) else complex(e))
    return out


def tangent(a):
    out = realnp.empty(a.shape, dtype=object)
    for idx in realnp.ndindex(a.shape):
        e = a[idx]
        out[idx] = Cx(e.re.tangent(), e.im.tangent())
    return out


def gamma3(S, ns, nf1):
    """(g, q, H) anomalous dimension of the theory in which H is active (nf1 = nf+1 flavours); S = eko singlet matrix [[qq, qg], [gq, gg]]"""
    qq, qg, gq, gg = S[0, 0], S[0, 1], S[1, 0], S[1, 1]
    nl = nf1 - 1
    G = realnp.empty((3, 3), dtype=object)
    G[0, 0], G[0, 1], G[0, 2] = gg, gq, gq
    G[1, 0], G[1, 1], G[1, 2] = qg * nl / nf1, (qq * nl + ns) / nf1, (qq - ns) * nl / nf1
    G[2, 0], G[2, 1], G[2, 2] = qg / nf1, (qq - ns) / nf1, (qq + ns * nl) / nf1
    return G


def gamma3_low(S):
    z = Cx(0, 0, True)
    G = realnp.empty((3, 3), dtype=object)
    for i in range(3):
        for j in range(3):
            G[i, j] = z
    G[0, 0], G[0, 1], G[1, 0], G[1, 1] = S[1, 1], S[1, 0], S[0, 1], S[0, 0]
    return G


def rg_residual(A, Gp, Gt, beta_p, d, L, order):
    """R_1..R_order (object matrices of Cx).  A: [A_1..], Gp: [gamma'_0..], Gt: [gamma~_0..] (same shape), beta_p: [beta_0', ..],
    d: downward matching coefficients d[n][k] of a_nf = a + sum_n a^(n+1) sum_k d[n][k] L^k."""
    n = A[0].shape[0]
    one = realnp.empty((n, n), dtype=object)
    zero = realnp.empty((n, n), dtype=object)
    for i in range(n):
        for j in range(n):
            one[i, j] = Cx(1 if i == j else 0, 0, True)
            zero[i, j] = Cx(0, 0, True)
    Aser = [one] + list(A)
    dA = [zero] + [tangent(a) for a in A]
    c1 = L * float(d[1][1])
    c2 = float(d[2][0]) + L * float(d[2][1]) + L * L * float(d[2][2])
    ser = ([0, 1, c1, c2] + [0] * order)[:order + 1]  # a_nf as a series in a

    def smul(x, y):
        out = [0] * (order + 1)
        for i, xi in enumerate(x):
            for j, yj in enumerate(y):
                if i + j <= order and not (isinstance(xi, int) and xi == 0) and not (isinstance(yj, int) and yj == 0):
                    out[i + j] = out[i + j] + xi * yj
        return out

    pw = {1: ser}
    for k in range(2, order + 1):
        pw[k] = smul(pw[k - 1], ser)
    Gts = [zero] * (order + 1)
    for k in range(1, order + 1):
        for m in range(order + 1):
            co = pw[k][m]
            if isinstance(co, int) and co == 0:
                continue
            Gts[m] = Gts[m] + Gt[k - 1] * co
    Gps = [zero] + list(Gp)
    R = []
    for m in range(1, order + 1):
        r = dA[m]
        for i in range(1, m + 1):
            r = r + Gps[i] @ Aser[m - i] - Aser[m - i] @ Gts[i]
        for k in range(len(beta_p)):
            j = m - 1 - k
            if j >= 1:
                r = r - Aser[j] * (beta_p[k] * j)
        R.append(r)
    return R


def _towers(kind, order, N, nf):
    """(singlet list, ns+ list, ns- list) of the anomalous dimensions at nf flavours, orders 1..order"""
    ad = E.mod(AD[kind])
    if kind == "sl":
        S = ad.gamma_singlet((order, 0), N, nf, ZERO7, True)
        nsp = ad.gamma_ns((order, 0), 10101, N, nf, ZERO7, True)
        nsm = ad.gamma_ns((order, 0), 10201, N, nf, ZERO7, True)
    else:
        S = ad.gamma_singlet((order, 0), N, nf)
        nsp = ad.gamma_ns((order, 0), 10101, N, nf)
        nsm = ad.gamma_ns((order, 0), 10201, N, nf)
    return [cplx(S[k]) for k in range(order)], [Cx.lift(x) if not isinstance(x, Cx) else x for x in cplx(nsp)], [x for x in cplx(nsm)]


def _ome(kind, order, N, nf, L, msbar):
    om = E.mod(OME[kind])
    if kind == "sl":
        return [cplx(a) for a in om.A_singlet((order, 0), N, nf, L, msbar)], [cplx(a) for a in om.A_non_singlet((order, 0), N, nf, L)]
    if kind == "pol":
        return [cplx(a) for a in om.A_singlet((order, 0), N, nf, L)], [cplx(a) for a in om.A_non_singlet((order, 0), N, L)]
    return [cplx(a) for a in om.A_singlet((order, 0), N, L)], [cplx(a) for a in om.A_non_singlet((order, 0), N, L)]


def _build(kind, order, N, nf, L, msbar):
    import eko.couplings as cp

    beta = E.mod("eko.beta")
    d = cp.compute_matching_coeffs_down("MSBAR" if msbar else "POLE", 3)  # entries up to [2,*] do not depend on nf
    As, Ans = _ome(kind, order, N, nf, L, msbar)
    Sp, nspp, nsmp = _towers(kind, order, N, nf + 1)
    Sl, nspl, nsml = _towers(kind, order, N, nf)
    Gp = [gamma3(Sp[k], nspp[k], nf + 1) for k in range(order)]
    Gt = [gamma3_low(Sl[k]) for k in range(order)]
    bp = [beta.beta_qcd((k + 2, 0), nf + 1) for k in range(order)]
    R = rg_residual(As, Gp, Gt, bp, d, L, order)
    # non-singlet light quarks: scalar equation with gamma_ns,-
    one = lambda x: realnp.array([[x]], dtype=object)  # noqa: E731
    Rns = rg_residual([one(a[0, 0]) for a in Ans], [one(x) for x in nsmp], [one(x) for x in nsml], bp, d, L, order)
    # intrinsic heavy non-singlet h-: evolves with gamma_ns above, not at all below
    RH = rg_residual([one(a[1, 1]) for a in Ans], [one(x) for x in nsmp], [one(Cx(0, 0, True)) for _ in nsml], bp, d, L, order)
    return R, Rns, RH, d


def case_rg_exact(log, kind, order, msbar):
    """orders 1..order as exact identities (mode a)"""
    om = E.mod(OME[kind])
    ad = E.mod(AD[kind])
    import eko.couplings as cp

    log.encode(om.A_singlet, om.A_non_singlet, ad.gamma_singlet, ad.gamma_ns, E.mod("eko.beta").beta_qcd, cp.compute_matching_coeffs_down, cp.invert_matching_coeffs)
    scheme = "MSBAR" if msbar else "POLE"

    def run():
        E.unpatch()
        E.patch()
        stub = E.install_psi()
        N = SR.var("N")
        assume(N - 2, ">0")
        nf = SR.var("nf")
        E.box(nf, 3, 5)
        L = SR.var("L", seed=True)
        E.box(L, -3, 3)
        R, Rns, RH, d = _build(kind, order, N, nf, L, msbar)
        rkw = {"kind": kind, "msbar": msbar}
        names = "gqH"
        for m in range(order):
            for i in range(3):
                for j in range(3):
                    if j == 2 and (m >= 1 or kind != "sl"):
                        continue  # heavy-quark-initiated elements beyond O(a_s) (and all of them for pol/tl) are documented as not implemented
                    v = prove_zero(R[m][i, j], "R_%d[%s,%s] == 0: dA/dL = -Gamma' A + A Gamma~(a_nf) - beta' dA/da at O(a_s^%d), %s %s" % (m + 1, names[i], names[j], m + 1, kind, scheme))
                    E.decide(log, v, "rg.%s.as%d:%s%s" % (kind, m + 1, names[i], names[j]), replay=(MOD, "replay_rg", dict(rkw, order=m + 1, entry=[i, j])), sampler=_sampler)
            v = prove_zero(Rns[m][0, 0], "non-singlet: dA_ns/dL = -gamma_ns'(a) A_ns + A_ns gamma_ns(a_nf) - beta' dA_ns/da at O(a_s^%d), %s %s" % (m + 1, kind, scheme))
            E.decide(log, v, "rg.%s.as%d:ns" % (kind, m + 1), replay=(MOD, "replay_rg", dict(rkw, order=m + 1, entry="ns")), sampler=_sampler)
            if m == 0 and kind == "sl":
                v = prove_zero(RH[m][0, 0], "intrinsic h-: dA_HH/dL = -gamma_ns' at O(a_s), %s" % kind)
                E.decide(log, v, "rg.%s.as1:HH" % kind, replay=(MOD, "replay_rg", dict(rkw, order=1, entry="HH")), sampler=_sampler)
        E.twin(log)
        log.collect_ctx()
        for s_ in sorted(stub.instances):
            log.assume("axiom instance: " + s_)
        log.assume("decoupling: a_nf = a + (%r) L a^2 + (%r + %r L + %r L^2) a^3 from eko.couplings.compute_matching_coeffs_down(%s)" % (d[1][1], d[2][0], d[2][1], d[2][2], scheme))

    _r, pm = explore(run)
    log.path_stats(pm)
    _validate_rg(log, kind, order, msbar)


def case_scheme(log):
    """MSBAR vs POLE through the tower entry point the evolution uses (A_singlet(matching_order, n, nf, L, is_msbar)).
    With m_pole = m(m) (1 + delta a_s) the pole logarithm is L_pole = L - 2 delta a_s, hence  A^(2)|MSBAR = A^(2)|POLE - 2 delta dA^(1)/dL
    (gluon and light-quark columns; A^(1) unchanged).  delta is fixed by the decoupling relation the property takes as given:
    re-expanding a_nf(a, L_pole) gives d20|MSBAR - d20|POLE = -2 delta d11, i.e. 2 delta = (d20|MSBAR - d20|POLE)/(-d11) (= 8 CF)."""
    om = E.mod(OME["sl"])
    import eko.couplings as cp

    log.encode(om.A_singlet, om.as2.A_singlet, cp.compute_matching_coeffs_down)
    log.register_replay("scheme.sl.as2", (MOD, "replay_scheme", {}), _sampler)

    def run():
        E.unpatch()
        E.patch()
        stub = E.install_psi()
        N = SR.var("N")
        assume(N - 2, ">0")
        nf = SR.var("nf")
        E.box(nf, 3, 5)
        L = SR.var("L", seed=True)
        E.box(L, -3, 3)
        dP = cp.compute_matching_coeffs_down("POLE", 3)
        dM = cp.compute_matching_coeffs_down("MSBAR", 3)
        two_delta = SR(Q(Poly.const(float(dM[2][0])))) - float(dP[2][0])
        two_delta = two_delta / (-float(dP[1][1]))
        log.assume("mass relation from the decoupling coefficients: 2 delta = (d20|MSBAR - d20|POLE)/(-d11) = %s" % float(two_delta))
        for order in (2,):
            AP = [cplx(a) for a in om.A_singlet((order, 0), N, nf, L, False)]
            AM = [cplx(a) for a in om.A_singlet((order, 0), N, nf, L, True)]
            dA1 = tangent(AP[0])
            for i in range(3):
                for j in range(3):
                    v = prove_zero(AM[0][i, j] - AP[0][i, j], "A^(1)[%s,%s]: MSBAR == POLE (tower, matching order %d)" % ("gqH"[i], "gqH"[j], order))
                    E.decide(log, v, "scheme.sl.as1", replay=(MOD, "replay_scheme", {}), sampler=_sampler)
                    if j == 2:
                        continue  # heavy-quark-initiated O(a_s^2) elements are not implemented in either scheme
                    v = prove_zero(AM[1][i, j] - AP[1][i, j] + dA1[i, j] * two_delta,
                                   "A^(2)[%s,%s]|MSBAR == A^(2)|POLE - 2 delta dA^(1)/dL through A_singlet(matching_order=(2,0), .., is_msbar)" % ("gqH"[i], "gqH"[j]))
                    E.decide(log, v, "scheme.sl.as2", replay=(MOD, "replay_scheme", {}), sampler=_sampler)
        E.twin(log)
        for s_ in sorted(stub.instances):
            log.assume("axiom instance: " + s_)

    _r, pm = explore(run)
    log.path_stats(pm)


def replay_scheme(point):
    """real tower: A_singlet(.., is_msbar=True) - A_singlet(.., False) against -2 delta dA^(1)/dL with the literature constant
    m_pole/m(m) = 1 + (4/3)(alpha_s/pi) = 1 + 4 CF a_s (Gray, Broadhurst, Grafe, Schilcher 1990), dA^(1)/dL by finite differences"""
    import numpy as np
    import ekore.operator_matrix_elements.unpolarized.space_like as om

    nf = int(round(float(point.get("nf", 4))))
    L0 = float(point.get("L", 1.0))
    x = float(point.get("N", 4.2))
    if x <= 2 or not (3 <= nf <= 5):
        return None
    two_delta = 2 * 4 * 4.0 / 3.0
    for Nz in (complex(x), complex(x, 2.5)):
        for mo in ((2, 0), (3, 0)):
            AP = om.A_singlet(mo, Nz, nf, L0, False)
            AM = om.A_singlet(mo, Nz, nf, L0, True)
            d1 = (om.A_singlet((1, 0), Nz, nf, L0 + 0.5, False)[0] - om.A_singlet((1, 0), Nz, nf, L0 - 0.5, False)[0]) / 1.0
            want = -two_delta * d1
            for i in range(3):
                for j in range(2):
                    got = AM[1][i, j] - AP[1][i, j]
                    if abs(got - want[i, j]) > 1e-8 * max(1.0, abs(want[i, j])):
                        return {"detail": "A_singlet(%r, N=%r, nf=%d, L=%r): A^(2)[%d,%d]|MSBAR - A^(2)|POLE = %r but the mass relation requires -8 CF dA^(1)/dL = %r"
                                % (mo, Nz, nf, L0, i, j, got, want[i, j])}
            if abs(AM[0] - AP[0]).max() > 1e-12:
                return {"detail": "A^(1) differs between MSBAR and POLE at N=%r" % (Nz,)}
    return None


# ---------------------------------------------------------------------------
# the identities above are proven for the tower requested at one matching order; the evolution requests it at every order up to
# the documented maximum: the O(a_s^m) element must be the same matrix whatever length of tower is asked for
# ---------------------------------------------------------------------------
TOWER_MAX = {"sl": 3, "pol": 2, "tl": 3}  # tl: elements beyond O(a_s) are documented as unknown and taken as zero


def case_tower(log, kind):
    om = E.mod(OME[kind])
    log.encode(om.A_singlet, om.A_non_singlet)

    def run():
        E.unpatch()
        E.patch()
        stub = E.install_psi()
        N = SR.var("N")
        assume(N - 2, ">0")
        nf = SR.var("nf")
        E.box(nf, 3, 5)
        L = SR.var("L")
        E.box(L, -3, 3)
        kmax = TOWER_MAX[kind]
        for msbar in ((False, True) if kind == "sl" else (False,)):
            towers = {k: _ome(kind, k, N, nf, L, msbar) for k in range(1, kmax + 1)}
            for k in range(2, kmax + 1):
                for m in range(k):
                    ref_len = m + 1
                    for which, dim in ((0, 3), (1, 2)):
                        a, b = towers[k][which][m], towers[ref_len][which][m]
                        for i in range(dim):
                            for j in range(dim):
                                v = prove_zero(Cx.lift(a[i, j]) - Cx.lift(b[i, j]), "%s %s tower requested at matching order %d: the O(a_s^%d) element [%d,%d] is the one handed out at matching order %d%s"
                                               % (kind, "singlet" if which == 0 else "non-singlet", k, m + 1, i, j, ref_len, " (MSBAR)" if msbar else ""))
                                E.decide(log, v, "tower.%s:prefix" % kind, replay=(MOD, "replay_tower", {"kind": kind, "msbar": msbar, "k": k, "m": m, "which": which}), sampler=_sampler)
        E.twin(log)
        log.collect_ctx()
        for s_ in sorted(stub.instances):
            log.assume("axiom instance: " + s_)

    _r, pm = explore(run)
    log.path_stats(pm)


def replay_tower(point, kind, msbar, k, m, which):
    import importlib
    import numpy as np

    om = importlib.import_module(OME[kind])
    nf = int(round(float(point.get("nf", 4))))
    nf = min(max(nf, 3), 5)
    L = float(point.get("L", 1.0))

    def tower(order, Nz):
        if kind == "sl":
            return om.A_singlet((order, 0), Nz, nf, L, msbar) if which == 0 else om.A_non_singlet((order, 0), Nz, nf, L)
        if kind == "pol":
            return om.A_singlet((order, 0), Nz, nf, L) if which == 0 else om.A_non_singlet((order, 0), Nz, L)
        return om.A_singlet((order, 0), Nz, L) if which == 0 else om.A_non_singlet((order, 0), Nz, L)

    for Nz in (complex(4.2), complex(3.1, 2.5)):
        a, b = np.array(tower(k, Nz)[m], dtype=complex), np.array(tower(m + 1, Nz)[m], dtype=complex)
        if np.abs(a - b).max() > 1e-12 * max(1.0, float(np.abs(b).max())):
            return {"detail": "%s %s matching tower at N=%r, nf=%d, L=%r: the O(a_s^%d) element requested with matching order %d is %r, with matching order %d it is %r"
                              % (kind, "singlet" if which == 0 else "non-singlet", Nz, nf, L, m + 1, k, a.tolist(), m + 1, b.tolist())}
    return None


def _validate_rg(log, kind, order, msbar):
    """translator validation of the pieces: symbolic OME / anomalous dimensions at points == real float code"""
    E.unpatch()
    om = E.mod(OME[kind])
    pts = [(rnd(log.rng, 2.2, 15), Fraction(log.rng.choice([3, 4, 5])), rnd(log.rng, -3, 3)) for _ in range(3)]

    def call(N, nf, L):
        if kind == "sl":
            return om.A_singlet((order, 0), N, nf, L, msbar)
        if kind == "pol":
            return om.A_singlet((order, 0), N, nf, L)
        return om.A_singlet((order, 0), N, L)

    ref = [call(complex(float(n)), float(f), float(l)) for n, f, l in pts]
    ctx.reset()
    E.patch()
    E.install_psi()
    N, nf, L = SR.var("N"), SR.var("nf"), SR.var("L")
    sym = call(N, nf, L)
    for (n, f, l), r in zip(pts, ref):
        env = E.PsiNumEnv({"N": n, "nf": f, "L": l})
        for idx in realnp.ndindex(r.shape):
            e = sym[idx]
            got = complex(env.value(e if isinstance(e, (SR, Cx)) else Cx.lift(complex(e))))
            if abs(got - r[idx]) > 1e-7 * max(1.0, abs(r[idx])):
                log.inconclusive.append("translator validation failed: %s A_singlet%r at N=%s nf=%s L=%s: %r vs %r" % (kind, idx, n, f, l, got, r[idx]))
        log.validate()
    E.unpatch()


def _lcoefs(x):
    """x: SR, polynomial in L with coefficients rational in nf -> {power: SR}"""
    q = x.v
    iL = P.INDEX.get("L")
    if iL is None:
        return {0: x}
    co = q.n.coeffs_in(iL)
    return {e: SR(Q(p, q.den)) for e, p in co.items()}


def case_rg_order3(log, Ns):
    """O(a_s^3), unpolarised, POLE: mode b at fixed N, nf and L symbolic"""
    om = E.mod(OME["sl"])
    log.encode(om.as3.A_singlet, om.as3.A_ns)
    for t in ("rg3.c0", "rg3.c1", "rg3.c2"):
        log.assume("tolerance %s: %s  [%s]" % (t, TOL[t][0], TOL[t][1]))

    def run():
        E.unpatch()
        E.patch()
        nf = SR.var("nf")
        E.box(nf, 3, 5)
        L = SR.var("L", seed=True)
        E.box(L, -3, 3)
        for Nc in Ns:
            N = Nc.real if Nc.imag == 0 else Nc
            R, Rns, RH, d = _build("sl", 3, N, nf, L, False)
            rkw = {"kind": "sl", "msbar": False, "N": [Nc.real, Nc.imag]}
            items = [("R_3[%s,%s]" % ("gqH"[i], "gqH"[j]), R[2][i, j], "%s%s" % ("gqH"[i], "gqH"[j]), [i, j]) for i in range(3) for j in range(2)]
            items.append(("R_3[ns]", Rns[2][0, 0], "ns", "ns"))
            for lab, e, short, entry in items:
                for pn, comp in (("Re", e.re), ("Im", e.im)):
                    if comp.is_zero():
                        continue
                    co = _lcoefs(comp)
                    if max(co) > 2:
                        v = prove_formula(z3.BoolVal(False), "%s %s at N=%r is at most quadratic in L" % (pn, lab, Nc))
                        E.decide(log, v, "rg.sl.as3:%s" % short, replay=(MOD, "replay_rg", dict(rkw, order=3, entry=entry)), candidates=[{"nf": Fraction(4), "L": Fraction(2)}])
                        continue
                    for p in (0, 1, 2):
                        if p not in co or co[p].is_zero():
                            continue
                        E.prove_abs_le(co[p], Fraction(TOL["rg3.c%d" % p][0]), "|L^%d coefficient of %s %s| <= %s at N=%r for nf in [3,5]" % (p, pn, lab, TOL["rg3.c%d" % p][0], Nc),
                                       log, "rg.sl.as3:%s" % short, (MOD, "replay_rg", dict(rkw, order=3, entry=entry)),
                                       candidates=[{"nf": Fraction(4), "L": Fraction(2)}, {"nf": Fraction(3), "L": Fraction(-3)}])
            # lower orders at the same N hold to rounding
            for m in (0, 1):
                for i in range(3):
                    for j in range(2):
                        e = R[m][i, j]
                        for comp in (e.re, e.im):
                            if not comp.is_zero():
                                E.prove_abs_le(comp, Fraction(1, 10**9), "|R_%d[%s,%s]| <= 1e-9 at N=%r" % (m + 1, "gqH"[i], "gqH"[j], Nc), log, "rg.sl.as%d:%s%s" % (m + 1, "gqH"[i], "gqH"[j]),
                                               (MOD, "replay_rg", dict(rkw, order=m + 1, entry=[i, j])), candidates=[{"nf": Fraction(4), "L": Fraction(2)}])
        E.twin(log)

    _r, pm = explore(run)
    log.path_stats(pm)


def _sampler(rng):
    return {"N": rnd(rng, 2.2, 20), "nf": Fraction(rng.choice([3, 4, 5])), "L": rnd(rng, -3, 3)}


# ---------------------------------------------------------------------------
def replay_rg(point, kind, msbar, order, entry, N=None):
    """Independent oracle on the REAL code: the L-derivative of A by central finite differences (A is a polynomial of degree
    <= 3 in L: a 5-point stencil is exact up to rounding) against -Gamma' A + A Gamma~ - beta' dA/da assembled from the real
    anomalous dimensions at nf and nf+1, with LITERATURE beta coefficients (refs/rge_literature.py) and decoupling constants
    (Chetyrkin-Kniehl-Steinhauser: c1 = -2/3 L; POLE c2 = 4/9 L^2 - 38/3 L - 14/3; MSBAR c2 = 4/9 L^2 - 22/3 L + 22/9)."""
    import importlib
    import numpy as np
    from refs import rge_literature as Lit

    om = importlib.import_module(OME[kind])
    ad = importlib.import_module(AD[kind])
    nf = int(round(float(point.get("nf", 4))))
    L0 = float(point.get("L", 1.0))
    if not (3 <= nf <= 5):
        return None
    pts = [complex(N[0], N[1])] if N is not None else []
    x = float(point.get("N", 4.2))
    if x > 2 and N is None:
        pts += [complex(x), complex(x, 2.5)]
    if not pts:
        pts = [complex(4.2), complex(3.1, 2.5)]
    kmax = order

    def A_of(Nz, Lv, which):
        if kind == "sl":
            a = om.A_singlet((kmax, 0), Nz, nf, Lv, msbar) if which == "s" else om.A_non_singlet((kmax, 0), Nz, nf, Lv)
        elif kind == "pol":
            a = om.A_singlet((kmax, 0), Nz, nf, Lv) if which == "s" else om.A_non_singlet((kmax, 0), Nz, Lv)
        else:
            a = om.A_singlet((kmax, 0), Nz, Lv) if which == "s" else om.A_non_singlet((kmax, 0), Nz, Lv)
        return [np.array(x, dtype=complex) for x in a]

    def towers(Nz, f):
        if kind == "sl":
            return (ad.gamma_singlet((kmax, 0), Nz, f, ZERO7, True), ad.gamma_ns((kmax, 0), 10101, Nz, f, ZERO7, True), ad.gamma_ns((kmax, 0), 10201, Nz, f, ZERO7, True))
        return ad.gamma_singlet((kmax, 0), Nz, f), ad.gamma_ns((kmax, 0), 10101, Nz, f), ad.gamma_ns((kmax, 0), 10201, Nz, f)

    for Nz in pts:
        h = 0.5

        def dA(which):
            vals = {s: A_of(Nz, L0 + s * h, which) for s in (-2, -1, 1, 2)}
            return [(vals[-2][k] - 8 * vals[-1][k] + 8 * vals[1][k] - vals[2][k]) / (12 * h) for k in range(kmax)]

        Sp, nspp, nsmp = towers(Nz, nf + 1)
        Sl, nspl, nsml = towers(Nz, nf)
        c1 = -2.0 / 3.0 * L0
        c2 = (4.0 / 9.0 * L0**2 - 22.0 / 3.0 * L0 + 22.0 / 9.0) if msbar else (4.0 / 9.0 * L0**2 - 38.0 / 3.0 * L0 - 14.0 / 3.0)
        b = [float(Lit.beta0(nf + 1)), float(Lit.beta1(nf + 1)), float(Lit.beta2(nf + 1))]

        def G3(S, ns):
            qq, qg, gq, gg = S[0, 0], S[0, 1], S[1, 0], S[1, 1]
            n1 = nf + 1
            return np.array([[gg, gq, gq], [nf * qg / n1, (nf * qq + ns) / n1, nf * (qq - ns) / n1], [qg / n1, (qq - ns) / n1, (qq + nf * ns) / n1]], dtype=complex)

        def Gl(S):
            return np.array([[S[1, 1], S[1, 0], 0], [S[0, 1], S[0, 0], 0], [0, 0, 0]], dtype=complex)

        if entry in ("ns", "HH"):
            A = [np.array([[a[0, 0] if entry == "ns" else a[1, 1]]]) for a in A_of(Nz, L0, "n")]
            dAL = [np.array([[a[0, 0] if entry == "ns" else a[1, 1]]]) for a in dA("n")]
            Gp = [np.array([[nsmp[k]]], dtype=complex) for k in range(kmax)]
            Gt = [np.array([[nsml[k] if entry == "ns" else 0.0]], dtype=complex) for k in range(kmax)]
            idx = (0, 0)
            n = 1
        else:
            A = A_of(Nz, L0, "s")
            dAL = dA("s")
            Gp = [G3(Sp[k], nspp[k]) for k in range(kmax)]
            Gt = [Gl(Sl[k]) for k in range(kmax)]
            idx = tuple(entry)
            n = 3
        I = np.eye(n, dtype=complex)
        m = order
        if m == 1:
            rhs = -Gp[0] + Gt[0]
        elif m == 2:
            rhs = -Gp[1] - Gp[0] @ A[0] + A[0] @ Gt[0] + Gt[1] + c1 * Gt[0] + b[0] * A[0]
        else:
            rhs = (-Gp[2] - Gp[1] @ A[0] - Gp[0] @ A[1] + A[1] @ Gt[0] + A[0] @ (Gt[1] + c1 * Gt[0]) + Gt[2] + 2 * c1 * Gt[1] + c2 * Gt[0]
                   + b[1] * A[0] + 2 * b[0] * A[1])
        got = dAL[m - 1][idx]
        want = rhs[idx]
        tol = 1e-7 * max(1.0, abs(want)) if m < 3 else (2e-2 + 2e-4 * abs(L0) + 1e-7 * max(1.0, abs(want)))
        if abs(got - want) > tol:
            return {"detail": "%s %s O(a_s^%d) entry %r at N=%r nf=%d L=%r: dA/dL = %r but RG invariance requires %r (|diff| = %.3g > %.3g)"
                    % (kind, "MSBAR" if msbar else "POLE", m, entry, Nz, nf, L0, got, want, abs(got - want), tol)}
    return None


# ---------------------------------------------------------------------------
NS3 = [complex(2.5), complex(3.0), complex(5.0), complex(8.0), complex(12.5), complex(20.0)]


def main():
    chk = H.Check("C29")
    tier = H.tier()
    chk.bounds = ["sum rules: N = 2 and 1 concrete (N = 2+1e-6 for the O(a_s^3) quark column, as the repo's test), nf real in [3,5], L real in [-3,3], orders 1-3, POLE and MSBAR (orders 1-2)",
                  "RG structure orders 1-2: N (> 2), nf in [3,5], L in [-3,3] real symbols (exact identities: they hold for complex N); unpolarised (POLE, MSBAR), polarised (order 2), time-like (order 1)",
                  "RG structure order 3: unpolarised POLE at N in %r%s, nf in [3,5], L in [-3,3]; tolerances rg3.* of the table" % (NS3, " and 2 complex points" if tier == "thorough" else ""),
                  "gluon and light-quark columns; the heavy-quark-initiated column only at O(a_s) (unpolarised)",
                  "mass scheme: A^(2)|MSBAR - A^(2)|POLE = -2 delta dA^(1)/dL through the tower A_singlet(matching_order, n, nf, L, is_msbar) (N, nf, L symbolic), "
                  "2 delta from the POLE/MSBAR decoupling coefficients"]
    chk.out_of_claim = ["heavy-quark-initiated elements A_gH, A_qH, A_HH beyond O(a_s) and a valence-type A_Hq^(3) induced by gamma_ns,s: not implemented in eko (documented in doc/source/theory/Matching.rst)",
                        "the L-independent parts of the matching elements (not constrained by RG invariance) beyond the sum rules; accuracy of the parametrised O(a_s^3) terms beyond the tolerance table",
                        "the limit N -> 2 of A_gq^(3) (removable pole) is approached at N = 2+1e-6 only; MSBAR at O(a_s^3) is not implemented in eko"]
    chk.stubs = ["mode a: cern_polygamma -> uninterpreted real atoms psi_k(z) with recurrence and psi_k(1) axioms (harness/ekoresym.py)"]
    chk.assumptions = ["the anomalous dimensions of both flavour-number schemes (ekore.anomalous_dimensions at nf and nf+1), eko.beta and the decoupling coefficients "
                       "eko.couplings.compute_matching_coeffs_down are taken as given (their own properties: C25, C20, C16)",
                       "basis: eko's matching basis (g, Sigma_light, h+); T_(nf+1) = Sigma_light - nf h+ evolves with gamma_ns,+"]
    chk.case("sumrules", case_sumrules)
    chk.case("rg.sl.pole", case_rg_exact, kind="sl", order=2, msbar=False)
    chk.case("rg.sl.msbar", case_rg_exact, kind="sl", order=2, msbar=True)
    chk.case("scheme.sl", case_scheme)
    chk.case("rg.pol", case_rg_exact, kind="pol", order=2, msbar=False)
    chk.case("rg.tl", case_rg_exact, kind="tl", order=1, msbar=False)
    for kind in ("sl", "pol", "tl"):
        chk.case("tower.%s" % kind, case_tower, kind=kind)
    n3 = NS3[:3] if tier == "quick" else NS3
    for i, n in enumerate(n3):
        chk.case("rg.sl.as3.N%d" % i, case_rg_order3, Ns=[n])
    if tier == "thorough":
        chk.case("rg.sl.as3.complex", case_rg_order3, Ns=[complex(3.5, 2.0), complex(6.0, -9.0)])
    E.load()
    return chk.run(workers=6)


if __name__ == "__main__":
    import sys

    sys.exit(main())
