"""C37  The EKO operator store behaves like a persistent map under any history.

Real code executed symbolically over the in-memory file-system model (harness/iofs.py):
eko.io.struct.EKO (__setitem__, __getitem__, __delitem__, __contains__, __iter__, items, unload, close, read, load,
approx) and eko.io.inventory.Inventory (__setitem__, __getitem__, __delitem__, __iter__, sync, lookup).

(1) One inductive step.  Pre-state = an arbitrary *valid* store over 3 keys: per key z3 Bools `disk`
(header + operator file present), `cached` (key known to Inventory.cache), `loaded` (operator object in
the cache), `err` (stored with an error array, i.e. .npz instead of .npy), payload tag a z3 Int; valid
means cached => disk, loaded => cached (what set/get/del/sync can produce from an empty store).  The
operation kind is enumerated, its key index j (and for `set` the new payload tag / error flag) is
symbolic.  Reference model: a plain dict D (persistent content) with a partial view V of its keys.
Obligations per path:  the files on disk represent exactly D' ('disk');  V' is within keys(D'), contains
what was visible before / what the operation must reveal, and loaded operators equal D' ('view');  the
returned value or raised exception is the dict's ('ret');  for close+reopen the re-read store is D.
Validity of the post-state makes the step inductive, hence histories of any length over these operations.

(2) EKO.approx with symbolic real scales of <= 3 stored points, symbolic query scale, rtol, atol >= 0
(and the default tolerances): returns the unique stored point with |x - s| <= atol + rtol*|s| (numpy's
isclose, relative to the *stored* scale), None when there is none, ValueError when >= 2 match.
"""
from fractions import Fraction

import z3

from .common import *  # noqa
from symx.solver import explore, prove_formula, ZInt, ZBool, assume_z3
from symx import harness as H
from symx import shim
from . import iofs
from .iofs import FS, Binder, ModelWorld, RealWorld, MPath, OpBytes, YamlDoc, KEYS, zeq, scratch

MOD = "harness.C37"
KINDS = ("set", "get", "del", "contains", "iter", "items", "sync", "unload", "reopen")
NEEDS_KEY = ("set", "get", "del", "contains")


# ---------------------------------------------------------------------------
# building an arbitrary valid pre-state with the real operations
# ---------------------------------------------------------------------------
def _fresh_eko(w):
    from eko.io.struct import EKO

    th, opc = iofs.example_cards()
    return EKO.create(w.path).load_cards(th, opc).build()


def _build(eko, w, flags, mk, target):
    """flags[i] = dict(d, c, l, e) of ZBool (or bool). Returns the concrete decisions taken."""
    from eko.io.items import Target

    state = []
    for i, f in enumerate(flags):
        s = {"d": False, "c": False, "l": False, "e": False, "r": False}
        if f["d"]:
            s["d"] = True
            s["e"] = bool(f["e"])
            eko[KEYS[i]] = mk(i, s["e"])
            if f.get("r", False):
                # the item has been read from disk at least once before (unload, then lazy load)
                s["r"] = True
                del eko[KEYS[i]]
                eko[KEYS[i]]
            if f["c"]:
                s["c"] = True
                if f["l"]:
                    s["l"] = True
                else:
                    del eko[KEYS[i]]
            else:
                eko.operators.cache.pop(Target.from_ep(KEYS[i]))
        state.append(s)
    return state


def _views(eko):
    """the derived listings of the stored evolution points"""
    return {"evolgrid": [(e[0], e[1]) for e in eko.evolgrid], "mu2grid": list(eko.mu2grid), "raw['mu2grid']": list(eko.raw["mu2grid"])}


def _views_wrong(eko):
    """None if every derived listing agrees with what iteration yields now, else a description."""
    it = [(e[0], e[1]) for e in eko]
    want = {"evolgrid": it, "mu2grid": [e[0] for e in it], "raw['mu2grid']": [e[0] for e in it]}
    got = _views(eko)
    bad = {k: (got[k], want[k]) for k in want if got[k] != want[k]}
    return bad or None


def _reference(kind, j, state, tags, tn, en):
    """Plain-dict reference: returns (D', Vlow, Vexact or None, ret spec)."""
    D = {i: (tags[i], s["e"]) for i, s in enumerate(state) if s["d"]}
    V = {i for i, s in enumerate(state) if s["c"]}
    D2, Vlow, Vex, ret = dict(D), set(V), None, ("none",)
    if kind == "set":
        D2[j] = (tn, en)
        Vlow.add(j)
        ret = ("none",)
    elif kind == "get":
        if j in D:
            Vlow.add(j)
            ret = ("value", j)
        else:
            ret = ("raises", "ValueError")
    elif kind == "del":
        ret = ("none",)
    elif kind == "contains":
        ret = ("bool", j in V, j in D)  # must be True if visible, may only be True if stored
    elif kind == "iter":
        ret = ("keys", set(V), set(D))
    elif kind == "items":
        ret = ("items", set(V), set(D))
    elif kind == "sync":
        Vex = set(D)
    elif kind == "unload":
        pass
    elif kind == "reopen":
        Vex = set(D)
    return D, V, D2, Vlow, Vex, ret


def _key_index(ep):
    for i, k in enumerate(KEYS):
        if float(ep[0]) == k[0] and int(ep[1]) == k[1]:
            return i
    return None


def _observe_disk(fs, root):
    """{key index: [OpBytes-or-other of every operator file of that header]} + problems."""
    import yaml

    opdir = str(root) + "/operators"
    heads, files, bad = {}, {}, []
    for p in fs.children(opdir):
        name = p.rsplit("/", 1)[1]
        c = fs.files.get(p)
        if name.endswith(".yaml"):
            h = yaml.safe_load(c.text) if isinstance(c, YamlDoc) and c.text is not None else None
            idx = _key_index((h["scale"], h["nf"])) if isinstance(h, dict) else None
            if idx is None:
                bad.append("unreadable or foreign header %s" % name)
            else:
                heads[name[: -len(".yaml")]] = idx
        else:
            files.setdefault(name.split(".", 1)[0], []).append((name, c))
    out = {}
    for stem, idx in heads.items():
        out[idx] = files.pop(stem, [])
    for stem, fl in files.items():
        bad.append("operator file(s) without header: %r" % [n for n, _c in fl])
    return out, bad


def _disk_formula(fs, root, D2):
    disk, bad = _observe_disk(fs, root)
    if bad or set(disk) != set(D2):
        return z3.BoolVal(False), "headers on disk %r vs dict keys %r %s" % (sorted(disk), sorted(D2), bad)
    conj = []
    for i, (tag, err) in D2.items():
        fl = disk[i]
        if len(fl) != 1:
            return z3.BoolVal(False), "key %d has %d operator files %r" % (i, len(fl), [n for n, _ in fl])
        name, c = fl[0]
        if not isinstance(c, OpBytes):
            return z3.BoolVal(False), "operator file %s holds %r" % (name, c)
        conj += [zeq(c.tag, tag), z3.BoolVal(bool(c.err) == bool(err)), z3.BoolVal(name.endswith(".npz.lz4" if err else ".npy.lz4"))]
    return z3.And([z3.BoolVal(True)] + conj), ""


def _view_formula(eko, D2, Vlow, Vex, none_loaded=False, must_load=None):
    keys = {}
    for t, op in eko.operators.cache.items():
        idx = _key_index(t.ep)
        if idx is None or idx in keys:
            return z3.BoolVal(False)
        keys[idx] = op
    ks = set(keys)
    if not ks <= set(D2) or not Vlow <= ks or (Vex is not None and ks != Vex):
        return z3.BoolVal(False)
    conj = []
    for idx, op in keys.items():
        if op is None:
            continue
        if none_loaded:
            return z3.BoolVal(False)
        conj += [zeq(op.tag, D2[idx][0]), z3.BoolVal((op.error is not None) == bool(D2[idx][1]))]
    if must_load is not None and keys.get(must_load) is None:
        return z3.BoolVal(False)
    return z3.And([z3.BoolVal(True)] + conj)


def _ret_formula(ret, got, exc, D, tags):
    kind = ret[0]
    if kind == "raises":
        return z3.BoolVal(isinstance(exc, ValueError))
    if exc is not None:
        return z3.BoolVal(False)
    if kind == "none":
        return z3.BoolVal(got is None)
    if kind == "value":
        j = ret[1]
        if got is None or not hasattr(got, "tag"):
            return z3.BoolVal(False)
        return z3.And(zeq(got.tag, D[j][0]), z3.BoolVal((got.error is not None) == bool(D[j][1])))
    if kind == "bool":
        must, may = ret[1], ret[2]
        return z3.BoolVal(isinstance(got, bool) and (got or not must) and (may or not got))
    if kind in ("keys", "items"):
        vis, stored = ret[1], ret[2]
        eps = [g[0] for g in got] if kind == "items" else list(got)
        idx = [_key_index(e) for e in eps]
        if None in idx or len(set(idx)) != len(idx) or not vis <= set(idx) or not set(idx) <= stored:
            return z3.BoolVal(False)
        if kind == "keys":
            return z3.BoolVal(True)
        conj = []
        for (ep, op), i in zip(got, idx):
            conj += [zeq(op.tag, D[i][0]), z3.BoolVal((op.error is not None) == bool(D[i][1]))]
        return z3.And([z3.BoolVal(True)] + conj)
    raise ValueError(kind)


# ---------------------------------------------------------------------------
FALLBACK_STATES = [
    # (j, state [[disk, cached, loaded, err] per key], en)
    (0, [[True, True, True, False], [True, True, False, False], [False, False, False, False]], False),
    (2, [[True, True, True, False], [True, True, False, False], [False, False, False, False]], False),
    (0, [[True, True, True, True], [True, False, False, False], [True, True, True, False]], False),
    (0, [[True, True, True, False, True], [True, True, False, False, True], [False, False, False, False]], True),
    (1, [[True, True, False, False], [True, False, False, False], [False, False, False, False]], True),
]


def _cycle():
    n = [0]

    def sampler(rng):
        n[0] += 1
        return {"i": n[0] - 1}

    return sampler


def replay_generic_step(point, kind):
    """fall-back (used by the framework if the symbolic run of a case cannot complete): canonical states, every aspect"""
    j, state, en = FALLBACK_STATES[int(point.get("i", 0)) % len(FALLBACK_STATES)]
    for aspect in ("derived", "ret", "view", "disk", "readback"):
        r = replay_step(point, kind, j if kind in NEEDS_KEY else None, state, en, aspect)
        if r:
            return r
    return None


def case_step(log, kind, err_all=False, readback=True, read_all=False):
    log.encode(*iofs.encoded_functions())
    decide = iofs.Decider(log)
    log.register_replay("%s:fallback" % kind, (MOD, "replay_generic_step", {"kind": kind}), _cycle())

    def run():
        fs = FS()
        with Binder(fs):
            from eko.io.struct import EKO
            from eko.io.items import Target

            tags = [ZInt("t%d" % i) for i in range(3)]
            tn = ZInt("tnew")
            w = ModelWorld(fs)
            eko = _fresh_eko(w)
            # the key operated on
            if kind in NEEDS_KEY:
                jz = ZInt("j")
                assume_z3(jz.e >= 0)
                assume_z3(jz.e <= 2)
                j = 0 if jz == 0 else (1 if jz == 1 else 2)
            else:
                j = None
            flags = []
            for i in range(3):
                e_sym = err_all or (kind == "set" and i == j)
                r_sym = read_all or i == (j if j is not None else 0)
                flags.append({"d": ZBool(z3.Bool("disk%d" % i)), "c": ZBool(z3.Bool("cached%d" % i)), "l": ZBool(z3.Bool("loaded%d" % i)),
                              "e": ZBool(z3.Bool("err%d" % i)) if e_sym else False, "r": ZBool(z3.Bool("readbefore%d" % i)) if r_sym else False})
            state = _build(eko, w, flags, lambda i, e: iofs.MOperator(tags[i], e), j)
            en = bool(ZBool(z3.Bool("errnew"))) if kind == "set" else False
            D, V, D2, Vlow, Vex, ret = _reference(kind, j, state, tags, tn, en)
            desc = "%s(%s) from state %s" % (kind, "" if j is None else "key%d%s" % (j, (", err=%s" % en) if kind == "set" else ""),
                                              " ".join("k%d:%s" % (i, "".join(c for c in "dcler" if s[c]) or "-") for i, s in enumerate(state)))
            kw = {"kind": kind, "j": j, "state": [[s["d"], s["c"], s["l"], s["e"], s["r"]] for s in state], "en": en}
            _views(eko)  # the derived listings are looked at before the operation ...
            got, exc = None, None
            try:
                if kind == "set":
                    eko[KEYS[j]] = iofs.MOperator(tn, en)
                elif kind == "reopen":
                    eko.close()
                    eko = EKO.read(w.path)
                else:
                    got = iofs.apply_op(eko, {"get": ("get", j), "del": ("del", j), "contains": ("contains", j), "iter": ("iter",),
                                              "items": ("items",), "sync": ("sync",), "unload": ("unload",)}[kind], w)
            except Exception as e:  # noqa
                exc = e
            if kind in ("set", "del", "sync", "unload", "reopen") and exc is not None:
                got = exc
            root = eko.metadata._path
            f_disk, why = _disk_formula(fs, root, D2)
            v = prove_formula(f_disk, "%s: files on disk represent exactly the dict %s" % (desc, why))
            decide(v, key="%s:disk" % kind, replay=(MOD, "replay_step", dict(kw, aspect="disk")))
            f_view = _view_formula(eko, D2, Vlow, Vex, none_loaded=kind in ("unload", "items"))
            if kind == "del" and j in V:
                f_view = z3.And(f_view, z3.BoolVal(eko.operators.cache.get(Target.from_ep(KEYS[j])) is None))
            v = prove_formula(f_view, "%s: visible keys within the dict, nothing lost, loaded values equal the dict" % desc)
            decide(v, key="%s:view" % kind, replay=(MOD, "replay_step", dict(kw, aspect="view")))
            if kind in ("set", "del", "sync", "unload", "reopen"):
                f_ret = z3.BoolVal(exc is None)
            else:
                f_ret = _ret_formula(ret, got, exc, D, tags)
            v = prove_formula(f_ret, "%s: returns what the dict returns (%s)" % (desc, ret[0]))
            decide(v, key="%s:ret" % kind, replay=(MOD, "replay_step", dict(kw, aspect="ret")))
            # ... and again after it: they must list what iteration lists now
            try:
                bad = _views_wrong(eko)
            except Exception as e:  # noqa
                bad = {"exception": repr(e)}
            v = prove_formula(z3.BoolVal(not bad), "%s: evolgrid / mu2grid / raw, read before and after, list the points iteration yields" % desc)
            decide(v, key="%s:derived" % kind, replay=(MOD, "replay_step", dict(kw, aspect="derived")))
            if kind == "reopen" and exc is None:
                conj = []
                for i in sorted(D):
                    try:
                        op = eko[KEYS[i]]
                        conj += [zeq(op.tag, D[i][0]), z3.BoolVal((op.error is not None) == bool(D[i][1]))]
                    except Exception:  # noqa
                        conj.append(z3.BoolVal(False))
                v = prove_formula(z3.And([z3.BoolVal(True)] + conj), "%s: every key read back after close + read equals the dict" % desc)
                decide(v, key="reopen:values", replay=(MOD, "replay_step", dict(kw, aspect="disk")))
            if readback and exc is None and kind != "reopen":
                # two more steps for every key j2: unload(j2), then get(j2) -- a read fresh from disk -- against the dict
                # after the first step (with the pre-state built by set / unload / get this is a history of length >= 4)
                for j2 in range(3):
                    got2, exc2 = None, None
                    try:
                        del eko[KEYS[j2]]
                        got2 = eko[KEYS[j2]]
                    except Exception as e:  # noqa
                        exc2 = e
                    if j2 in D2:
                        f2 = z3.BoolVal(False) if (exc2 is not None or got2 is None) else z3.And(zeq(got2.tag, D2[j2][0]), z3.BoolVal((got2.error is not None) == bool(D2[j2][1])))
                    else:
                        f2 = z3.BoolVal(isinstance(exc2, ValueError))
                    v = prove_formula(f2, "%s; then unload(key%d), get(key%d) returns the dict's value / raises" % (desc, j2, j2))
                    decide(v, key="%s+get:ret" % kind, replay=(MOD, "replay_step", dict(kw, aspect="readback")))
            log.twin("state flags")

    _r, pm = explore(run, max_paths=20000)
    log.path_stats(pm)
    decide.finish()


# ---------------------------------------------------------------------------
# approx
# ---------------------------------------------------------------------------
import numpy as _realnp  # noqa: E402


class _NP(shim.SymNumpy):
    """isclose on symbolic values: numpy's formula from the shim, each element decided (forks) so that
    the result is a Boolean mask usable as an index, as in EKO.approx."""

    def isclose(self, a, b, rtol=1e-05, atol=1e-08, equal_nan=False):
        r = super().isclose(a, b, rtol=rtol, atol=atol, equal_nan=equal_nan)
        if isinstance(r, _realnp.ndarray) and r.dtype == object:
            out = _realnp.zeros(r.shape, dtype=bool)
            for idx in _realnp.ndindex(r.shape):
                out[idx] = bool(r[idx])
            return out
        return r


def _zabs(e):
    return z3.If(e >= 0, e, -e)


def case_approx(log, n, defaults=False, signed=False):
    import eko.io.struct as st

    log.encode(st.EKO.approx, st.EKO.__iter__)
    decide = iofs.Decider(log)
    _cands = _approx_candidates(n, defaults)
    _smp = _approx_sampler(n)
    _cnt = [0]

    def _fb_sampler(rng):
        _cnt[0] += 1
        return _cands[_cnt[0] - 1] if _cnt[0] <= len(_cands) else _smp(rng)

    for pattern in ([True] * n, [True] + [False] * (n - 1)):
        log.register_replay("EKO.approx:fallback", (MOD, "replay_approx", {"n": n, "same": pattern, "defaults": defaults}), _fb_sampler)
    from symx.poly import float_to_fraction

    RT, AT = float_to_fraction(1e-6), float_to_fraction(1e-10)  # the engine's reading of the default arguments: 1/10^6, 1/10^10

    def run():
        fs = FS()
        with Binder(fs, np=_NP()):
            from eko.io.items import Target

            w = ModelWorld(fs)
            eko = _fresh_eko(w)
            x = SR.var("x")
            ss = [SR.var("s%d" % i) for i in range(n)]
            if defaults:
                rt_z, at_z = z3.RealVal(str(RT)), z3.RealVal(str(AT))
            else:
                rtol, atol = SR.var("rtol"), SR.var("atol")
                assume(rtol, ">=0")
                assume(atol, ">=0")
                rt_z, at_z = z3.Real("rtol"), z3.Real("atol")
            if not signed:
                for s in ss:
                    assume(s, ">0")
            for a in range(n):
                for b in range(a + 1, n):
                    assume(ss[a] - ss[b], "!=0")  # distinct keys
            same = [bool(ZBool(z3.Bool("samenf%d" % i))) for i in range(n)]
            for i in range(n):
                eko.operators.cache[Target(ss[i], 4 if same[i] else 5)] = None
            got, exc = None, None
            try:
                got = eko.approx((x, 4)) if defaults else eko.approx((x, 4), rtol=rtol, atol=atol)
            except ValueError as e:
                exc = e
            xz = z3.Real("x")
            m = [z3.And(z3.BoolVal(same[i]), _zabs(xz - z3.Real("s%d" % i)) <= at_z + rt_z * _zabs(z3.Real("s%d" % i))) for i in range(n)]
            kw = {"n": n, "same": same, "defaults": defaults}
            desc = "approx((x,4)%s) with %d stored points, same-nf pattern %s" % ("" if defaults else ", rtol, atol", n, "".join("1" if b else "0" for b in same))
            if exc is not None:
                goal = z3.Or([z3.BoolVal(False)] + [z3.And(m[a], m[b]) for a in range(n) for b in range(a + 1, n)])
                v = prove_formula(goal, "%s raised ValueError: at least two stored points are within tolerance" % desc)
                decide(v, key="EKO.approx:ambiguous", replay=(MOD, "replay_approx", kw), sampler=_approx_sampler(n), nrandom=2, candidates=_approx_candidates(n, defaults))
            elif got is None:
                v = prove_formula(z3.And([z3.BoolVal(True)] + [z3.Not(mi) for mi in m]), "%s returned None: no stored point is within tolerance" % desc)
                decide(v, key="EKO.approx:none", replay=(MOD, "replay_approx", kw), sampler=_approx_sampler(n), nrandom=2, candidates=_approx_candidates(n, defaults))
            else:
                # the returned scale equals a stored scale (decided by the solver: the code may hand back
                # the stored object or an equal value, e.g. the query itself on an exact match)
                if not isinstance(got, tuple) or len(got) != 2 or got[1] != 4:
                    goal = z3.BoolVal(False)
                else:
                    goal = z3.Or([z3.BoolVal(False)] + [z3.And([zeq(got[0], ss[i]), m[i]] + [z3.Not(m[k]) for k in range(n) if k != i]) for i in range(n)])
                v = prove_formula(goal, "%s returned a point: it is a stored point, within tolerance, and the only one" % desc)
                decide(v, key="EKO.approx:unique", replay=(MOD, "replay_approx", kw), sampler=_approx_sampler(n), nrandom=2, candidates=_approx_candidates(n, defaults))
            log.twin("tolerances and distinct scales")
            log.collect_ctx()

    _r, pm = explore(run, max_paths=20000)
    log.path_stats(pm)
    decide.finish()


def case_contains_sym(log, n, signed=False):
    """`ep in eko` against the dictionary model with symbolic stored scales and a symbolic, possibly
    nearby-but-different query: membership is exact key equality, never an error."""
    import eko.io.struct as st

    log.encode(st.EKO.__contains__, st.EKO.__iter__, st.EKO.approx)
    decide = iofs.Decider(log)
    cands = _contains_candidates(n)
    cnt = [0]

    def fb_sampler(rng):
        cnt[0] += 1
        return cands[(cnt[0] - 1) % len(cands)]

    log.register_replay("EKO.__contains__:fallback", (MOD, "replay_contains", {"n": n, "same": [True] * n}), fb_sampler)

    def run():
        fs = FS()
        with Binder(fs, np=_NP()):
            from eko.io.items import Target

            w = ModelWorld(fs)
            eko = _fresh_eko(w)
            x = SR.var("x")
            ss = [SR.var("s%d" % i) for i in range(n)]
            if not signed:
                assume(x, ">0")
                for s_ in ss:
                    assume(s_, ">0")
            for a in range(n):
                for b in range(a + 1, n):
                    assume(ss[a] - ss[b], "!=0")
            same = [bool(ZBool(z3.Bool("samenf%d" % i))) for i in range(n)]
            for i in range(n):
                eko.operators.cache[Target(ss[i], 4 if same[i] else 5)] = None
            got, exc = None, None
            try:
                got = (x, 4) in eko
            except Exception as e:  # noqa
                exc = e
            xz = z3.Real("x")
            member = z3.Or([z3.BoolVal(False)] + [z3.And(z3.BoolVal(same[i]), xz == z3.Real("s%d" % i)) for i in range(n)])
            kw = {"n": n, "same": same}
            desc = "(x,4) in eko with %d stored points, same-nf pattern %s" % (n, "".join("1" if b else "0" for b in same))
            if exc is not None:
                v = prove_formula(z3.BoolVal(False), "%s raised %s: membership never raises" % (desc, type(exc).__name__))
                decide(v, key="EKO.__contains__:raises", replay=(MOD, "replay_contains", kw), candidates=cands, sampler=_contains_sampler(n), nrandom=2)
            else:
                v = prove_formula(z3.BoolVal(bool(got)) == member, "%s is %s: true exactly if (x,4) equals a stored key" % (desc, bool(got)))
                decide(v, key="EKO.__contains__:exact", replay=(MOD, "replay_contains", kw), candidates=cands, sampler=_contains_sampler(n), nrandom=2)
            log.twin("distinct scales")
            log.collect_ctx()

    _r, pm = explore(run, max_paths=20000)
    log.path_stats(pm)
    decide.finish()


def _contains_candidates(n):
    """the query a few 1e-7 (relative) away from one stored scale / between two stored scales 1e-6 apart; the query on a stored scale"""
    out = []
    base = Fraction(100)
    near = [base, base * (1 + Fraction(1, 10**6)), Fraction(300)]
    for x in (base * (1 + Fraction(5, 10**7)), base * (1 - Fraction(3, 10**7)), base, Fraction(200)):
        pt = {"x": x}
        for i in range(n):
            pt["s%d" % i] = near[i]
        out.append(pt)
    return out


def _contains_sampler(n):
    def f(rng):
        base = rnd(rng, 1, 200)
        pt = {"x": base * (1 + Fraction(rng.randint(-9, 9), 10**7))}
        for i in range(n):
            pt["s%d" % i] = base * (1 + Fraction(i, 10**6)) if i < 2 else base * 3
        return pt

    return f


def replay_contains(point, n, same):
    vals = {k: _frac(v) for k, v in point.items()}
    if any(vals.get(k) is None for k in ["x"] + ["s%d" % i for i in range(n)]):
        return None
    x = float(vals["x"])
    stored = [(float(vals["s%d" % i]), 4 if same[i] else 5) for i in range(n)]
    if len(set(stored)) != n:
        return None
    with scratch() as d:
        w = RealWorld(d / "out.tar")
        eko = _fresh_eko(w)
        for i, (s, nf) in enumerate(stored):
            eko[(s, nf)] = iofs.real_op(i)
        want = (x, 4) in {k: None for k in stored}  # the plain dict
        try:
            got = (x, 4) in eko
        except Exception as e:  # noqa
            return {"detail": "(%r, 4) in eko with stored points %r raises %s: %s; a dict answers %s" % (x, stored, type(e).__name__, str(e)[:120], want)}
    if bool(got) != want:
        return {"detail": "(%r, 4) in eko is %s with stored points %r; a dict keyed by (scale, nf) answers %s" % (x, got, stored, want)}
    return None


def _approx_candidates(n, defaults):
    """query exactly on a stored point, the next stored point inside / outside the tolerance."""
    out = []
    for d1 in ((Fraction(1, 100000) if defaults else Fraction(1, 2)), Fraction(50)):
        pt = {"x": Fraction(100), "rtol": Fraction(1, 100), "atol": Fraction(1, 10)}
        for i in range(n):
            pt["s%d" % i] = [Fraction(100), Fraction(100) + d1, Fraction(300)][i]
        out.append(pt)
        if n >= 2:
            q = dict(pt)
            q["s0"], q["s1"] = pt["s1"], pt["s0"]
            out.append(q)
    return out


def _approx_sampler(n):
    def f(rng):
        base = rnd(rng, 1, 200)
        pt = {"x": base, "rtol": rnd(rng, 0, 0.2), "atol": rnd(rng, 0, 2)}
        for i in range(n):
            pt["s%d" % i] = base * (1 + rnd(rng, -0.3, 0.3)) + rnd(rng, -1, 1) + Fraction(i + 1, 997)
        return pt

    return f


def _oracle_approx(x, stored, rtol, atol):
    """stored: list of (scale, nf). Exact rational evaluation of the specification."""
    x, rtol, atol = Fraction(x), Fraction(rtol), Fraction(atol)
    m = [(s, nf) for (s, nf) in stored if nf == 4 and abs(x - Fraction(s)) <= atol + rtol * abs(Fraction(s))]
    if len(m) == 1:
        return ("point", m[0])
    return ("none",) if not m else ("error",)


def case_validate(log):
    """Translator validation: (a) model vs real file system for scripted store histories,
    (b) the approx specification formula vs numpy.isclose on random floats and on the repo's test inputs."""
    import numpy as np
    from .C38 import validate_model

    validate_model(log, scenarios=("new", "edit"))
    import eko.io.struct as st

    class Fake:
        def __init__(self, eps):
            self.eps = eps

        def __iter__(self):
            return iter(self.eps)

    rng = log.rng
    pts = []
    for _ in range(40):
        p = _approx_sampler(3)(rng)
        pts.append(([(float(p["s%d" % i]), 4 if rng.random() < 0.7 else 5) for i in range(3)], float(p["x"]), float(p["rtol"]), float(p["atol"])))
    # tests/eko/io/test_struct.py::test_ops
    pts += [([(100.0, 5)], 200.0, 1e-6, 1e-10), ([(100.0, 4)], 101.0, 1e-6, 2.0), ([(100.0, 4), (101.0, 4)], 100.5, 1e-6, 2.0)]
    for stored, x, rt, at in pts:
        try:
            r = st.EKO.approx(Fake(stored), (x, 4), rtol=rt, atol=at)
            real = ("none",) if r is None else ("point", (r[0], r[1]))
        except ValueError:
            real = ("error",)
        want = _oracle_approx(x, stored, rt, at)
        if real != want:
            log.inconclusive.append("translator validation: approx oracle %r vs real %r at %r" % (want, real, (stored, x, rt, at)))
        log.validate()
    # concrete histories: model vs real, step by step
    hist = [("set", 0, 1, False), ("get", 0), ("del", 0), ("contains", 0), ("contains", 1), ("set", 1, 2, True), ("iter",), ("unload",), ("get", 1), ("set", 0, 3, False),
            ("items",), ("sync",), ("iter",)]
    fs = FS()
    with Binder(fs):
        w = ModelWorld(fs)
        eko = _fresh_eko(w)
        mres = [_summ(_try(lambda o=o: iofs.apply_op(eko, o, w))) for o in hist]
        mfiles = sorted(fs.tree(eko.metadata._path))
    with scratch() as d:
        w = RealWorld(d / "out.tar")
        eko = _fresh_eko(w)
        rres = [_summ(_try(lambda o=o: iofs.apply_op(eko, o, w))) for o in hist]
        rfiles = iofs.real_tree_names(eko.metadata._path)
    if mres != rres or mfiles != rfiles:
        log.inconclusive.append("translator validation: scripted history differs: model %r %r real %r %r" % (mres, mfiles, rres, rfiles))
    log.validate(len(hist))


def _try(f):
    try:
        return f()
    except Exception as e:  # noqa
        return e


def _summ(r):
    if isinstance(r, Exception):
        return "raises " + type(r).__name__
    if r is None or isinstance(r, bool):
        return r
    if isinstance(r, list):
        return [_summ(x) for x in r]
    if isinstance(r, tuple):
        return tuple(_summ(x) for x in r)
    if hasattr(r, "tag"):
        return ("op", float(r.tag), r.error is not None)
    if hasattr(r, "operator"):
        return ("op", float(r.operator.flat[0]), r.error is not None)
    return r


# ---------------------------------------------------------------------------
# replays: real eko, real file system, plain-dict oracle
# ---------------------------------------------------------------------------
def replay_step(point, kind, j, state, en, aspect):
    from eko.io.struct import EKO
    from eko.io.items import Target

    with scratch() as d:
        w = RealWorld(d / "out.tar")
        eko = _fresh_eko(w)
        flags = [{"d": s[0], "c": s[1], "l": s[2], "e": s[3], "r": s[4] if len(s) > 4 else False} for s in state]
        st = _build(eko, w, flags, lambda i, e: iofs.real_op(10 + i, e), j)
        tags = [10.0, 11.0, 12.0]
        D, V, D2, Vlow, Vex, ret = _reference(kind, j, st, tags, 99.0, en)
        _views(eko)
        got, exc = None, None
        try:
            if kind == "set":
                eko[KEYS[j]] = iofs.real_op(99, en)
            elif kind == "reopen":
                eko.close()
                eko = EKO.read(d / "out.tar")
            else:
                got = iofs.apply_op(eko, {"get": ("get", j), "del": ("del", j), "contains": ("contains", j), "iter": ("iter",), "items": ("items",),
                                          "sync": ("sync",), "unload": ("unload",)}[kind], w)
        except Exception as e:  # noqa
            exc = e
        what = "%s(%s) from state %r" % (kind, "" if j is None else "key %r%s" % (KEYS[j], ", error=%s" % en if kind == "set" else ""), state)

        def val(op):
            return (float(op.operator.flat[0]), op.error is not None)

        if aspect == "derived":
            bad = _views_wrong(eko)
            if bad:
                return {"detail": "%s, with evolgrid/mu2grid/raw read before: afterwards %s" % (what, "; ".join("%s lists %r but iteration yields %r" % (k, g, w) for k, (g, w) in bad.items()))}
            return None
        if aspect == "ret":
            if kind in ("set", "del", "sync", "unload", "reopen"):
                return {"detail": "%s raised %r" % (what, exc)} if exc is not None else None
            if ret[0] == "raises":
                return None if isinstance(exc, ValueError) else {"detail": "%s: expected a lookup error, got %r / %r" % (what, got, exc)}
            if exc is not None:
                return {"detail": "%s raised %r" % (what, exc)}
            if ret[0] == "value":
                return None if (got is not None and val(got) == (D[j][0], D[j][1])) else {"detail": "%s returned %r, dict holds %r" % (what, got and val(got), D[j])}
            if ret[0] == "bool":
                ok = isinstance(got, bool) and (got or not ret[1]) and (ret[2] or not got)
                return None if ok else {"detail": "%s returned %r; key visible before: %s, key stored: %s" % (what, got, ret[1], ret[2])}
            eps = [g[0] for g in got] if ret[0] == "items" else list(got)
            idx = [_key_index(e) for e in eps]
            ok = None not in idx and len(set(idx)) == len(idx) and ret[1] <= set(idx) <= ret[2]
            if ok and ret[0] == "items":
                ok = all(val(op) == (D[i][0], D[i][1]) for (_ep, op), i in zip(got, idx))
            return None if ok else {"detail": "%s yielded %r; visible before %r, stored %r" % (what, eps, ret[1], ret[2])}
        if aspect == "view":
            ks = [_key_index(e) for e in eko]
            if None in ks or not set(ks) <= set(D2) or not Vlow <= set(ks) or (Vex is not None and set(ks) != Vex):
                phantom = [KEYS[k] for k in ks if k is not None and k not in D2]
                return {"detail": "%s: afterwards the EKO lists %r, stored keys are %r%s" % (what, [KEYS[k] for k in ks if k is not None], [KEYS[k] for k in sorted(D2)],
                                                                                           ("; %r in eko is True but eko[...] raises" % (phantom,)) if phantom else "")}
            for t, op in eko.operators.cache.items():
                k = _key_index(t.ep)
                if op is not None and val(op) != (D2[k][0], D2[k][1]):
                    return {"detail": "%s: loaded operator for %r is %r, dict holds %r" % (what, t.ep, val(op), D2[k])}
            return None
        # disk / readback: everything the dict holds must be readable back, fresh from disk, now and after close + read
        if exc is not None and aspect != "readback":
            return None
        for phase in ("now", "after close+read"):
            if phase == "after close+read":
                if kind == "reopen" and exc is not None:
                    break
                try:
                    if eko.access.open:
                        eko.close()
                    eko = EKO.read(d / "out.tar")
                except Exception as e:  # noqa
                    return {"detail": "%s: close + read failed with %r" % (what, e)}
            for k in sorted(D2):
                t = Target.from_ep(KEYS[k])
                if t in eko.operators.cache:
                    eko.operators.cache[t] = None
                try:
                    v = val(eko[KEYS[k]])
                except Exception as e:  # noqa
                    return {"detail": "%s: reading key %r back (%s) raises %s: %s" % (what, KEYS[k], phase, type(e).__name__, str(e)[:200])}
                if v != (D2[k][0], D2[k][1]):
                    return {"detail": "%s: key %r reads back (%s) as %r, dict holds %r" % (what, KEYS[k], phase, v, D2[k])}
            for k in range(3):
                if k not in D2:
                    try:
                        eko[KEYS[k]]
                        return {"detail": "%s: key %r was never stored but reads back (%s)" % (what, KEYS[k], phase)}
                    except ValueError:
                        pass
        return None


def _frac(v):
    try:
        return Fraction(str(v))
    except Exception:  # noqa
        return None


def replay_approx(point, n, same, defaults):
    vals = {k: _frac(v) for k, v in point.items()}
    need = ["x"] + ["s%d" % i for i in range(n)] + ([] if defaults else ["rtol", "atol"])
    if any(vals.get(k) is None for k in need):
        return None
    x = float(vals["x"])
    stored = [(float(vals["s%d" % i]), 4 if same[i] else 5) for i in range(n)]
    rt = 1e-6 if defaults else float(vals["rtol"])
    at = 1e-10 if defaults else float(vals["atol"])
    if rt < 0 or at < 0 or len({s for s in stored}) != n:
        return None
    with scratch() as d:
        w = RealWorld(d / "out.tar")
        eko = _fresh_eko(w)
        for i, (s, nf) in enumerate(stored):
            eko[(s, nf)] = iofs.real_op(i)
        try:
            r = eko.approx((x, 4)) if defaults else eko.approx((x, 4), rtol=rt, atol=at)
            real = ("none",) if r is None else ("point", (float(r[0]), int(r[1])))
        except ValueError:
            real = ("error",)
    want = _oracle_approx(x, stored, rt, at)
    # points sitting on the tolerance boundary are decided by float rounding: not a reproduction
    for s, nf in stored:
        lhs = abs(Fraction(x) - Fraction(s))
        rhs = Fraction(at) + Fraction(rt) * abs(Fraction(s))
        if nf == 4 and abs(lhs - rhs) <= Fraction(8, 10**16) * (abs(Fraction(x)) + abs(Fraction(s)) + Fraction(at)):
            return None  # within a few ulps of the boundary
    if real != want:
        return {"detail": "approx((%r, 4), rtol=%r, atol=%r) on stored points %r gives %r; specification |x-s| <= atol + rtol*|s| gives %r" % (x, rt, at, stored, real, want)}
    return None


# ---------------------------------------------------------------------------
def main():
    chk = H.Check("C37")
    chk.bounds = [
        "store: 3 concrete keys (100.0,5), (400.0,5), (900.0,6); pre-state arbitrary valid (per key disk/cached/loaded flags z3 Bools, payload tag z3 Int; "
        "error-array flag symbolic for the key being set in the quick tier, for all keys in the thorough tier)",
        "the derived listings EKO.evolgrid, EKO.mu2grid and EKO.raw['mu2grid'] are read before and after every step and must list what iteration yields afterwards",
        "one inductive step for each operation kind {set (insert and overwrite), get, del (unload one), contains, iterate, items, sync, unload (all), close+reopen} "
        "with symbolic key index; thorough tier adds a second step get(k) for every k after each first step",
        "every step is followed, for every key k, by unload(k) and get(k) (a read fresh from disk) against the dict; the pre-state of a key also says whether it "
        "has been read from disk before (z3 Bool; for the key operated on in the quick tier, for all keys in the thorough tier) -- with the pre-state built by "
        "set / unload / get this gives histories of length >= 4 such as read-from-disk, overwrite with switched error presence, unload, re-read",
        "membership with symbolic keys: `(x,4) in eko` for 1..3 stored points with symbolic real scales and symbolic same-nf pattern equals exact key equality "
        "(in particular False for a query arbitrarily close to, but different from, a stored scale) and never raises",
        "approx: 1..3 stored points with symbolic real scales (positive in the quick tier, any sign in the thorough tier), same/different nf pattern symbolic, "
        "query scale, rtol >= 0 and atol >= 0 symbolic reals; plus the default tolerances 1e-6 / 1e-10 as exact rationals",
    ]
    chk.out_of_claim = [
        "npy/lz4/tar bytes, yaml text of floats (payloads are opaque tags)", "float rounding inside numpy.isclose (reals)",
        "hash collisions between file stems of distinct (scale, nf) keys (inventory.encode uses hash()); keys are concrete in the store part",
        "iteration *order* (directory listing order after re-open)", "in-place mutation of a loaded operator, concurrent writers, EKO.deepcopy",
        "random histories up to length 30 of the property text: replaced by the inductive step over arbitrary valid states",
    ]
    chk.stubs = [
        "pathlib.Path / open / tarfile / shutil / tempfile rebound to the in-memory model (harness/iofs.py) in the globals of eko.io.struct, inventory, metadata, paths, raw",
        "yaml: concrete documents through the real PyYAML both ways", "eko.io.items.Operator.save/load -> opaque tag write/read",
        "approx: struct.np -> symx shim (isclose by numpy's documented formula), struct.isinstance accepts a symbolic real as float",
    ]
    chk.assumptions = ["valid store: cached => on disk, loaded => cached and equal to the disk content (single writer, no in-place mutation)",
                       "stored scales pairwise distinct (they are dictionary keys)"]
    tier = H.tier()
    iofs.preload()
    thorough = tier == "thorough"
    for k in KINDS:
        chk.case("step.%s" % k, case_step, kind=k, err_all=thorough, read_all=thorough)
    for n in (1, 2, 3):
        chk.case("approx.n%d" % n, case_approx, n=n, signed=thorough)
        chk.case("approx.n%d.defaults" % n, case_approx, n=n, defaults=True, signed=thorough)
    for n in (1, 2, 3):
        chk.case("contains.n%d" % n, case_contains_sym, n=n, signed=thorough)
    chk.case("validate", case_validate)
    return chk.run()


if __name__ == "__main__":
    import sys

    sys.exit(main())
