"""Wiring of eko.evolution_operator.Operator around the Mellin kernels (used by C51, C12, C14):
the real Operator.mu2 / compute_a / compute_aem_list / quad_ker run on an object built without __init__, with symbolic scales
and a recording couplings manager.  What is decided is which scales the couplings are asked for and which arguments reach
quad_ker_ad -- the assumptions the kernel-level checks make about their caller."""
from fractions import Fraction

from .kern import *  # noqa
from symx.solver import explore, prove_zero
from symx import solver as S
from symx import harness as H

MOD = "harness.opwire"


class _Couplings:
    def __init__(self, running):
        self.alphaem_running = running
        self.calls = []

    def a(self, scale_to, nf_to=None):
        k = len(self.calls)
        self.calls.append(("a", scale_to, nf_to))
        return (SR.var("as_%d" % k), SR.var("aem_%d" % k))

    def a_s(self, scale_to, nf_to=None):
        k = len(self.calls)
        self.calls.append(("a_s", scale_to, nf_to))
        return SR.var("as_%d" % k)


class _Obj:
    pass


def _operator(eo, order, mode, thr, its, running):
    from eko.io.types import ScaleVariationsMethod

    enumv = {"unvaried": None, "exponentiated": ScaleVariationsMethod.EXPONENTIATED, "expanded": ScaleVariationsMethod.EXPANDED}[mode]
    op = object.__new__(eo.Operator)
    q0, q1, xi = SR.var("q2_from"), SR.var("q2_to"), SR.var("xif2")
    for x in (q0, q1, xi):
        assume(x, ">0")
    op.config = {"xif2": xi, "ModSV": enumv, "ev_op_iterations": its, "ev_op_max_order": (10, 0), "order": order,
                 "n3lo_ad_variation": (0,) * 7, "polarized": False, "time_like": False, "use_fhmruvv": False, "method": "iterate-exact"}
    op.q2_from, op.q2_to, op.is_threshold, op.nf = q0, q1, thr, 4
    op.order = tuple(order)
    man = _Obj()
    man.couplings = _Couplings(running)
    intd = _Obj()
    intd.log = True
    man.interpolator = intd
    op.managers = man
    op.alphaem_running = running
    return op, q0, q1, xi


def case_wiring(log, pid, order, mode, thr, its=1, running=False):
    eo = sym_module("eko.evolution_operator")
    eo.np.geomspace_roots = True  # interior geometric nodes as algebraic root atoms
    log.encode(eo.Operator.mu2, eo.Operator.compute_a, eo.Operator.compute_aem_list, eo.Operator.quad_ker)
    rp = (MOD, "replay_wiring", {"order": list(order), "mode": mode, "thr": thr, "its": its, "running": running})
    key = "Operator.wiring:%s" % mode
    tag = "order %r, %s, is_threshold=%s, %d iteration(s), alphaem_running=%s" % (order, mode, thr, its, running)
    log.register_replay(key, rp, _sampler)

    def Z(x, what):
        v = prove_zero(Cx.lift(x), "%s [%s]" % (what, tag))
        log.decide(v, key=key, replay=rp, sampler=_sampler)

    def run():
        op, q0, q1, xi = _operator(eo, order, mode, thr, its, running)
        want0 = q0 * xi if mode == "exponentiated" else q0
        want1 = q1 * xi if (mode == "exponentiated" or (mode == "expanded" and not thr)) else q1
        cp = op.managers.couplings
        op.a = op.compute_a()
        c = list(cp.calls)
        if len(c) != 2:
            raise EngineError("compute_a made %d coupling calls" % len(c))
        Z(c[0][1] - want0, "compute_a asks the initial coupling at the documented scale")
        Z(c[1][1] - want1, "compute_a asks the final coupling at the documented scale")
        if c[0][2] != op.nf or c[1][2] != op.nf:
            Z(SR(1), "compute_a passes nf_to of the segment")
        del cp.calls[:]
        op.as_list, op.a_half_list = op.compute_aem_list()
        calls = list(cp.calls)
        if order[1] == 0:
            Z(SR(len(calls)), "no coupling call in compute_aem_list without QED")
            Z(op.as_list[0] - op.a[0][0], "as_list[0] is the initial a_s")
            Z(op.as_list[-1] - op.a[1][0], "as_list[-1] is the final a_s")
        else:
            s_as = [x for x in calls if x[0] == "a_s"]
            s_a = [x for x in calls if x[0] == "a"]
            if len(s_as) != its + 1 or len(s_a) != its:
                raise EngineError("compute_aem_list: %d a_s calls, %d a calls for %d iterations" % (len(s_as), len(s_a), its))
            Z(s_as[0][1] - want0, "first a_s node at the scale of the initial coupling (shifted renormalization scale)")
            Z(s_as[-1][1] - want1, "last a_s node at the scale of the final coupling (shifted renormalization scale)")
            for k in range(1, its):
                Z(s_as[k][1] * s_as[k][1] - s_as[k - 1][1] * s_as[k + 1][1], "a_s nodes geometric: node_%d^2 == node_%d node_%d" % (k, k - 1, k + 1))
            for k in range(its):
                Z(s_a[k][1] * 2 - (s_as[k][1] + s_as[k + 1][1]), "half-step couplings of step %d at the arithmetic mu^2 midpoint of that step" % k)
                Z(op.a_half_list[k][0] - SR.var("as_%d" % [i for i, x in enumerate(calls) if x is s_a[k]][0]), "a_half[%d][0] is the a_s returned for that midpoint" % k)
            for x in calls:
                if x[2] != op.nf:
                    Z(SR(1), "compute_aem_list passes nf_to of the segment")
        part = op.quad_ker((10200, 0), SR.var("logx"), ("areas",))
        kw = part.keywords
        Lwant = eo.np.log(xi)
        Z(kw["Lsv"] - Lwant, "quad_ker hands Lsv = ln(xif2) to the kernel")
        Z(kw["mu2_from"] - q0, "quad_ker hands mu2_from = q2_from")
        Z(kw["mu2_to"] - q1, "quad_ker hands mu2_to = q2_to")
        Z(SR(0 if kw["is_threshold"] == thr else 1), "quad_ker hands is_threshold through")
        Z(SR(0 if kw["ev_op_iterations"] == its else 1), "quad_ker hands ev_op_iterations through")
        Z(SR(0 if kw["as_list"] is op.as_list else 1), "quad_ker hands as_list through")
        Z(SR(0 if kw["a_half"] is op.a_half_list else 1), "quad_ker hands a_half through")
        Z(SR(0 if kw["alphaem_running"] == running else 1), "quad_ker hands alphaem_running through")
        import eko.scale_variations as svmod

        Z(SR(0 if kw["sv_mode"] == svmod.Modes[mode] else 1), "quad_ker hands the scale-variation mode through")
        log.twin("domain")
        log.collect_ctx()

    _r, pm = explore(run)
    log.path_stats(pm)


def case_ome_wiring(log, pid, mode, is_msbar):
    """OperatorMatrixElement: the coupling is the (nf+1)-flavour one at the matching scale (shifted by xif2 in the exponentiated scheme
    only) and quad_ker_ome receives the matching order, L, Lsv = ln xif2 and every flag unchanged."""
    eo = sym_module("eko.evolution_operator")
    om = sym_module("eko.evolution_operator.operator_matrix_element")
    import eko.scale_variations as svmod
    from eko.io.types import ScaleVariationsMethod

    log.encode(om.OperatorMatrixElement.a_s, om.OperatorMatrixElement.quad_ker)
    rp = (MOD, "replay_ome_wiring", {"mode": mode, "is_msbar": is_msbar})
    key = "OperatorMatrixElement.wiring:%s" % mode
    log.register_replay(key, rp, _sampler)
    tag = "%s, is_msbar=%s" % (mode, is_msbar)

    def Z(x, what):
        v = prove_zero(Cx.lift(x), "%s [%s]" % (what, tag))
        log.decide(v, key=key, replay=rp, sampler=_sampler)

    def run():
        enumv = {"unvaried": None, "exponentiated": ScaleVariationsMethod.EXPONENTIATED, "expanded": ScaleVariationsMethod.EXPANDED}[mode]
        op = object.__new__(om.OperatorMatrixElement)
        q2, xi, L = SR.var("q2_from"), SR.var("xif2"), SR.var("Lh")
        assume(q2, ">0")
        assume(xi, ">0")
        op.config = {"xif2": xi, "ModSV": enumv, "matching_order": (2, 0), "polarized": False, "time_like": False}
        op.q2_from = op.q2_to = q2
        op.nf, op.L, op.is_msbar, op.order = 4, L, is_msbar, (2, 0)
        op.backward_method = "token-backward"
        man = _Obj()
        man.couplings = _Couplings(False)
        intd = _Obj()
        intd.log = True
        man.interpolator = intd
        op.managers = man
        a = op.a_s
        c = man.couplings.calls
        if len(c) != 1:
            raise EngineError("OperatorMatrixElement.a_s made %d coupling calls" % len(c))
        Z(c[0][1] - (q2 * xi if mode == "exponentiated" else q2), "matching coupling asked at the matching scale (times xif2 in the exponentiated scheme only)")
        Z(SR(0 if c[0][2] == 5 else 1), "matching coupling asked with nf + 1 flavours")
        kw = op.quad_ker((200, 200), SR.var("logx"), ("areas",)).keywords
        c2 = man.couplings.calls[-1]
        Z(kw["a_s"] - SR.var("as_%d" % (len(man.couplings.calls) - 1)), "quad_ker hands the coupling it asked for to the kernel")
        Z(c2[1] - c[0][1], "quad_ker asks the coupling at the same scale as a_s")
        Z(SR(0 if c2[2] == 5 else 1), "quad_ker asks the coupling with nf + 1 flavours")
        Z(kw["L"] - L, "quad_ker hands L through")
        Z(kw["Lsv"] - om.np.log(xi), "quad_ker hands Lsv = ln(xif2)")
        Z(SR(0 if kw["order"] == (2, 0) else 1), "quad_ker hands the matching order")
        Z(SR(0 if kw["nf"] == 4 else 1), "quad_ker hands nf (flavours below the threshold)")
        Z(SR(0 if kw["sv_mode"] == svmod.Modes[mode] else 1), "quad_ker hands the scale-variation mode")
        Z(SR(0 if kw["backward_method"] == "token-backward" else 1), "quad_ker hands the inversion method")
        Z(SR(0 if kw["is_msbar"] is is_msbar else 1), "quad_ker hands is_msbar")
        Z(SR(0 if (kw["is_polarized"] is False and kw["is_time_like"] is False and kw["mode0"] == 200 and kw["mode1"] == 200) else 1), "quad_ker hands the polarised / time-like flags and the label")
        log.twin("domain")
        log.collect_ctx()

    _r, pm = explore(run)
    log.path_stats(pm)


def replay_ome_wiring(point, mode, is_msbar):
    import math
    import importlib
    from eko.io.types import ScaleVariationsMethod
    import eko.scale_variations as svmod

    om = importlib.import_module("eko.evolution_operator.operator_matrix_element")
    q2, xi = float(point.get("q2_from", 20.0)), float(point.get("xif2", 2.0))
    if not (q2 > 0 and xi > 0 and abs(xi - 1) > 1e-3):
        return None
    enumv = {"unvaried": None, "exponentiated": ScaleVariationsMethod.EXPONENTIATED, "expanded": ScaleVariationsMethod.EXPANDED}[mode]
    calls = []

    class Cp:
        def a_s(self, scale_to, nf_to=None):
            calls.append((float(scale_to), nf_to))
            return 0.021

    op = object.__new__(om.OperatorMatrixElement)
    op.config = {"xif2": xi, "ModSV": enumv, "matching_order": (2, 0), "polarized": False, "time_like": False}
    op.q2_from = op.q2_to = q2
    op.nf, op.L, op.is_msbar, op.order = 4, 0.37, is_msbar, (2, 0)
    op.backward_method = None
    man = type("M", (), {})()
    man.couplings = Cp()
    man.interpolator = type("I", (), {"log": True})()
    op.managers = man
    kw = op.quad_ker((200, 200), -1.0, None).keywords
    want = q2 * xi if mode == "exponentiated" else q2
    bad = []
    if not calls or abs(calls[-1][0] - want) > 1e-9 * want or calls[-1][1] != 5:
        bad.append("matching coupling asked at %r, documented (scale %r, nf_to 5)" % (calls, want))
    if abs(kw["Lsv"] - math.log(xi)) > 1e-12 or kw["L"] != 0.37 or kw["order"] != (2, 0) or kw["nf"] != 4 or kw["sv_mode"] != svmod.Modes[mode] or kw["is_msbar"] is not is_msbar or kw["a_s"] != 0.021:
        bad.append("quad_ker arguments: %r" % {k: kw[k] for k in ("Lsv", "L", "order", "nf", "sv_mode", "is_msbar", "a_s")})
    return {"detail": "; ".join(bad)} if bad else None


class _Rec:
    """records calls; returns a distinguishable token (or a symbolic matrix where the caller does arithmetic on the result)"""

    def __init__(self, name, result):
        self.name, self.result, self.calls = name, result, []

    def __call__(self, *a, **k):
        self.calls.append((a, k))
        return self.result(len(self.calls) - 1) if callable(self.result) else self.result


def case_qed_routing(log, pid, sector, mode, thr, its=2):
    """quad_ker_qed: every callee (ekore grid, exponentiated shift, sector dispatcher, expanded kernel K, element selector) replaced by
    a recorder; decided: which callee gets which argument in which slot -- in particular the *last* a_s node and the a_em of the last
    mid-point for K, the a_em column (not the a_s column) of the mid-point couplings for the non-singlet dispatcher, all of as_list and
    a_half for the matrix sectors, lepton number of the final scale, and K applied only in the expanded scheme away from thresholds."""
    qk = sym_module("eko.evolution_operator.quad_ker")
    import eko.scale_variations as svmod
    from eko.kernels import EvoMethods

    log.encode(qk.quad_ker_qed)
    rp = (MOD, "replay_qed_routing", {"sector": sector, "mode": mode, "thr": thr, "its": its})
    key = "quad_ker_qed.routing:%s:%s" % (sector, mode)
    log.register_replay(key, rp, _sampler)
    tag = "%s, %s, is_threshold=%s, %d steps" % (sector, mode, thr, its)

    def Z(ok, what):
        v = prove_zero(Cx.lift(SR(0 if ok else 1)), "%s [%s]" % (what, tag))
        log.decide(v, key=key, replay=rp, sampler=_sampler)

    def run():
        kb = _Obj()
        kb.is_QEDsinglet, kb.is_QEDvalence, kb.is_singlet, kb.n = sector == "singlet", sector == "valence", False, SR.var("N")
        order, nf = (3, 2), 4
        as_list = realnp.array([SR.var("as_n%d" % i) for i in range(its + 1)], dtype=object)
        a_half = realnp.array([[SR.var("ash%d" % i), SR.var("aemh%d" % i)] for i in range(its)], dtype=object)
        m0, m1, L = SR.var("mu2_from"), SR.var("mu2_to"), SR.var("Lsv")
        g0, g1 = object(), object()
        dim = {"singlet": 4, "valence": 2, "ns": 1}[sector]
        kmat = realnp.array([[SR.var("k_%d%d" % (i, j)) for j in range(dim)] for i in range(dim)], dtype=object) if dim > 1 else SR.var("k")
        Kmat = realnp.array([[SR.var("K_%d%d" % (i, j)) for j in range(dim)] for i in range(dim)], dtype=object) if dim > 1 else SR.var("K")
        rec = {n: _Rec(n, r) for n, r in (("grid", g0), ("shift", g1), ("disp", kmat), ("K", Kmat), ("lep", "leptons-token"))}
        sel = _Rec("select", lambda i: SR.var("selected"))
        names = {"singlet": ("gamma_singlet_qed", "qed_s", "singlet_variation_qed", "select_QEDsinglet_element"),
                 "valence": ("gamma_valence_qed", "qed_v", "valence_variation_qed", "select_QEDvalence_element"),
                 "ns": ("gamma_ns_qed", "qed_ns", "non_singlet_variation_qed", None)}[sector]
        saved = []

        def patch(obj, attr, val):
            saved.append((obj, attr, getattr(obj, attr)))
            setattr(obj, attr, val)

        patch(qk.ad_us, names[0], rec["grid"])
        patch(qk.sv_exponentiated, "gamma_variation_qed", rec["shift"])
        patch(getattr(qk, names[1]), "dispatcher", rec["disp"])
        patch(qk.sv_expanded, names[2], rec["K"])
        patch(qk, "lepton_number", rec["lep"])
        if names[3]:
            patch(qk, names[3], sel)
        var = (1, 2, 3, 4, 5, 6, 7)
        try:
            out = qk.quad_ker_qed(kb, order, 10102 if sector == "ns" else 100, 0 if sector == "ns" else 21, EvoMethods.ITERATE_EXACT, as_list, m0, m1, a_half, True,
                                  nf, L, its, (5, 0), svmod.Modes[mode], thr, var, True)
        finally:
            for obj, attr, val in reversed(saved):
                setattr(obj, attr, val)
        c = rec["grid"].calls
        want_grid = (order, 10102, kb.n, nf, var, True) if sector == "ns" else (order, kb.n, nf, var, True)
        Z(len(c) == 1 and len(c[0][0]) == len(want_grid) and all(x is y or x == y for x, y in zip(c[0][0], want_grid)), "the ekore grid is asked with (order, [mode,] N, nf, variation, use_fhmruvv)")
        gam = g0
        c = rec["shift"].calls
        if mode == "exponentiated":
            Z(len(c) == 1 and c[0][0][0] is g0 and c[0][0][1] == order and c[0][0][2] == nf and c[0][0][3] == "leptons-token" and c[0][0][4] is L and c[0][0][5] is True,
              "exponentiated: gamma_variation_qed(grid, order, nf, lepton_number, Lsv, alphaem_running)")
            Z(len(rec["lep"].calls) == 1 and rec["lep"].calls[0][0][0] is m1, "lepton number taken at the final scale")
            gam = g1
        else:
            Z(len(c) == 0, "no exponentiated shift outside the exponentiated scheme")
        c = rec["disp"].calls
        if sector == "ns":
            ok = len(c) == 1 and len(c[0][0]) == 10
            if ok:
                a = c[0][0]
                col = a[4]
                ok = (a[0] == order and a[1] == EvoMethods.ITERATE_EXACT and a[2] is gam and a[3] is as_list and len(col) == its
                      and all((SR(0) + col[i] - a_half[i, 1]).v.canon().n.is_zero() for i in range(its)) and a[5] is True and a[6] == nf and a[7] == its and a[8] is m0 and a[9] is m1)
            Z(ok, "non-singlet dispatcher(order, method, gamma, as_list, a_em column of the mid-point couplings, alphaem_running, nf, iterations, mu2_from, mu2_to)")
        else:
            ok = len(c) == 1 and len(c[0][0]) == 8
            if ok:
                a = c[0][0]
                ok = a[0] == order and a[1] == EvoMethods.ITERATE_EXACT and a[2] is gam and a[3] is as_list and a[4] is a_half and a[5] == nf and a[6] == its and a[7] == (5, 0)
            Z(ok, "%s dispatcher(order, method, gamma, as_list, a_half, nf, iterations, expansion order)" % sector)
        c = rec["K"].calls
        if mode == "expanded" and not thr:
            ok = len(c) == 1 and len(c[0][0]) == 7
            if ok:
                a = c[0][0]
                ok = (a[0] is gam and (SR(0) + a[1] - as_list[its]).v.canon().n.is_zero() and (SR(0) + a[2] - a_half[its - 1, 1]).v.canon().n.is_zero()
                      and a[3] is True and a[4] == order and a[5] == nf and a[6] is L)
            Z(ok, "expanded: K(gamma, last a_s node, a_em of the last mid-point, alphaem_running, order, nf, Lsv)")
            want = (Kmat @ kmat) if dim > 1 else Kmat * kmat
        else:
            Z(len(c) == 0, "K only in the expanded scheme away from thresholds")
            want = kmat
        if names[3]:
            c = sel.calls
            ok = len(c) == 1 and c[0][0][1] == 100 and c[0][0][2] == 21
            if ok:
                got = c[0][0][0]
                ok = all((SR(0) + got[i, j] - want[i, j]).v.canon().n.is_zero() for i in range(dim) for j in range(dim))
            Z(ok, "the element selector receives K @ kernel (K on the left) and the two labels")
        else:
            Z((SR(0) + out - want).v.canon().n.is_zero(), "the result is K * kernel")
        log.twin("domain")
        log.collect_ctx()

    _r, pm = explore(run)
    log.path_stats(pm)


def replay_qed_routing(point, sector, mode, thr, its):
    """the real quad_ker_qed with numeric recorders: a result that depends on exactly the documented arguments"""
    import importlib
    from unittest import mock
    import numpy as np
    import eko.scale_variations as svmod
    from eko.kernels import EvoMethods

    qk = importlib.import_module("eko.evolution_operator.quad_ker")
    dim = {"singlet": 4, "valence": 2, "ns": 1}[sector]
    names = {"singlet": ("gamma_singlet_qed", "qed_s", "singlet_variation_qed"), "valence": ("gamma_valence_qed", "qed_v", "valence_variation_qed"), "ns": ("gamma_ns_qed", "qed_ns", "non_singlet_variation_qed")}[sector]
    seen = {}
    as_list = np.array([0.02 + 0.003 * i for i in range(its + 1)])
    a_half = np.array([[0.021 + 0.003 * i, 0.0007 + 1e-5 * i] for i in range(its)])

    def grid(*a):
        seen["grid"] = a
        return np.zeros((4, 3, dim, dim)) if dim > 1 else np.zeros((4, 3))

    def shift(g, *a):
        seen["shift"] = a
        return g

    # generic (non-symmetric, non-commuting) matrices: an elementwise product or the other order differs from K @ kernel
    kmat = (np.arange(dim * dim, dtype=float).reshape(dim, dim) * 0.1 + np.eye(dim) * 2.0) if dim > 1 else 2.0
    Kmat = (np.arange(dim * dim, dtype=float)[::-1].reshape(dim, dim) ** 2 * 0.05 + np.eye(dim) * 3.0) if dim > 1 else 3.0

    def disp(*a):
        seen["disp"] = a
        return kmat.copy() if dim > 1 else kmat

    def K(*a):
        seen["K"] = a
        return Kmat.copy() if dim > 1 else Kmat

    def select(ker, m0, m1):
        seen["select"] = (np.array(ker, dtype=complex), m0, m1)
        return ker[0, 0]

    class KB:
        is_QEDsinglet, is_QEDvalence, is_singlet, n = sector == "singlet", sector == "valence", False, 2.0 + 0.5j

    selname = {"singlet": "select_QEDsinglet_element", "valence": "select_QEDvalence_element", "ns": None}[sector]
    with mock.patch.object(qk.ad_us, names[0], grid), mock.patch.object(qk.sv_exponentiated, "gamma_variation_qed", shift), \
            mock.patch.object(getattr(qk, names[1]), "dispatcher", disp), mock.patch.object(qk.sv_expanded, names[2], K), \
            (mock.patch.object(qk, selname, select) if selname else mock.patch.object(qk, "lepton_number", qk.lepton_number)):
        out = qk.quad_ker_qed(KB(), (3, 2), 10102 if sector == "ns" else 100, 0 if sector == "ns" else 100, EvoMethods.ITERATE_EXACT, as_list, 10.0, 100.0, a_half, True, 4, 0.6, its,
                        (5, 0), svmod.Modes[mode], thr, (1, 2, 3, 4, 5, 6, 7), True)
    bad = []
    d = seen.get("disp")
    if d is None:
        bad.append("no dispatcher call")
    elif sector == "ns":
        if not np.allclose(d[4], a_half[:, 1], rtol=0, atol=0) or not np.allclose(d[3], as_list, rtol=0, atol=0):
            bad.append("non-singlet dispatcher received couplings %r / mid-point column %r; documented as_list %r and the a_em column %r" % (list(d[3]), list(d[4]), list(as_list), list(a_half[:, 1])))
    elif not (np.array_equal(d[3], as_list) and np.array_equal(d[4], a_half)):
        bad.append("%s dispatcher received other couplings than as_list / a_half" % sector)
    if mode == "expanded" and not thr:
        k = seen.get("K")
        if k is None or k[1] != as_list[-1] or k[2] != a_half[-1][1]:
            bad.append("K evaluated at a_s=%r, a_em=%r; documented: last node %r and a_em of the last mid-point %r" % (None if k is None else k[1], None if k is None else k[2], as_list[-1], a_half[-1][1]))
    elif "K" in seen:
        bad.append("K applied although the scheme is %s / is_threshold=%s" % (mode, thr))
    want = (Kmat @ kmat if dim > 1 else Kmat * kmat) if (mode == "expanded" and not thr) else kmat
    if selname:
        got = seen.get("select")
        if got is None:
            bad.append("the element selector was not called")
        elif np.abs(got[0] - want).max() > 1e-12:
            bad.append("the element selector receives %r; the matrix product K @ kernel of the scale-variation factor and the evolution kernel is %r" % (got[0].tolist(), np.asarray(want).tolist()))
    elif abs(complex(out) - want) > 1e-12:
        bad.append("the result is %r, K * kernel is %r" % (out, want))
    if (mode == "exponentiated") != ("shift" in seen):
        bad.append("exponentiated shift applied=%s in scheme %s" % ("shift" in seen, mode))
    return {"detail": "quad_ker_qed (%s, %s): %s" % (sector, mode, "; ".join(bad))} if bad else None


def add_qed_routing(chk, pid, thorough):
    for sector in ("singlet", "valence", "ns"):
        for mode, thr in (("unvaried", False), ("exponentiated", False), ("expanded", False), ("expanded", True)):
            chk.case("routing.qed.%s.%s.thr%d" % (sector, mode, thr), case_qed_routing, pid=pid, sector=sector, mode=mode, thr=thr, its=3 if thorough else 2)


class _Stop(Exception):
    pass


class _Logger:
    def __init__(self):
        self.msgs = []

    def info(self, fmt, *a):
        self.msgs.append(fmt)
        if "computing operators" in fmt:
            raise _Stop()

    warning = debug = error = info


def case_skip(log, pid, mode, thr):
    """Operator.compute: the unity short-cut (copy_ns_ops, no integration) is taken only when the operator really is the unity:
    the evolution length is negligible and -- in the expanded scheme away from a threshold -- so is ln(xif2)."""
    eo = sym_module("eko.evolution_operator")
    log.encode(eo.Operator.compute, eo.Operator.mu2)
    rp = (MOD, "replay_skip", {"mode": mode, "thr": thr})
    key = "Operator.compute:unity-shortcut:%s" % mode
    log.register_replay(key, rp, _sampler_skip)

    def run():
        op, q0, q1, xi = _operator(eo, (3, 0), mode, thr, 1, False)
        taken = []
        op.initialize_op_members = lambda: None
        op.copy_ns_ops = lambda: taken.append(1)
        lg = _Logger()
        saved = eo.logger
        eo.logger = lg
        try:
            op.compute()
        except _Stop:
            pass
        finally:
            eo.logger = saved
        tag = "%s, is_threshold=%s" % (mode, thr)
        if taken:
            d = q0 - q1
            tol = q1 * Fraction(1, 10000) + Fraction(1, 10**7)
            v = S.prove_rel(d * d - tol * tol, "<=0", "unity short-cut taken => |q2_from - q2_to| <= 1e-7 + 1e-4 q2_to [%s]" % tag)
            log.decide(v, key=key, replay=rp, sampler=_sampler_skip)
            if mode == "expanded" and not thr:
                e = xi - 1
                v = S.prove_rel(e * e - Fraction(1, 10**8), "<=0", "unity short-cut taken in the expanded scheme away from thresholds => |xif2 - 1| <= 1e-4 [%s]" % tag)
                log.decide(v, key=key, replay=rp, sampler=_sampler_skip)
        else:
            # the integration is entered: never with exactly coinciding scales where the kernels are singular, unless the
            # scale-variation kernel has to be applied
            if not (mode == "expanded" and not thr):
                v = S.prove_rel(q0 - q1, "!=0", "integration entered => q2_from != q2_to [%s]" % tag)
                log.decide(v, key=key, replay=rp, sampler=_sampler_skip)
        log.twin("domain")
        log.collect_ctx()

    _r, pm = explore(run)
    log.path_stats(pm)


def _sampler_skip(rng):
    q0 = rnd(rng, 2, 300)
    xi = rnd(rng, 0.2, 5)
    k = rng.randrange(4)
    q1 = [q0 / xi, q0 * xi, q0, rnd(rng, 2, 300)][k]
    return {"q2_from": q0, "q2_to": q1, "xif2": xi}


def replay_skip(point, mode, thr):
    """the same on the real Operator.compute with floats"""
    import importlib
    from eko.io.types import ScaleVariationsMethod

    eo = importlib.import_module("eko.evolution_operator")
    q0, q1, xi = (float(point.get(k, d)) for k, d in (("q2_from", 40.0), ("q2_to", 10.0), ("xif2", 4.0)))
    if not (q0 > 0 and q1 > 0 and xi > 0):
        return None
    enumv = {"unvaried": None, "exponentiated": ScaleVariationsMethod.EXPONENTIATED, "expanded": ScaleVariationsMethod.EXPANDED}[mode]
    op = object.__new__(eo.Operator)
    op.config = {"xif2": xi, "ModSV": enumv, "ev_op_iterations": 1, "ev_op_max_order": (10, 0), "order": (3, 0),
                 "n3lo_ad_variation": (0,) * 7, "polarized": False, "time_like": False, "use_fhmruvv": False, "method": "iterate-exact"}
    op.q2_from, op.q2_to, op.is_threshold, op.nf, op.order = q0, q1, thr, 4, (3, 0)
    taken = []
    op.initialize_op_members = lambda: None
    op.copy_ns_ops = lambda: taken.append(1)
    lg = _Logger()
    saved = eo.logger
    eo.logger = lg
    try:
        op.compute()
    except _Stop:
        pass
    finally:
        eo.logger = saved
    if taken and abs(q0 - q1) > 1e-7 + 1e-4 * q1:
        return {"detail": "Operator.compute (%s, is_threshold=%s) returns the unity operator for q2_from=%r -> q2_to=%r (xif2=%r)" % (mode, thr, q0, q1, xi)}
    if taken and mode == "expanded" and not thr and abs(xi - 1) > 1e-4:
        return {"detail": "Operator.compute (expanded, no threshold) returns the unity operator although xif2=%r: the scale-variation kernel is dropped" % xi}
    if not taken and q0 == q1 and not (mode == "expanded" and not thr):
        return {"detail": "Operator.compute (%s) integrates over a zero-length evolution q2=%r" % (mode, q0)}
    return None


def add_cases(chk, pid, thorough, qcd=True):
    """register the wiring cases on a Check"""
    for mode in ("unvaried", "exponentiated", "expanded") if qcd else ():
        for thr in (False, True):
            chk.case("wiring.qcd.%s.thr%d" % (mode, thr), case_wiring, pid=pid, order=(3, 0), mode=mode, thr=thr)
            chk.case("compute.skip.%s.thr%d" % (mode, thr), case_skip, pid=pid, mode=mode, thr=thr)
        chk.case("wiring.ome.%s" % mode, case_ome_wiring, pid=pid, mode=mode, is_msbar=(mode == "expanded"))
    for its in ((1, 2, 3) if thorough else (2, 3)):
        for running in (True, False):
            chk.case("wiring.qed.its%d.run%d" % (its, running), case_wiring, pid=pid, order=(2, 1), mode="unvaried", thr=False, its=its, running=running)
    for mode in ("exponentiated", "expanded") if qcd else ():
        for thr in (False, True):
            chk.case("wiring.qed.%s.thr%d" % (mode, thr), case_wiring, pid=pid, order=(3, 1), mode=mode, thr=thr, its=2, running=False)


def _sampler(rng):
    return {"q2_from": rnd(rng, 2, 30), "q2_to": rnd(rng, 40, 400), "xif2": rnd(rng, 0.3, 3)}


def replay_wiring(point, order, mode, thr, its, running):
    """the same on the real module with floats"""
    import math
    import importlib
    import numpy as np
    from eko.io.types import ScaleVariationsMethod
    import eko.scale_variations as svmod

    eo = importlib.import_module("eko.evolution_operator")
    q0, q1, xi = (float(point.get(k, d)) for k, d in (("q2_from", 5.0), ("q2_to", 100.0), ("xif2", 2.0)))
    if not (q0 > 0 and q1 > 0 and xi > 0 and abs(q0 - q1) > 1e-6 and abs(xi - 1) > 1e-3):
        return None
    enumv = {"unvaried": None, "exponentiated": ScaleVariationsMethod.EXPONENTIATED, "expanded": ScaleVariationsMethod.EXPANDED}[mode]

    class Cp:
        alphaem_running = running

        def __init__(self):
            self.calls = []

        def a(self, scale_to, nf_to=None):
            self.calls.append(("a", float(scale_to), nf_to))
            return (0.02 + 1e-3 * len(self.calls), 0.0007 + 1e-5 * len(self.calls))

        def a_s(self, scale_to, nf_to=None):
            self.calls.append(("a_s", float(scale_to), nf_to))
            return 0.02 + 1e-3 * len(self.calls)

    op = object.__new__(eo.Operator)
    op.config = {"xif2": xi, "ModSV": enumv, "ev_op_iterations": its, "ev_op_max_order": (10, 0), "order": tuple(order),
                 "n3lo_ad_variation": (0,) * 7, "polarized": False, "time_like": False, "use_fhmruvv": False, "method": "iterate-exact"}
    op.q2_from, op.q2_to, op.is_threshold, op.nf, op.order = q0, q1, thr, 4, tuple(order)
    man = type("M", (), {})()
    man.couplings = Cp()
    man.interpolator = type("I", (), {"log": True})()
    op.managers = man
    op.alphaem_running = running
    bad = []
    want0 = q0 * xi if mode == "exponentiated" else q0
    want1 = q1 * xi if (mode == "exponentiated" or (mode == "expanded" and not thr)) else q1
    op.a = op.compute_a()
    c = man.couplings.calls
    if len(c) != 2 or abs(c[0][1] - want0) > 1e-9 * want0 or abs(c[1][1] - want1) > 1e-9 * want1:
        bad.append("compute_a asked the couplings at %r, documented (%r, %r)" % ([x[1] for x in c], want0, want1))
    if any(x[2] != op.nf for x in c):
        bad.append("compute_a asked the couplings with nf_to = %r, documented: the segment's nf = %r" % ([x[2] for x in c], op.nf))
    del c[:]
    op.as_list, op.a_half_list = op.compute_aem_list()
    if order[1] > 0:
        s_as = [x[1] for x in c if x[0] == "a_s"]
        s_a = [x[1] for x in c if x[0] == "a"]
        nodes = np.geomspace(want0, want1, its + 1)
        if len(s_as) != its + 1 or not np.allclose(s_as, nodes, rtol=1e-10):
            bad.append("a_s nodes %r, expected geometric %r" % (s_as, nodes.tolist()))
        mids = [(nodes[k] + nodes[k + 1]) / 2 for k in range(its)]
        if len(s_a) != its or not np.allclose(s_a, mids, rtol=1e-10):
            bad.append("half-step couplings asked at %r, expected the step midpoints %r" % (s_a, mids))
    if any(x[2] != op.nf for x in c):
        bad.append("compute_aem_list asked the couplings with nf_to = %r, documented: the segment's nf = %r" % ([x[2] for x in c], op.nf))
    kw = op.quad_ker((10200, 0), -1.0, ("areas",)).keywords
    if abs(kw["Lsv"] - math.log(xi)) > 1e-12:
        bad.append("Lsv = %r handed to the kernel, documented ln(xif2) = %r" % (kw["Lsv"], math.log(xi)))
    if kw["mu2_from"] != q0 or kw["mu2_to"] != q1 or kw["is_threshold"] != thr or kw["sv_mode"] != svmod.Modes[mode] or kw["ev_op_iterations"] != its:
        bad.append("quad_ker arguments not handed through: %r" % {k: kw[k] for k in ("mu2_from", "mu2_to", "is_threshold", "sv_mode", "ev_op_iterations")})
    return {"detail": "; ".join(bad)} if bad else None
