"""Wiring of eko.evolution_operator.Operator around the Mellin kernels (used by C51, C12, C14):
the real Operator.mu2 / compute_a / compute_aem_list / quad_ker run on an object built without __init__, with symbolic scales
and a recording couplings manager.  What is decided is which scales the couplings are asked for and which arguments reach
quad_ker_ad -- the assumptions the kernel-level checks make about their caller."""
from fractions import Fraction

from .kern import *  # noqa
from symx.solver import explore, prove_zero
from symx import solver as S
from symx import harness as H

MOD = "harness.opwire"


class _Couplings:
    def __init__(self, running):
        self.alphaem_running = running
        self.calls = []

    def a(self, scale_to, nf_to=None):
        k = len(self.calls)
        self.calls.append(("a", scale_to, nf_to))
        return (SR.var("as_%d" % k), SR.var("aem_%d" % k))

    def a_s(self, scale_to, nf_to=None):
        k = len(self.calls)
        self.calls.append(("a_s", scale_to, nf_to))
        return SR.var("as_%d" % k)


class _Obj:
    pass


def _operator(eo, order, mode, thr, its, running):
    from eko.io.types import ScaleVariationsMethod

    enumv = {"unvaried": None, "exponentiated": ScaleVariationsMethod.EXPONENTIATED, "expanded": ScaleVariationsMethod.EXPANDED}[mode]
    op = object.__new__(eo.Operator)
    q0, q1, xi = SR.var("q2_from"), SR.var("q2_to"), SR.var("xif2")
    for x in (q0, q1, xi):
        assume(x, ">0")
    op.config = {"xif2": xi, "ModSV": enumv, "ev_op_iterations": its, "ev_op_max_order": (10, 0), "order": order,
                 "n3lo_ad_variation": (0,) * 7, "polarized": False, "time_like": False, "use_fhmruvv": False, "method": "iterate-exact"}
    op.q2_from, op.q2_to, op.is_threshold, op.nf = q0, q1, thr, 4
    op.order = tuple(order)
    man = _Obj()
    man.couplings = _Couplings(running)
    intd = _Obj()
    intd.log = True
    man.interpolator = intd
    op.managers = man
    op.alphaem_running = running
    return op, q0, q1, xi


def case_wiring(log, pid, order, mode, thr, its=1, running=False):
    eo = sym_module("eko.evolution_operator")
    eo.np.geomspace_roots = True  # interior geometric nodes as algebraic root atoms
    log.encode(eo.Operator.mu2, eo.Operator.compute_a, eo.Operator.compute_aem_list, eo.Operator.quad_ker)
    rp = (MOD, "replay_wiring", {"order": list(order), "mode": mode, "thr": thr, "its": its, "running": running})
    key = "Operator.wiring:%s" % mode
    tag = "order %r, %s, is_threshold=%s, %d iteration(s), alphaem_running=%s" % (order, mode, thr, its, running)
    log.register_replay(key, rp, _sampler)

    def Z(x, what):
        v = prove_zero(Cx.lift(x), "%s [%s]" % (what, tag))
        log.decide(v, key=key, replay=rp, sampler=_sampler)

    def run():
        op, q0, q1, xi = _operator(eo, order, mode, thr, its, running)
        want0 = q0 * xi if mode == "exponentiated" else q0
        want1 = q1 * xi if (mode == "exponentiated" or (mode == "expanded" and not thr)) else q1
        cp = op.managers.couplings
        op.a = op.compute_a()
        c = list(cp.calls)
        if len(c) != 2:
            raise EngineError("compute_a made %d coupling calls" % len(c))
        Z(c[0][1] - want0, "compute_a asks the initial coupling at the documented scale")
        Z(c[1][1] - want1, "compute_a asks the final coupling at the documented scale")
        if c[0][2] != op.nf or c[1][2] != op.nf:
            Z(SR(1), "compute_a passes nf_to of the segment")
        del cp.calls[:]
        op.as_list, op.a_half_list = op.compute_aem_list()
        calls = list(cp.calls)
        if order[1] == 0:
            Z(SR(len(calls)), "no coupling call in compute_aem_list without QED")
            Z(op.as_list[0] - op.a[0][0], "as_list[0] is the initial a_s")
            Z(op.as_list[-1] - op.a[1][0], "as_list[-1] is the final a_s")
        else:
            s_as = [x for x in calls if x[0] == "a_s"]
            s_a = [x for x in calls if x[0] == "a"]
            if len(s_as) != its + 1 or len(s_a) != its:
                raise EngineError("compute_aem_list: %d a_s calls, %d a calls for %d iterations" % (len(s_as), len(s_a), its))
            Z(s_as[0][1] - want0, "first a_s node at the scale of the initial coupling (shifted renormalization scale)")
            Z(s_as[-1][1] - want1, "last a_s node at the scale of the final coupling (shifted renormalization scale)")
            for k in range(1, its):
                Z(s_as[k][1] * s_as[k][1] - s_as[k - 1][1] * s_as[k + 1][1], "a_s nodes geometric: node_%d^2 == node_%d node_%d" % (k, k - 1, k + 1))
            for k in range(its):
                Z(s_a[k][1] * 2 - (s_as[k][1] + s_as[k + 1][1]), "half-step couplings of step %d at the arithmetic mu^2 midpoint of that step" % k)
                Z(op.a_half_list[k][0] - SR.var("as_%d" % [i for i, x in enumerate(calls) if x is s_a[k]][0]), "a_half[%d][0] is the a_s returned for that midpoint" % k)
            for x in calls:
                if x[2] != op.nf:
                    Z(SR(1), "compute_aem_list passes nf_to of the segment")
        part = op.quad_ker((10200, 0), SR.var("logx"), ("areas",))
        kw = part.keywords
        Lwant = eo.np.log(xi)
        Z(kw["Lsv"] - Lwant, "quad_ker hands Lsv = ln(xif2) to the kernel")
        Z(kw["mu2_from"] - q0, "quad_ker hands mu2_from = q2_from")
        Z(kw["mu2_to"] - q1, "quad_ker hands mu2_to = q2_to")
        Z(SR(0 if kw["is_threshold"] == thr else 1), "quad_ker hands is_threshold through")
        Z(SR(0 if kw["ev_op_iterations"] == its else 1), "quad_ker hands ev_op_iterations through")
        Z(SR(0 if kw["as_list"] is op.as_list else 1), "quad_ker hands as_list through")
        Z(SR(0 if kw["a_half"] is op.a_half_list else 1), "quad_ker hands a_half through")
        Z(SR(0 if kw["alphaem_running"] == running else 1), "quad_ker hands alphaem_running through")
        import eko.scale_variations as svmod

        Z(SR(0 if kw["sv_mode"] == svmod.Modes[mode] else 1), "quad_ker hands the scale-variation mode through")
        log.twin("domain")
        log.collect_ctx()

    _r, pm = explore(run)
    log.path_stats(pm)


def case_ome_wiring(log, pid, mode, is_msbar):
    """OperatorMatrixElement: the coupling is the (nf+1)-flavour one at the matching scale (shifted by xif2 in the exponentiated scheme
    only) and quad_ker_ome receives the matching order, L, Lsv = ln xif2 and every flag unchanged."""
    eo = sym_module("eko.evolution_operator")
    om = sym_module("eko.evolution_operator.operator_matrix_element")
    import eko.scale_variations as svmod
    from eko.io.types import ScaleVariationsMethod

    log.encode(om.OperatorMatrixElement.a_s, om.OperatorMatrixElement.quad_ker)
    rp = (MOD, "replay_ome_wiring", {"mode": mode, "is_msbar": is_msbar})
    key = "OperatorMatrixElement.wiring:%s" % mode
    log.register_replay(key, rp, _sampler)
    tag = "%s, is_msbar=%s" % (mode, is_msbar)

    def Z(x, what):
        v = prove_zero(Cx.lift(x), "%s [%s]" % (what, tag))
        log.decide(v, key=key, replay=rp, sampler=_sampler)

    def run():
        enumv = {"unvaried": None, "exponentiated": ScaleVariationsMethod.EXPONENTIATED, "expanded": ScaleVariationsMethod.EXPANDED}[mode]
        op = object.__new__(om.OperatorMatrixElement)
        q2, xi, L = SR.var("q2_from"), SR.var("xif2"), SR.var("Lh")
        assume(q2, ">0")
        assume(xi, ">0")
        op.config = {"xif2": xi, "ModSV": enumv, "matching_order": (2, 0), "polarized": False, "time_like": False}
        op.q2_from = op.q2_to = q2
        op.nf, op.L, op.is_msbar, op.order = 4, L, is_msbar, (2, 0)
        op.backward_method = "token-backward"
        man = _Obj()
        man.couplings = _Couplings(False)
        intd = _Obj()
        intd.log = True
        man.interpolator = intd
        op.managers = man
        a = op.a_s
        c = man.couplings.calls
        if len(c) != 1:
            raise EngineError("OperatorMatrixElement.a_s made %d coupling calls" % len(c))
        Z(c[0][1] - (q2 * xi if mode == "exponentiated" else q2), "matching coupling asked at the matching scale (times xif2 in the exponentiated scheme only)")
        Z(SR(0 if c[0][2] == 5 else 1), "matching coupling asked with nf + 1 flavours")
        kw = op.quad_ker((200, 200), SR.var("logx"), ("areas",)).keywords
        c2 = man.couplings.calls[-1]
        Z(kw["a_s"] - SR.var("as_%d" % (len(man.couplings.calls) - 1)), "quad_ker hands the coupling it asked for to the kernel")
        Z(c2[1] - c[0][1], "quad_ker asks the coupling at the same scale as a_s")
        Z(SR(0 if c2[2] == 5 else 1), "quad_ker asks the coupling with nf + 1 flavours")
        Z(kw["L"] - L, "quad_ker hands L through")
        Z(kw["Lsv"] - om.np.log(xi), "quad_ker hands Lsv = ln(xif2)")
        Z(SR(0 if kw["order"] == (2, 0) else 1), "quad_ker hands the matching order")
        Z(SR(0 if kw["nf"] == 4 else 1), "quad_ker hands nf (flavours below the threshold)")
        Z(SR(0 if kw["sv_mode"] == svmod.Modes[mode] else 1), "quad_ker hands the scale-variation mode")
        Z(SR(0 if kw["backward_method"] == "token-backward" else 1), "quad_ker hands the inversion method")
        Z(SR(0 if kw["is_msbar"] is is_msbar else 1), "quad_ker hands is_msbar")
        Z(SR(0 if (kw["is_polarized"] is False and kw["is_time_like"] is False and kw["mode0"] == 200 and kw["mode1"] == 200) else 1), "quad_ker hands the polarised / time-like flags and the label")
        log.twin("domain")
        log.collect_ctx()

    _r, pm = explore(run)
    log.path_stats(pm)


def replay_ome_wiring(point, mode, is_msbar):
    import math
    import importlib
    from eko.io.types import ScaleVariationsMethod
    import eko.scale_variations as svmod

    om = importlib.import_module("eko.evolution_operator.operator_matrix_element")
    q2, xi = float(point.get("q2_from", 20.0)), float(point.get("xif2", 2.0))
    if not (q2 > 0 and xi > 0 and abs(xi - 1) > 1e-3):
        return None
    enumv = {"unvaried": None, "exponentiated": ScaleVariationsMethod.EXPONENTIATED, "expanded": ScaleVariationsMethod.EXPANDED}[mode]
    calls = []

    class Cp:
        def a_s(self, scale_to, nf_to=None):
            calls.append((float(scale_to), nf_to))
            return 0.021

    op = object.__new__(om.OperatorMatrixElement)
    op.config = {"xif2": xi, "ModSV": enumv, "matching_order": (2, 0), "polarized": False, "time_like": False}
    op.q2_from = op.q2_to = q2
    op.nf, op.L, op.is_msbar, op.order = 4, 0.37, is_msbar, (2, 0)
    op.backward_method = None
    man = type("M", (), {})()
    man.couplings = Cp()
    man.interpolator = type("I", (), {"log": True})()
    op.managers = man
    kw = op.quad_ker((200, 200), -1.0, None).keywords
    want = q2 * xi if mode == "exponentiated" else q2
    bad = []
    if not calls or abs(calls[-1][0] - want) > 1e-9 * want or calls[-1][1] != 5:
        bad.append("matching coupling asked at %r, documented (scale %r, nf_to 5)" % (calls, want))
    if abs(kw["Lsv"] - math.log(xi)) > 1e-12 or kw["L"] != 0.37 or kw["order"] != (2, 0) or kw["nf"] != 4 or kw["sv_mode"] != svmod.Modes[mode] or kw["is_msbar"] is not is_msbar or kw["a_s"] != 0.021:
        bad.append("quad_ker arguments: %r" % {k: kw[k] for k in ("Lsv", "L", "order", "nf", "sv_mode", "is_msbar", "a_s")})
    return {"detail": "; ".join(bad)} if bad else None


class _Stop(Exception):
    pass


class _Logger:
    def __init__(self):
        self.msgs = []

    def info(self, fmt, *a):
        self.msgs.append(fmt)
        if "computing operators" in fmt:
            raise _Stop()

    warning = debug = error = info


def case_skip(log, pid, mode, thr):
    """Operator.compute: the unity short-cut (copy_ns_ops, no integration) is taken only when the operator really is the unity:
    the evolution length is negligible and -- in the expanded scheme away from a threshold -- so is ln(xif2)."""
    eo = sym_module("eko.evolution_operator")
    log.encode(eo.Operator.compute, eo.Operator.mu2)
    rp = (MOD, "replay_skip", {"mode": mode, "thr": thr})
    key = "Operator.compute:unity-shortcut:%s" % mode
    log.register_replay(key, rp, _sampler_skip)

    def run():
        op, q0, q1, xi = _operator(eo, (3, 0), mode, thr, 1, False)
        taken = []
        op.initialize_op_members = lambda: None
        op.copy_ns_ops = lambda: taken.append(1)
        lg = _Logger()
        saved = eo.logger
        eo.logger = lg
        try:
            op.compute()
        except _Stop:
            pass
        finally:
            eo.logger = saved
        tag = "%s, is_threshold=%s" % (mode, thr)
        if taken:
            d = q0 - q1
            tol = q1 * Fraction(1, 10000) + Fraction(1, 10**7)
            v = S.prove_rel(d * d - tol * tol, "<=0", "unity short-cut taken => |q2_from - q2_to| <= 1e-7 + 1e-4 q2_to [%s]" % tag)
            log.decide(v, key=key, replay=rp, sampler=_sampler_skip)
            if mode == "expanded" and not thr:
                e = xi - 1
                v = S.prove_rel(e * e - Fraction(1, 10**8), "<=0", "unity short-cut taken in the expanded scheme away from thresholds => |xif2 - 1| <= 1e-4 [%s]" % tag)
                log.decide(v, key=key, replay=rp, sampler=_sampler_skip)
        else:
            # the integration is entered: never with exactly coinciding scales where the kernels are singular, unless the
            # scale-variation kernel has to be applied
            if not (mode == "expanded" and not thr):
                v = S.prove_rel(q0 - q1, "!=0", "integration entered => q2_from != q2_to [%s]" % tag)
                log.decide(v, key=key, replay=rp, sampler=_sampler_skip)
        log.twin("domain")
        log.collect_ctx()

    _r, pm = explore(run)
    log.path_stats(pm)


def _sampler_skip(rng):
    q0 = rnd(rng, 2, 300)
    xi = rnd(rng, 0.2, 5)
    k = rng.randrange(4)
    q1 = [q0 / xi, q0 * xi, q0, rnd(rng, 2, 300)][k]
    return {"q2_from": q0, "q2_to": q1, "xif2": xi}


def replay_skip(point, mode, thr):
    """the same on the real Operator.compute with floats"""
    import importlib
    from eko.io.types import ScaleVariationsMethod

    eo = importlib.import_module("eko.evolution_operator")
    q0, q1, xi = (float(point.get(k, d)) for k, d in (("q2_from", 40.0), ("q2_to", 10.0), ("xif2", 4.0)))
    if not (q0 > 0 and q1 > 0 and xi > 0):
        return None
    enumv = {"unvaried": None, "exponentiated": ScaleVariationsMethod.EXPONENTIATED, "expanded": ScaleVariationsMethod.EXPANDED}[mode]
    op = object.__new__(eo.Operator)
    op.config = {"xif2": xi, "ModSV": enumv, "ev_op_iterations": 1, "ev_op_max_order": (10, 0), "order": (3, 0),
                 "n3lo_ad_variation": (0,) * 7, "polarized": False, "time_like": False, "use_fhmruvv": False, "method": "iterate-exact"}
    op.q2_from, op.q2_to, op.is_threshold, op.nf, op.order = q0, q1, thr, 4, (3, 0)
    taken = []
    op.initialize_op_members = lambda: None
    op.copy_ns_ops = lambda: taken.append(1)
    lg = _Logger()
    saved = eo.logger
    eo.logger = lg
    try:
        op.compute()
    except _Stop:
        pass
    finally:
        eo.logger = saved
    if taken and abs(q0 - q1) > 1e-7 + 1e-4 * q1:
        return {"detail": "Operator.compute (%s, is_threshold=%s) returns the unity operator for q2_from=%r -> q2_to=%r (xif2=%r)" % (mode, thr, q0, q1, xi)}
    if taken and mode == "expanded" and not thr and abs(xi - 1) > 1e-4:
        return {"detail": "Operator.compute (expanded, no threshold) returns the unity operator although xif2=%r: the scale-variation kernel is dropped" % xi}
    if not taken and q0 == q1 and not (mode == "expanded" and not thr):
        return {"detail": "Operator.compute (%s) integrates over a zero-length evolution q2=%r" % (mode, q0)}
    return None


def add_cases(chk, pid, thorough, qcd=True):
    """register the wiring cases on a Check"""
    for mode in ("unvaried", "exponentiated", "expanded") if qcd else ():
        for thr in (False, True):
            chk.case("wiring.qcd.%s.thr%d" % (mode, thr), case_wiring, pid=pid, order=(3, 0), mode=mode, thr=thr)
            chk.case("compute.skip.%s.thr%d" % (mode, thr), case_skip, pid=pid, mode=mode, thr=thr)
        chk.case("wiring.ome.%s" % mode, case_ome_wiring, pid=pid, mode=mode, is_msbar=(mode == "expanded"))
    for its in ((1, 2, 3) if thorough else (2, 3)):
        for running in (True, False):
            chk.case("wiring.qed.its%d.run%d" % (its, running), case_wiring, pid=pid, order=(2, 1), mode="unvaried", thr=False, its=its, running=running)
    for mode in ("exponentiated", "expanded") if qcd else ():
        for thr in (False, True):
            chk.case("wiring.qed.%s.thr%d" % (mode, thr), case_wiring, pid=pid, order=(3, 1), mode=mode, thr=thr, its=2, running=False)


def _sampler(rng):
    return {"q2_from": rnd(rng, 2, 30), "q2_to": rnd(rng, 40, 400), "xif2": rnd(rng, 0.3, 3)}


def replay_wiring(point, order, mode, thr, its, running):
    """the same on the real module with floats"""
    import math
    import importlib
    import numpy as np
    from eko.io.types import ScaleVariationsMethod
    import eko.scale_variations as svmod

    eo = importlib.import_module("eko.evolution_operator")
    q0, q1, xi = (float(point.get(k, d)) for k, d in (("q2_from", 5.0), ("q2_to", 100.0), ("xif2", 2.0)))
    if not (q0 > 0 and q1 > 0 and xi > 0 and abs(q0 - q1) > 1e-6 and abs(xi - 1) > 1e-3):
        return None
    enumv = {"unvaried": None, "exponentiated": ScaleVariationsMethod.EXPONENTIATED, "expanded": ScaleVariationsMethod.EXPANDED}[mode]

    class Cp:
        alphaem_running = running

        def __init__(self):
            self.calls = []

        def a(self, scale_to, nf_to=None):
            self.calls.append(("a", float(scale_to), nf_to))
            return (0.02 + 1e-3 * len(self.calls), 0.0007 + 1e-5 * len(self.calls))

        def a_s(self, scale_to, nf_to=None):
            self.calls.append(("a_s", float(scale_to), nf_to))
            return 0.02 + 1e-3 * len(self.calls)

    op = object.__new__(eo.Operator)
    op.config = {"xif2": xi, "ModSV": enumv, "ev_op_iterations": its, "ev_op_max_order": (10, 0), "order": tuple(order),
                 "n3lo_ad_variation": (0,) * 7, "polarized": False, "time_like": False, "use_fhmruvv": False, "method": "iterate-exact"}
    op.q2_from, op.q2_to, op.is_threshold, op.nf, op.order = q0, q1, thr, 4, tuple(order)
    man = type("M", (), {})()
    man.couplings = Cp()
    man.interpolator = type("I", (), {"log": True})()
    op.managers = man
    op.alphaem_running = running
    bad = []
    want0 = q0 * xi if mode == "exponentiated" else q0
    want1 = q1 * xi if (mode == "exponentiated" or (mode == "expanded" and not thr)) else q1
    op.a = op.compute_a()
    c = man.couplings.calls
    if len(c) != 2 or abs(c[0][1] - want0) > 1e-9 * want0 or abs(c[1][1] - want1) > 1e-9 * want1:
        bad.append("compute_a asked the couplings at %r, documented (%r, %r)" % ([x[1] for x in c], want0, want1))
    del c[:]
    op.as_list, op.a_half_list = op.compute_aem_list()
    if order[1] > 0:
        s_as = [x[1] for x in c if x[0] == "a_s"]
        s_a = [x[1] for x in c if x[0] == "a"]
        nodes = np.geomspace(want0, want1, its + 1)
        if len(s_as) != its + 1 or not np.allclose(s_as, nodes, rtol=1e-10):
            bad.append("a_s nodes %r, expected geometric %r" % (s_as, nodes.tolist()))
        mids = [(nodes[k] + nodes[k + 1]) / 2 for k in range(its)]
        if len(s_a) != its or not np.allclose(s_a, mids, rtol=1e-10):
            bad.append("half-step couplings asked at %r, expected the step midpoints %r" % (s_a, mids))
    kw = op.quad_ker((10200, 0), -1.0, ("areas",)).keywords
    if abs(kw["Lsv"] - math.log(xi)) > 1e-12:
        bad.append("Lsv = %r handed to the kernel, documented ln(xif2) = %r" % (kw["Lsv"], math.log(xi)))
    if kw["mu2_from"] != q0 or kw["mu2_to"] != q1 or kw["is_threshold"] != thr or kw["sv_mode"] != svmod.Modes[mode] or kw["ev_op_iterations"] != its:
        bad.append("quad_ker arguments not handed through: %r" % {k: kw[k] for k in ("mu2_from", "mu2_to", "is_threshold", "sv_mode", "ev_op_iterations")})
    return {"detail": "; ".join(bad)} if bad else None
