"""C38  Failed or interrupted runs never leave a corrupt or partial archive.

Real code executed symbolically over the in-memory file-system model (harness/iofs.py):
eko.io.struct.EKO.create/Builder.build/Builder.__exit__/EKO.edit/EKO.__exit__/EKO.close/EKO.dump,
eko.io.inventory.Inventory.__setitem__, eko.io.metadata.Metadata.update, eko.io.paths.InternalPaths.bootstrap,
eko.runner.managed.solve (with the numerical kernels stubbed).

Symbolic: the crash index k1 (thorough: k1 and k2, a second fault in the retry), a z3 Int compared with
the running number of every file-system primitive (`if k == step: raise`), user-code steps and
computation steps included; payload tags are z3 Ints.  Every `k == step` forks, so a single explore()
visits every crash point; on each path the solver decides

    path condition on k  =>  archive in {absent (new) | previous complete content (edit) | new complete content}
    no crash             =>  archive == new complete content as given by a plain-dict oracle

and, once, that the explored path conditions cover every k of the domain.  After an allowed failure the
same session is run again on the same path (without faults, or with the second fault) and must succeed.
"""
import z3

from .common import *  # noqa
from symx.solver import explore, prove_formula, ZInt, ZBool, assume_z3, symbool_to_z3
from symx.val import EngineError
from symx import harness as H
from . import iofs
from .iofs import (FS, Binder, ModelWorld, RealWorld, MPath, Tar, YamlDoc, OpBytes, DIR, KEYS, zeq, scratch, SESSIONS,
                   InjectedFault, UserAbort)

MOD = "harness.C38"
REAL_TAGS = {"a": 1, "b": 2, "c": 3, "d": 4, "j": 7, "e": 8, "m": 9}
BIG = 100000

SCEN = {
    # scenario -> (pre_ops for the previous archive, body ops)
    "new": ([], [("set", 0, "a", False), ("user", 1), ("set", 1, "b", True), ("xgrid",), ("user", 2)]),
    "edit": ([("set", 0, "a", False), ("set", 1, "b", True)],
             [("set", 0, "c", False), ("user", 1), ("set", 2, "d", False), ("xgrid",), ("user", 2)]),
    "solve": ([], []),
}
SKELETON = [".", "./metadata.yaml", "./operator.yaml", "./theory.yaml", "./operators", "./parts", "./parts/matching", "./recipes",
            "./recipes/matching"]


def _model_tags():
    return {n: ZInt("tag_" + n) for n in REAL_TAGS}


# ---------------------------------------------------------------------------
# stubs of the numerical kernels for managed.solve on the model
# ---------------------------------------------------------------------------
class _SolveStubs:
    """eko.runner.managed's globals `parts` and `operators`: the kernels (QUADPACK, einsum on payloads)
    are computation steps returning opaque payloads; recipes.create and operators.retrieve stay real."""

    def __init__(self, fs, tags):
        self.fs = fs
        self.tags = tags
        self.saved = []

    def __enter__(self):
        import types
        from eko.runner import managed, operators as real_ops

        fs, tags = self.fs, self.tags

        def evolve(eko, recipe):
            fs.step("compute", "evolve", exc=UserAbort)
            return iofs.MOperator(tags["e"], True)

        def match(eko, recipe):
            fs.step("compute", "match", exc=UserAbort)
            return iofs.MOperator(tags["m"], True)

        def join(components):
            fs.step("compute", "join", exc=UserAbort)
            assert all(c is not None for c in components)
            return iofs.MOperator(tags["j"], True)

        self.saved = [(managed, "parts", managed.parts), (managed, "operators", managed.operators)]
        managed.parts = types.SimpleNamespace(evolve=evolve, match=match)
        managed.operators = types.SimpleNamespace(retrieve=real_ops.retrieve, join=join)
        return self

    def __exit__(self, *a):
        for m, n, v in self.saved:
            setattr(m, n, v)
        return False


# ---------------------------------------------------------------------------
# the plain-dict oracle for "new complete content"
# ---------------------------------------------------------------------------
def expected_dict(scenario, tags, prev_dict, ops):
    d = dict(prev_dict)
    for o in ops:
        if o[0] == "set":
            d[KEYS[o[1]]] = (tags[o[2]], bool(o[3]))
    if scenario == "solve":
        _th, opc = iofs.solve_cards()
        for ep in opc.evolgrid:
            d[(float(ep[0]), int(ep[1]))] = (tags["j"], True)
    return d


def complete_with(cur, D, scenario, xgrid_changed):
    """z3 formula: the archive `cur` is a complete tar whose operators are exactly the dict D
    (header text = the YAML of the key, payload tag = D[key]), with the fixed skeleton around."""
    import yaml
    from eko.io import inventory
    from eko.io.items import Target

    if not isinstance(cur, Tar) or not cur.complete:
        return z3.BoolVal(False)
    names = set(cur.members)
    want = set(SKELETON)
    conj = []
    for ep, (tag, err) in D.items():
        t = Target.from_ep(ep)
        stem = inventory.encode(t)
        hn = "./operators/" + stem + ".yaml"
        on = "./operators/" + stem + (".npz.lz4" if err else ".npy.lz4")
        want |= {hn, on}
        h = cur.members.get(hn)
        o = cur.members.get(on)
        if not isinstance(h, YamlDoc) or not isinstance(o, OpBytes):
            return z3.BoolVal(False)
        conj.append(z3.BoolVal(yaml.safe_load(h.text) == {"scale": ep[0], "nf": ep[1]}))
        conj.append(zeq(o.tag, tag))
        conj.append(z3.BoolVal(bool(o.err) == bool(err)))
    if scenario == "solve":
        ok = want <= names and all(n.startswith(("./recipes/", "./parts/")) for n in names - want)
    else:
        ok = names == want
    if not ok:
        return z3.BoolVal(False)
    md = cur.members.get("./metadata.yaml")
    if not isinstance(md, YamlDoc) or md.text is None:
        return z3.BoolVal(False)
    raw = yaml.safe_load(md.text)
    if not isinstance(raw, dict) or "xgrid" not in raw:
        return z3.BoolVal(False)
    grid = list(raw["xgrid"]["grid"]) if isinstance(raw["xgrid"], dict) else list(raw["xgrid"])
    wantgrid = list(iofs.new_xgrid().raw) if xgrid_changed else list(iofs.example_cards()[1].xgrid.raw)
    conj.append(z3.BoolVal([float(x) for x in grid] == [float(x) for x in wantgrid]))
    return z3.And([z3.BoolVal(True)] + conj)


def _phase(fs):
    """Where (in the real code) the last injected crash happened: used as the violation key."""
    if not fs.hit:
        return "no-crash"
    h = fs.hit[-1]
    if h["kind"].startswith("tar-") or (h["kind"] in ("unlink", "replace") and ".tar" in h["rel"]):
        return "EKO.close/" + h["kind"]
    if h["kind"] == "rmtree":
        return "EKO.close/rmtree"
    return h["kind"]


# ---------------------------------------------------------------------------
# fall-back replays: real-side fault points that do not depend on the model's step numbering.  They are registered at
# the start of every case, so that a model/engine exception under a code change still ends in a replayed verdict.
GENERIC_FAULTS = [
    [{"kind": "tar-close", "rel": "*", "nth": 1}, {"kind": "tar-add", "rel": ".", "nth": 1}, {"kind": "tar-open", "rel": "*", "nth": 1},
     {"kind": "replace", "rel": "*", "nth": 1}],
    [{"kind": "tar-add", "rel": "./theory.yaml", "nth": 1}, {"kind": "tar-close", "rel": "*", "nth": 2}, {"kind": "tar-add", "rel": ".", "nth": 2},
     {"kind": "tar-add", "rel": "./theory.yaml", "nth": 2}],
    [{"kind": "compute", "rel": "join", "nth": 2}, {"kind": "compute", "rel": "join", "nth": 1}, {"kind": "compute", "rel": "join", "nth": 3},
     {"kind": "compute", "rel": "evolve", "nth": 1}],
    [{"kind": "user", "rel": "u1", "nth": 1}, {"kind": "user", "rel": "u2", "nth": 1}, {"kind": "rmtree", "rel": "*", "nth": 1},
     {"kind": "unlink", "rel": "*", "nth": 1}],
    [None, None, None, None],
]


def _cycle():
    n = [0]

    def sampler(rng):
        n[0] += 1
        return {"i": n[0] - 1}

    return sampler


def _register_fallbacks(log, scenario):
    for g in range(len(GENERIC_FAULTS)):
        log.register_replay("%s:fallback" % scenario, (MOD, "replay_generic", {"scenario": scenario, "group": g}), _cycle())


def replay_generic(point, scenario, group):
    f = GENERIC_FAULTS[group][int(point.get("i", 0)) % len(GENERIC_FAULTS[group])]
    return replay_session(point, scenario, [f])


def case_session(log, scenario, nfaults=1, k1lo=0, k1hi=BIG):
    """k1lo..k1hi: the part of the domain of the first crash index handled by this case (parallelism only)."""
    log.encode(*iofs.encoded_functions())
    if scenario == "solve":
        from eko.runner import managed, recipes, operators as rops

        log.encode(managed.solve, recipes.create, rops.retrieve)
    pre_ops, ops = SCEN[scenario]
    _register_fallbacks(log, scenario)
    covered = []
    _dec = iofs.Decider(log)

    def decide(v, key, kw):
        return _dec(v, key=key, replay=(MOD, "replay_session", kw))

    def run():
        ks = [ZInt("k%d" % (i + 1)) for i in range(nfaults)]
        for k in ks:
            assume_z3(k.e >= 0)
            assume_z3(k.e <= BIG)
        assume_z3(ks[0].e >= k1lo)
        assume_z3(ks[0].e <= k1hi)
        fs = FS(faults=ks)
        tags = _model_tags()
        w = ModelWorld(fs, tags)
        xg = any(o[0] == "xgrid" for o in ops)
        with Binder(fs), (_SolveStubs(fs, tags) if scenario == "solve" else iofs.contextlib.nullcontext()):
            path = str(w.path)
            prev_dict = {}
            if scenario == "edit":
                fs.begin_session(armed=False)
                iofs.session_new(w, pre_ops)
                prev_dict = expected_dict("new", tags, {}, pre_ops)
            prev = fs.files.get(path)
            prev = prev.copy() if prev is not None else None
            D = expected_dict(scenario, tags, prev_dict, ops)
            for attempt in range(nfaults + 1):
                fs.begin_session(armed=attempt < nfaults)
                exc = None
                try:
                    SESSIONS[scenario](w, ops)
                except (InjectedFault, UserAbort) as e:
                    exc = e
                fs.end_session()
                cur = fs.files.get(path)
                f_new = complete_with(cur, D, scenario, xg)
                if prev is None:
                    f_prev = z3.BoolVal(cur is None)
                else:
                    f_prev = zeq(cur, prev) if isinstance(cur, Tar) else z3.BoolVal(False)
                faults = [dict(h) for h in fs.hit]
                kw = {"scenario": scenario, "faults": faults + ([None] if exc is None else [])}
                where = "; ".join("fault %d at step %d %s %s#%d" % (i + 1, h["step"], h["kind"], h["rel"], h["nth"]) for i, h in enumerate(fs.hit)) or "no fault"
                if exc is None:
                    v = prove_formula(f_new, "[%s] %s, run %d completes: archive == new complete content (plain-dict oracle)" % (scenario, where, attempt + 1))
                    decide(v, "%s:result:%s" % (scenario, _phase(fs) if attempt else "no-crash"), kw)
                    break
                v = prove_formula(z3.Or(f_prev, f_new), "[%s] %s: archive is %s or the new complete content" % (
                    scenario, where, "absent" if prev is None else "the previous complete content"))
                ok = decide(v, "%s:%s" % (scenario, _phase(fs)), kw)
                if not ok:
                    break
                if z3.is_true(z3.simplify(f_new)) and not z3.is_true(z3.simplify(f_prev)):
                    break  # fault after the archive was completed (rmtree): accepted, nothing to retry
            else:
                raise EngineError("more failures than faults")
            log.twin("crash index domain")
        covered.append(z3.And([z3.BoolVal(True)] + [symbool_to_z3(b) for b in ctx.path.pc]))
        return fs.nstep

    res, pm = explore(run, max_paths=20000, timeout_ms=5000)
    log.path_stats(pm)
    # the explored paths exhaust the crash-index domain
    ctx.reset()
    ks = [z3.Int("k%d" % (i + 1)) for i in range(nfaults)]
    dom = [z3.And(k >= 0, k <= BIG) for k in ks] + [ks[0] >= k1lo, ks[0] <= k1hi]
    v = prove_formula(z3.Or(covered), "[%s] the %d explored paths cover every crash index %d <= k1 <= %d, 0 <= k2 <= %d (%d faults)" % (scenario, len(covered), k1lo, k1hi, BIG, nfaults),
                      assumptions=dom, timeout_ms=60000)
    log.decide(v, key="%s:coverage" % scenario)
    _dec.finish()


# ---------------------------------------------------------------------------
# translator validation: model vs real file system on the same scripted histories
# ---------------------------------------------------------------------------
_CMP_KINDS = ("create", "mkdir", "tar-open", "tar-add", "tar-close", "rmtree", "tar-read", "extractall", "mkdtemp", "unlink", "replace")


def _norm_real_trace(trace):
    out = []
    skip = False
    inx = False
    for kind, p in trace:
        if kind not in _CMP_KINDS:
            continue
        p = p or ""
        if kind == "rmtree":
            out.append((kind, "<tmp>"))
            skip = True
            continue
        if skip and kind in ("unlink", "rmdir") and "/" not in p.strip("/"):
            continue  # the unlink/rmdir calls rmtree makes internally (dir_fd relative names)
        skip = False
        if kind == "extractall":
            inx = True
        elif inx and kind == "mkdir" and ("/./" in p or p.endswith("/.")):
            continue  # directories made by TarFile.extractall itself
        else:
            inx = False
        if kind == "mkdtemp":
            out.append((kind, ""))
            continue
        if "/eko-" in p:
            tail = p.split("/eko-", 1)[1]
            rel = tail.split("/", 1)[1] if "/" in tail else "<tmp>"
            if kind == "mkdir" and rel == "<tmp>":
                continue  # mkdtemp's own os.mkdir
            out.append((kind, rel))
        elif kind == "tar-add":
            out.append((kind, p))
        else:
            out.append((kind, p.rsplit("/", 1)[-1]))
    return out


def _hook_real_compute(fault):
    """make the nth call of the real eko.runner.parts.evolve/match or operators.join raise"""
    import contextlib
    from eko.runner import parts, operators as rops

    @contextlib.contextmanager
    def cm():
        tgt = {"evolve": (parts, "evolve"), "match": (parts, "match"), "join": (rops, "join")}[fault["rel"]]
        real = getattr(*tgt)
        n = [0]

        def f(*a, **k):
            n[0] += 1
            if n[0] == fault["nth"]:
                raise UserAbort("computation step %s #%d raised" % (fault["rel"], n[0]))
            return real(*a, **k)

        setattr(tgt[0], tgt[1], f)
        try:
            yield
        finally:
            setattr(tgt[0], tgt[1], real)

    return cm()


def _model_run(scenario, fault_steps):
    """concrete run of the model with crashes at the given step numbers; returns (fs, outcomes)."""
    pre_ops, ops = SCEN[scenario]
    fs = FS(faults=list(fault_steps))
    w = ModelWorld(fs, REAL_TAGS)
    outs = []
    with Binder(fs), (_SolveStubs(fs, REAL_TAGS) if scenario == "solve" else iofs.contextlib.nullcontext()):
        if scenario == "edit":
            fs.begin_session(armed=False)
            iofs.session_new(w, pre_ops)
        traces = []
        for attempt in range(max(1, len(fault_steps))):
            fs.begin_session(armed=attempt < len(fault_steps))
            exc = None
            try:
                SESSIONS[scenario](w, ops)
            except Exception as e:  # noqa
                exc = e
            fs.end_session()
            cur = fs.files.get(str(w.path))
            outs.append({"exc": exc, "cur": cur.copy() if cur is not None else None})
            traces.append(list(fs.trace))
            if exc is None:
                break
    return fs, outs, traces


def validate_model(log, scenarios=("new", "edit", "solve")):
    import tarfile

    for scenario in scenarios:
        pre_ops, ops = SCEN[scenario]
        fs, outs, traces = _model_run(scenario, [])
        mtrace = [(k, r) for k, r in traces[-1] if k in _CMP_KINDS]
        with scratch() as d:
            w = RealWorld(d / "out.tar", REAL_TAGS)
            if scenario == "edit":
                iofs.session_new(w, pre_ops)
            with iofs.Injector(None) as inj:
                SESSIONS[scenario](w, ops)
            rtrace = _norm_real_trace(inj.trace)
            rnames = tarfile.open(d / "out.tar").getnames()
        mnames = list(outs[-1]["cur"].members)
        if rnames != mnames:
            log.inconclusive.append("translator validation (%s): archive members differ: model %r real %r" % (scenario, mnames, rnames))
        if rtrace != mtrace:
            diff = [(i, a, b) for i, (a, b) in enumerate(zip(mtrace, rtrace)) if a != b][:3]
            log.inconclusive.append("translator validation (%s): primitive sequences differ (model %d, real %d steps) first diffs %r" % (scenario, len(mtrace), len(rtrace), diff))
        log.validate()
        # crash outcomes at a spread of steps
        nsteps = len(traces[-1])
        first = fs.nstep - nsteps
        picks = sorted({first + 1 + (i * (nsteps - 1)) // 9 for i in range(10)} | {first + i for i, (k, _r) in enumerate(traces[-1], 1) if k.startswith("tar-") or k in ("unlink", "rmtree", "replace")})
        for s in picks:
            fs2, outs2, _t = _model_run(scenario, [s])
            if not fs2.hit:
                continue
            h = fs2.hit[0]
            cur = outs2[0]["cur"]
            mstate = ("absent",) if cur is None else ("tar", list(cur.members), cur.complete)
            with scratch() as d:
                _prev, _pc, recs = iofs.run_real(scenario, ops, pre_ops, [dict(h)], REAL_TAGS, d, compute_hook=_hook_real_compute)
            r = recs[0]
            if not r["fired"] or r["exc"] is None:
                log.inconclusive.append("translator validation (%s): fault %r did not fire on the real file system" % (scenario, h))
                continue
            if not r["exists"]:
                rstate = ("absent",)
            elif r["state"][0] == "tar":
                rstate = ("tar", r["state"][1], bool(r["eof"]))
            elif r["size"] == 0:
                rstate = ("tar", [], False)  # created, nothing flushed yet
            else:
                rstate = r["state"]
            if rstate != mstate:
                log.inconclusive.append("translator validation (%s): after fault %r model archive %r but real %r" % (scenario, h, mstate, rstate))
            log.validate()


def case_validate(log):
    validate_model(log)


# ---------------------------------------------------------------------------
# replay: the real, unpatched eko on the real file system with the real primitive made to raise
# ---------------------------------------------------------------------------
def replay_session(point, scenario, faults):
    pre_ops, ops = SCEN[scenario]
    tags = REAL_TAGS
    prev_dict = iofs.dict_after({}, pre_ops, tags) if scenario == "edit" else {}
    D = iofs.dict_after(prev_dict, ops, tags)
    if scenario == "solve":
        _th, opc = iofs.solve_cards()
        want_keys = {(float(a), int(b)) for a, b in opc.evolgrid}
    with scratch() as d:
        prev_sha, prev_content, recs = iofs.run_real(scenario, ops, pre_ops, faults, tags, d, compute_hook=_hook_real_compute)
        for i, (f, r) in enumerate(zip(faults, recs)):
            def is_new_complete():
                if not r["exists"] or not r["eof"] or r["content"] is None:
                    return False
                if scenario == "solve":
                    return set(r["content"]) == want_keys
                return r["content"] == D

            if f is None:
                # the run was not disturbed: it must complete and leave the new complete content
                if r["exc"] is not None:
                    return {"detail": "[%s] run %d (no fault injected, after faults %r) failed with %s: %s" % (scenario, i + 1, faults[:i], type(r["exc"]).__name__, r["exc"])}
                if not is_new_complete():
                    return {"detail": "[%s] run %d completed but the archive content is %r, plain-dict oracle %r" % (scenario, i + 1, r["content"], D)}
                return None
            if not r["fired"]:
                return None  # the fault did not fire: not reproduced
            if r["exc"] is None:
                # the primitive did raise, the session swallowed it and reported success: then the archive must be the new complete content
                if is_new_complete():
                    continue
                st = r["state"]
                desc = "absent" if st[0] == "absent" else ("%d members %r, end-of-archive marker %s" % (len(st[1]), st[1][:6], r["eof"]) if st[0] == "tar" else repr(st))
                return {"detail": "[%s] injected fault %s %s#%d was raised by the real primitive but the session completed without an error; the archive it left is: %s (content keys %r); "
                                  "a session that reports success must leave the new complete content"
                                  % (scenario, f["kind"], f["rel"], f["nth"], desc, None if r["content"] is None else sorted(map(str, r["content"]))[:6])}
            if scenario in ("new", "solve"):
                ok_prev = not r["exists"]
            else:
                ok_prev = r["sha"] == prev_sha
            if ok_prev or is_new_complete():
                continue
            st = r["state"]
            desc = "absent" if st[0] == "absent" else ("%d members %r, end-of-archive marker %s" % (len(st[1]), st[1][:6], r["eof"]) if st[0] == "tar" else repr(st))
            after = ""
            try:
                SESSIONS[scenario](RealWorld(d / "out.tar", tags), ops)
                after = "; a subsequent run on the same path succeeds"
            except BaseException as e:  # noqa
                after = "; a subsequent run on the same path fails with %s" % type(e).__name__
            return {"detail": "[%s] session failed by injected fault %s %s#%d (%s); afterwards the archive is: %s; expected %s%s"
                    % (scenario, f["kind"], f["rel"], f["nth"], type(r["exc"]).__name__, desc,
                       "no file" if scenario != "edit" else "the previous bytes (sha %s..., now %s)" % (prev_sha[:10], (r["sha"] or "absent")[:10]), after)}
    return None


# ---------------------------------------------------------------------------
def main():
    chk = H.Check("C38")
    chk.bounds = [
        "sessions: (new) EKO.create + build + 2 operator stores + xgrid/metadata update + close; (edit) EKO.edit of a 2-operator archive, one overwrite, one new "
        "operator, metadata update, close; (solve) eko.runner.managed.solve of the example cards with three evolution points in two flavour-number schemes "
        "(4 evolution recipes + 1 matching, 3 joined operators: faults after the first stored operator are crash points like any other)",
        "crash index k1 symbolic over ALL numbered primitives of the session (mkdtemp, create/truncate, write, mkdir, unlink, tar open / add-member / close, extractall, "
        "rmtree, replace) plus user-code steps and computation steps (parts.evolve/match, operators.join); thorough tier: a second symbolic index k2 in the retried session",
        "a fault is an exception raised *before* the primitive takes effect (truncate and write of a file are separate steps; tar members are separate steps; "
        "the finalisation of a tar file -- end-of-archive blocks, flush, close -- is one step acting on the open file wherever a rename has moved it; "
        "TarFile.__exit__ on an exception closes without the end-of-archive blocks)",
        "after an allowed failure the session is retried on the same path and must complete with the plain-dict content",
    ]
    chk.out_of_claim = [
        "power loss / kill -9 (no exception delivered), torn writes inside a single write() call, fsync/durability",
        "partial rmtree / partial extractall of the *temporary* directory (single steps in the model; they never touch the archive)",
        "a fault in the final rmtree after the archive was completely written leaves the new complete archive (accepted by the goal as in DESIGN.md)",
        "npy/lz4/tar byte formats (payloads are opaque tags); numerical content of the computed operators",
        "leftover temporary directories under /tmp after a failure",
    ]
    chk.stubs = [
        "pathlib.Path / open / tarfile / shutil / tempfile rebound to the in-memory model (harness/iofs.py) in the globals of eko.io.struct, inventory, metadata, paths, raw",
        "yaml: concrete documents through the real PyYAML both ways",
        "eko.io.items.Operator.save/load -> opaque tag write/read",
        "managed.solve: parts.evolve, parts.match, operators.join replaced by computation steps returning opaque payloads (recipes.create, operators.retrieve, load_recipes real)",
    ]
    chk.assumptions = ["single process; nobody else touches the archive path or the temporary directory"]
    tier = H.tier()
    iofs.preload()
    for sc in ("new", "edit", "solve"):
        chk.case("single.%s" % sc, case_session, scenario=sc, nfaults=1)
    chk.case("validate", case_validate)
    if tier == "thorough":
        cuts = [0, 10, 20, 30, 40, 50, 60, 70, 80, 90, 100, BIG + 1]
        for sc in ("new", "edit", "solve"):
            for lo, hi in zip(cuts[:-1], cuts[1:]):
                chk.case("pairs.%s.k1_%d_%d" % (sc, lo, hi - 1), case_session, scenario=sc, nfaults=2, k1lo=lo, k1hi=hi - 1)
    return chk.run()


if __name__ == "__main__":
    import sys

    sys.exit(main())
