"""C51  Scale-varied EKOs agree with the central EKO to the working order (Mellin-space core).

Real functions executed: Operator.mu2 (symbolic scales), evolution_operator.quad_ker.quad_ker_qcd (kernel assembly: anomalous
dimensions stubbed by symbols, everything below real: scale_variations.{exponentiated.gamma_variation, expanded.*_variation},
kernels.{non_singlet,singlet}.dispatcher ...), on jets a = lam*alpha.

The couplings the runner hands to the kernel are a(mu2[0]), a(mu2[1]) with mu2 from Operator.mu2; the harness expresses
a(xi^2 mu^2) through a(mu^2) by the series solution of da/dlnmu^2 = -sum_k beta_k a^(k+2) over ln xi^2 = L (built here,
not copied from the code).

Goals at order n:   K_sv(alpha1) solves lam*[dK/da1 - gamma(a1)/beta(a1) K] = O(lam^n) in the *central* coupling a1 and
K_sv(alpha1 = alpha0) = 1 + O(lam^n)  (=> K_sv - K = O(a^n) as in C08);  and for L = 0 (xif2 = 1): K_sv == K identically.
"""
from fractions import Fraction

from .kern import *  # noqa
from symx.solver import explore, prove_zero
from symx import harness as H

MOD = "harness.C51"


def _q_integrate(q, i):
    from symx import poly as P

    for f, _k in q.den.values():
        if i in f.vars():
            raise EngineError("sr_integrate: denominator depends on the integration variable")
    out = {}
    sh = P.BITS * i
    for m, c in q.n.t.items():
        e = (m >> sh) & P.MASK
        out[m + (1 << sh)] = P._c(Fraction(c) / (e + 1))
    return Q(Poly(out), q.den)


def sr_integrate(x, name):
    """int_0^L of a polynomial-in-L SR (denominators free of L); the AD tangent is integrated alongside."""
    from symx import poly as P

    i = P.var_index(name)
    return SR(_q_integrate(x.v, i), None if x.d is None else _q_integrate(x.d, i))


def rg_shift(a, bet, Lname="L"):
    """a(xi^2 mu^2) as a jet, given a = a(mu^2) (jet) : a'(L) = a - int_0^L beta(a'(s)) ds  (Picard)."""
    n = jetmod.CAP[0]
    cur = a
    for _ in range(n + 1):
        b = sum(bk * cur ** (k + 2) for k, bk in enumerate(bet))
        b = as_jet(b)
        integ = Jet(b.v, [sr_integrate(c, Lname) for c in b.c], b.prec)
        cur = a - integ
    return cur


class KerBase:
    def __init__(self, singlet):
        self.is_singlet = singlet
        self.is_QEDsinglet = False
        self.is_QEDvalence = False
        self.n = SR.var("N")


def _qk_modules():
    ns, sg, ei, as4, ad = kernel_modules()
    qk = sym_module("eko.evolution_operator.quad_ker")
    ex = sym_module("eko.scale_variations.expanded")
    xp = sym_module("eko.scale_variations.exponentiated")
    return ns, sg, ei, as4, ad, qk, ex, xp


def _kernel(qk, svmod, singlet, order, method, gam_factory, a1, a0, L, scheme, is_threshold=False):
    from eko.kernels import EvoMethods

    kb = KerBase(singlet)
    saved = (qk.ad_us.gamma_ns, qk.ad_us.gamma_singlet, qk.select_singlet_element)
    qk.ad_us.gamma_ns = lambda *a, **k: gam_factory()
    qk.ad_us.gamma_singlet = lambda *a, **k: gam_factory()
    # the 2x2 kernel is computed once; the element selector (a two-line index map) is applied by the harness afterwards
    real_select = qk.select_singlet_element
    qk.select_singlet_element = lambda ker, m0, m1: ker
    try:
        if singlet:
            full = qk.quad_ker_qcd(kb, (order, 0), 100, 100, EvoMethods[method], a1, a0, SR.var("nf"), L, 1, (order, 0), svmod.Modes[scheme], is_threshold, False, False, (0, 0, 0, 0, 0, 0, 0), False)
            out = realnp.empty((2, 2), dtype=object)
            for i, m0 in enumerate((100, 21)):
                for j, m1 in enumerate((100, 21)):
                    out[i, j] = real_select(full, m0, m1)
            return out
        return qk.quad_ker_qcd(kb, (order, 0), 10200, 0, EvoMethods[method], a1, a0, SR.var("nf"), L, 1, (order, 0), svmod.Modes[scheme], is_threshold, False, False, (0, 0, 0, 0, 0, 0, 0), False)
    finally:
        qk.ad_us.gamma_ns, qk.ad_us.gamma_singlet, qk.select_singlet_element = saved


def case_kernel(log, sector, order, method, scheme, kind="general", shape="complex"):
    ns, sg, ei, as4, ad, qk, ex, xp = _qk_modules()
    import eko.scale_variations as svmod

    n = order
    singlet = sector == "singlet"
    log.encode(qk.quad_ker_qcd, xp.gamma_variation, ex.non_singlet_variation, ex.singlet_variation, ns.dispatcher, sg.dispatcher)
    rp = (MOD, "replay_kernel", {"sector": sector, "order": order, "method": method, "scheme": scheme, "diag": kind == "diag"})
    log.register_replay("fallback:replay_kernel", rp, _sampler)
    key = "%s.%s.%s:%d" % (sector, scheme, method, order)
    what = "%s %s %s order %d" % (sector, scheme, method, order)

    def run():
        # the decompose kernels take the square root of a series of valuation 2 at equal central couplings: two more orders
        jetmod.set_cap(n + 3 if method.startswith("DECOMPOSE") else n + 1)
        a0c, a1c, al0, al1 = jet_couplings()
        L = SR.var("L")
        bet, bs, roots = sym_rge(order, shape)
        if singlet:
            g = singlet_gammas(order, kind)
            fac = lambda: realnp.array([[[g[k][i, j] for j in range(2)] for i in range(2)] for k in range(order)], dtype=object)
        else:
            g = ns_gammas(order)
            fac = lambda: realnp.array(list(g), dtype=object)
        # couplings as Operator.mu2 dictates
        a1s = rg_shift(a1c, bet)
        a0s = rg_shift(a0c, bet) if scheme == "exponentiated" else a0c
        with rge_env((ns, sg, ex, xp), bet, bs, roots):
            K = _kernel(qk, svmod, singlet, order, method, fac, a1s, a0s, L, scheme)
            # initial condition: alpha1 := alpha0
            a1s0 = rg_shift(a0c, bet)
            K0 = _kernel(qk, svmod, singlet, order, method, fac, a1s0, a0s, L, scheme)
        if singlet:
            M = lamM_matrix(g, bet, a1c, al1)
            T = realnp.empty((2, 2), dtype=object)
            Kn = realnp.empty((2, 2), dtype=object)
            for i in range(2):
                for j in range(2):
                    T[i, j] = jet_tangent(as_jet(K[i, j]))
                    kj = as_jet(K[i, j])
                    Kn[i, j] = Jet(kj.v, [c.novar() if isinstance(c, SR) else Cx(c.re.novar(), c.im.novar()) for c in kj.c], kj.prec)
            R = T - M @ Kn
            items = [((i, j), R[i, j], as_jet(K0[i, j]) - (1 if i == j else 0)) for i in range(2) for j in range(2)]
        else:
            Kj = as_jet(K)
            Kn = Jet(Kj.v, [c.novar() if isinstance(c, SR) else Cx(c.re.novar(), c.im.novar()) for c in Kj.c], Kj.prec)
            R = jet_tangent(Kj) - lamM_scalar(g, bet, a1c, al1) * Kn
            items = [((), R, as_jet(K0) - 1)]
        for idx, r, ic in items:
            for k, c in residual_coeffs(r, n):
                v = prove_zero(c, "%s%s: lam^%d coefficient of the ODE residual in the central coupling" % (what, list(idx), k), timeout_ms=60000)
                if not log.decide(v, key=key, replay=rp, sampler=_sampler):
                    return
            for k, c in residual_coeffs(ic, n):
                v = prove_zero(c, "%s%s: lam^%d coefficient of K_sv - 1 at alpha1 = alpha0" % (what, list(idx), k), timeout_ms=60000)
                if not log.decide(v, key=key + ":init", replay=rp, sampler=_sampler):
                    return
        log.twin("domain")
        log.collect_ctx()

    _r, pm = explore(run)
    log.path_stats(pm)


def case_unit_ratio(log, sector, order, method, scheme):
    """xif2 = 1 (L = 0): the scale-varied kernel is identically the unvaried one."""
    ns, sg, ei, as4, ad, qk, ex, xp = _qk_modules()
    import eko.scale_variations as svmod

    singlet = sector == "singlet"
    log.encode(qk.quad_ker_qcd)
    rp = (MOD, "replay_unit", {"sector": sector, "order": order, "method": method, "scheme": scheme})
    log.register_replay("fallback:replay_unit", rp, _sampler)

    def run():
        a0, a1 = SR.var("a0"), SR.var("a1")
        for a in (a0, a1):
            assume(a, ">0")
        assume(a1 - a0, "!=0")
        bet, bs, roots = sym_rge(order, "complex")
        for a in (a0, a1):
            assume(1 + sum(b * a ** (i + 1) for i, b in enumerate(bs)), ">0")
        if singlet:
            g = singlet_gammas(order, "general" if order < 3 else "diag0")
            fac = lambda: realnp.array([[[g[k][i, j] for j in range(2)] for i in range(2)] for k in range(order)], dtype=object)
        else:
            g = ns_gammas(order)
            fac = lambda: realnp.array(list(g), dtype=object)
        with rge_env((ns, sg, ex, xp), bet, bs, roots):
            Ksv = _kernel(qk, svmod, singlet, order, method, fac, a1, a0, SR(0), scheme)
            K = _kernel(qk, svmod, singlet, order, method, fac, a1, a0, SR(0), "unvaried")
        pairs = [(Ksv[i, j], K[i, j]) for i in range(2) for j in range(2)] if singlet else [(Ksv, K)]
        for x, y in pairs:
            v = prove_zero(Cx.lift(x) - Cx.lift(y), "%s %s %s order %d: L=0 kernel == unvaried kernel" % (sector, scheme, method, order))
            log.decide(v, key="%s.%s:unit-ratio" % (sector, scheme), replay=rp, sampler=_sampler)
        log.twin("domain")
        log.collect_ctx()

    _r, pm = explore(run)
    log.path_stats(pm)


def case_mu2(log):
    """Operator.mu2 (real property) on an object built without __init__."""
    import eko.evolution_operator as eo
    import eko.scale_variations as svmod
    from eko.io.types import ScaleVariationsMethod

    log.encode(eo.Operator.mu2)

    def run():
        q0, q1, xi = SR.var("q2_from"), SR.var("q2_to"), SR.var("xif2")
        for x in (q0, q1, xi):
            assume(x, ">0")
        for mode, enumv in (("unvaried", None), ("exponentiated", ScaleVariationsMethod.EXPONENTIATED), ("expanded", ScaleVariationsMethod.EXPANDED)):
            for thr in (False, True):
                op = object.__new__(eo.Operator)
                op.config = {"xif2": xi, "ModSV": enumv}
                op.q2_from, op.q2_to, op.is_threshold = q0, q1, thr
                m0, m1 = op.mu2
                want0 = q0 * xi if mode == "exponentiated" else q0
                want1 = q1 * xi if (mode == "exponentiated" or (mode == "expanded" and not thr)) else q1
                for nm, got, want in (("mu2[0]", m0, want0), ("mu2[1]", m1, want1)):
                    v = prove_zero(SR(0) + got - want, "Operator.mu2 %s for mode %s, is_threshold=%s" % (nm, mode, thr))
                    log.decide(v, key="Operator.mu2:%s" % mode, replay=(MOD, "replay_mu2", {"mode": mode, "thr": thr}),
                               candidates=[{"q2_from": Fraction(3), "q2_to": Fraction(50), "xif2": Fraction(5, 2)}])
        log.twin("domain")

    _r, pm = explore(run)
    log.path_stats(pm)


class _OmeKB:
    def __init__(self, singlet):
        self.is_singlet, self.is_QEDsinglet, self.is_QEDvalence, self.n = singlet, False, False, SR.var("N")

    def integrand(self, areas):
        return 1


def case_ome(log, sector, morder, nf, backward):
    """quad_ker_ome in the exponentiated scheme: the matching built from the shifted coefficients at the coupling of the shifted
    scale (nf+1 flavours, as OperatorMatrixElement.a_s asks it) equals the unvaried matching at the unshifted coupling through the
    matching order.  OME coefficients symbolic, nf concrete (the flavour number of the beta function is the point)."""
    qk = sym_module("eko.evolution_operator.quad_ker")
    xp = sym_module("eko.scale_variations.exponentiated")
    import eko.scale_variations as svmod
    from eko import beta as B

    log.encode(qk.quad_ker_ome, qk.build_ome, xp.gamma_variation)
    singlet = sector == "singlet"
    rp = (MOD, "replay_ome", {"sector": sector, "morder": morder, "nf": nf, "backward": backward})
    key = "ome.exponentiated.%s:%d" % (sector, morder)
    log.register_replay(key, rp, _sampler)
    bm = {None: None, "exact": qk.MatchingMethods.BACKWARD_EXACT, "expanded": qk.MatchingMethods.BACKWARD_EXPANDED}[backward]

    def run():
        jetmod.set_cap(morder + 1)
        _a0c, a1c, _al0, _al1 = jet_couplings(seed=False)
        L = SR.var("L")
        # running of the coupling the matching is expanded in: nf + 1 flavours
        proxy = ExactBetaProxy(B)
        bet = [proxy.beta_qcd((2 + k, 0), nf + 1) for k in range(morder)]
        a_shift = rg_shift(a1c, bet)
        d = 3 if singlet else 2
        A = realnp.empty((3, d, d), dtype=object)
        for k in range(3):
            for i in range(d):
                for j in range(d):
                    A[k, i, j] = SR.var("A%d_%d%d" % (k + 1, i, j))
        saved = (qk.QuadKerBase, qk.ome_us.A_singlet, qk.ome_us.A_non_singlet, xp.beta)
        xp.beta = proxy
        qk.QuadKerBase = lambda u, is_log, logx, mode0: _OmeKB(singlet)
        qk.ome_us.A_singlet = lambda *a, **k: A.copy()
        qk.ome_us.A_non_singlet = lambda *a, **k: A.copy()
        modes = (21, 100, 90) if singlet else (200, 91)
        try:
            for m0 in modes:
                for m1 in modes:
                    args = (0.5, (morder, 0), m0, m1, True, SR.var("logx"), ("areas",))
                    Kv = qk.quad_ker_ome(*args, a_shift, nf, SR.var("Lh"), svmod.Modes.exponentiated, L, bm, False, False, False)
                    Kc = qk.quad_ker_ome(*args, a1c, nf, SR.var("Lh"), svmod.Modes.unvaried, L, bm, False, False, False)
                    for k, c in residual_coeffs(as_jet(Kv) - as_jet(Kc), morder + 1):
                        v = prove_zero(c, "matching (%s, order %d, nf %d, %s) [%d,%d]: lam^%d coefficient of exponentiated - unvaried" % (sector, morder, nf, backward or "forward", m0, m1, k), timeout_ms=60000)
                        if not log.decide(v, key=key, replay=rp, sampler=_sampler):
                            return
        finally:
            qk.QuadKerBase, qk.ome_us.A_singlet, qk.ome_us.A_non_singlet, xp.beta = saved
        log.twin("domain")
        log.collect_ctx()

    _r, pm = explore(run)
    log.path_stats(pm)


def replay_ome(point, sector, morder, nf, backward):
    """real quad_ker_ome (QuadKerBase and the OME replaced by fixed numbers): exponentiated at a' = a^(nf+1)(xif2 mu_h^2) vs unvaried
    at a^(nf+1)(mu_h^2), the two couplings related by numerical integration of the (nf+1)-flavour RGE; the difference must scale
    like a^(morder+1)."""
    import math
    import importlib
    import numpy as np
    from unittest import mock
    import eko.scale_variations as svmod

    qk = importlib.import_module("eko.evolution_operator.quad_ker")
    L = float(point.get("L", 0.7))
    if abs(L) < 0.2:
        L = 0.7
    singlet = sector == "singlet"
    d = 3 if singlet else 2
    rng = np.random.default_rng(7)
    A = rng.normal(size=(3, d, d)) * np.array([1.0, 3.0, 9.0])[:, None, None]
    bm = {None: None, "exact": qk.MatchingMethods.BACKWARD_EXACT, "expanded": qk.MatchingMethods.BACKWARD_EXPANDED}[backward]
    shift = _coupling(nf + 1, morder + 1)

    class KB:
        def __init__(self, *a):
            self.is_singlet, self.is_QEDsinglet, self.n = singlet, False, 2.0 + 0.5j

        def integrand(self, areas):
            return 1.0

    worst = None
    pts = [4e-4 * 1.6**k for k in range(9)]
    with mock.patch.object(qk, "QuadKerBase", KB), mock.patch.object(qk.ome_us, "A_singlet", lambda *a, **k: A.copy()), \
            mock.patch.object(qk.ome_us, "A_non_singlet", lambda *a, **k: A.copy()):
        for mm0 in ((21, 100, 90) if singlet else (200, 91)):
            for mm1 in ((21, 100, 90) if singlet else (200, 91)):
                diffs = []
                for a in pts:
                    ap = shift(a, L)
                    kv = qk.quad_ker_ome(0.5, (morder, 0), mm0, mm1, True, -1.0, None, ap, nf, 0.0, svmod.Modes.exponentiated, L, bm, False, False, False)
                    kc = qk.quad_ker_ome(0.5, (morder, 0), mm0, mm1, True, -1.0, None, a, nf, 0.0, svmod.Modes.unvaried, L, bm, False, False, False)
                    diffs.append(kv - kc)
                # least-squares fit diff(a) = sum_{k=2..morder+4} c_k (a/a_max)^k: the coefficients up to a^morder must vanish
                amax = pts[-1]
                ks = list(range(1, morder + 5))
                M = np.array([[(a / amax) ** k for k in ks] for a in pts])
                c, *_ = np.linalg.lstsq(M, np.array(diffs), rcond=None)
                for k, ck in zip(ks, c):
                    if k > morder:
                        break
                    coeff = ck / amax**k
                    natural = 8.0 * abs(L) * np.abs(A[: max(k - 1, 1)]).max()
                    if abs(coeff) > 2e-2 * natural and (worst is None or abs(coeff) / natural > worst[0]):
                        worst = (abs(coeff) / natural, mm0, mm1, k, coeff)
    if worst:
        return {"detail": "quad_ker_ome (%s, matching order %d, nf %d, %s, L=%.3g) element (%d,%d): exponentiated - unvaried has an a_s^%d coefficient %.4g (fit over a in [4e-4, 1.7e-2]); all coefficients through a_s^%d must vanish" % (sector, morder, nf, backward or "forward", L, worst[1], worst[2], worst[3], worst[4], morder)}
    return None


# ---------------------------------------------------------------------------
def _sampler(rng):
    p = {"alpha0": rnd(rng, 0.01, 0.04), "alpha1": rnd(rng, 0.01, 0.04), "a0": rnd(rng, 0.01, 0.04), "a1": rnd(rng, 0.01, 0.04), "L": rnd(rng, -1.3, 1.3)}
    return p


def _coupling(nf, order):
    """a(t) by numerical integration of the truncated RGE (independent of eko.couplings)."""
    from scipy.integrate import solve_ivp
    from eko import beta as B

    bet = [B.beta_qcd((2 + i, 0), nf) for i in range(order)]

    def shift(a, L):
        if L == 0:
            return a
        sol = solve_ivp(lambda t, y: [-sum(b * y[0] ** (k + 2) for k, b in enumerate(bet))], (0, L), [a], rtol=1e-13, atol=1e-16, method="DOP853")
        return float(sol.y[0, -1])

    return shift


class _KB:
    def __init__(self, singlet):
        self.is_singlet, self.is_QEDsinglet, self.is_QEDvalence, self.n = singlet, False, False, 2.0 + 0.5j


def _real_kernel(sector, order, method, scheme, g, a1, a0, nf, L):
    import numpy as np
    from unittest import mock
    import importlib

    qk = importlib.import_module("eko.evolution_operator.quad_ker")
    import eko.scale_variations as svmod
    from eko.kernels import EvoMethods

    singlet = sector == "singlet"
    with mock.patch.object(qk.ad_us, "gamma_ns", lambda *a, **k: np.array(g, dtype=complex).copy()), mock.patch.object(qk.ad_us, "gamma_singlet", lambda *a, **k: np.array(g, dtype=complex).copy()):
        if singlet:
            return np.array([[qk.quad_ker_qcd(_KB(True), (order, 0), m0, m1, EvoMethods[method], a1, a0, nf, L, 1, (order, 0), svmod.Modes[scheme], False, False, False, (0,) * 7, False) for m1 in (100, 21)] for m0 in (100, 21)], dtype=complex)
        return complex(qk.quad_ker_qcd(_KB(False), (order, 0), 10200, 0, EvoMethods[method], a1, a0, nf, L, 1, (order, 0), svmod.Modes[scheme], False, False, False, (0,) * 7, False))


def replay_kernel(point, sector, order, method, scheme, diag=False):
    import math
    import numpy as np

    f = fpoint({k: point[k] for k in ("alpha0", "alpha1", "L") if k in point})
    al0, al1, L = f.get("alpha0", 0.03), f.get("alpha1", 0.02), f.get("L", 0.9)
    if not (0 < al0 < 0.05 and 0 < al1 < 0.05 and abs(al0 - al1) > 1e-3 and 0.05 < abs(L) < 1.4):
        return None
    rng = np.random.default_rng(29)
    if sector == "singlet":
        g = (rng.normal(size=(order, 2, 2)) + 0.2j * rng.normal(size=(order, 2, 2))) * np.array([3.0**k for k in range(order)])[:, None, None]
        if diag:
            g = g * np.eye(2)[None]
    else:
        g = (rng.normal(size=order) + 0.2j) * np.array([3.0**k for k in range(order)])
    nf = 4
    shift = _coupling(nf, order)
    lams = [1.0, 0.5, 0.25, 0.125]
    errs = []
    for l in lams:
        a0, a1 = l * al0, l * al1
        K = _real_kernel(sector, order, method, "unvaried", g, a1, a0, nf, 0.0)
        a1s = shift(a1, L)
        a0s = shift(a0, L) if scheme == "exponentiated" else a0
        Ksv = _real_kernel(sector, order, method, scheme, g, a1s, a0s, nf, L)
        errs.append(float(np.abs(np.array(Ksv) - np.array(K)).max() / max(np.abs(np.array(K)).max(), 1e-30)))
    pairs = [(l, e) for l, e in zip(lams, errs) if e > 1e-12]
    if len(pairs) < 2:
        return None
    ex = math.log(pairs[-2][1] / pairs[-1][1]) / math.log(pairs[-2][0] / pairs[-1][0])
    if ex < order - 0.5:
        return {"detail": "%s %s %s order %d (nf 4, L=%.2f): relative |K_sv - K| at lam=1,1/2,1/4,1/8 = %r scales like lam^%.2f < %d" % (sector, scheme, method, order, L, errs, ex, order)}
    return None


def replay_mu2(point, mode, thr):
    """real Operator.mu2 on numbers vs the documented scales (exponentiated: both ends at xif2*mu2; expanded: only the final,
    non-threshold end; unvaried: none)"""
    import eko.evolution_operator as eo
    from eko.io.types import ScaleVariationsMethod

    q0, q1, xi = (float(point.get(k, d)) for k, d in (("q2_from", 3.0), ("q2_to", 50.0), ("xif2", 2.5)))
    if not (q0 > 0 and q1 > 0 and xi > 0):
        return None
    enumv = {"unvaried": None, "exponentiated": ScaleVariationsMethod.EXPONENTIATED, "expanded": ScaleVariationsMethod.EXPANDED}[mode]
    op = object.__new__(eo.Operator)
    op.config = {"xif2": xi, "ModSV": enumv}
    op.q2_from, op.q2_to, op.is_threshold = q0, q1, thr
    m0, m1 = op.mu2
    want0 = q0 * xi if mode == "exponentiated" else q0
    want1 = q1 * xi if (mode == "exponentiated" or (mode == "expanded" and not thr)) else q1
    if abs(m0 - want0) > 1e-12 * want0 or abs(m1 - want1) > 1e-12 * want1:
        return {"detail": "Operator.mu2 (mode %s, is_threshold=%s, q2_from=%r, q2_to=%r, xif2=%r) = %r but the documented scales are %r" % (mode, thr, q0, q1, xi, (m0, m1), (want0, want1))}
    return None


def replay_unit(point, sector, order, method, scheme):
    import numpy as np

    a0, a1 = float(point.get("a0", 0.03)), float(point.get("a1", 0.02))
    if not (0 < a0 < 0.1 and 0 < a1 < 0.1 and abs(a0 - a1) > 1e-4):
        return None
    rng = np.random.default_rng(31)
    g = rng.normal(size=(order, 2, 2)) + 0.2j if sector == "singlet" else rng.normal(size=order) + 0.2j
    for nf in (3, 4, 5, 6):
        K = np.array(_real_kernel(sector, order, method, "unvaried", g, a1, a0, nf, 0.0))
        Ksv = np.array(_real_kernel(sector, order, method, scheme, g, a1, a0, nf, 0.0))
        if np.abs(K - Ksv).max() > 1e-11 * max(1, np.abs(K).max()):
            return {"detail": "%s %s %s order %d nf %d with xif2=1: kernel %r differs from the unvaried %r" % (sector, scheme, method, order, nf, Ksv.tolist(), K.tolist())}
    return None


def main():
    chk = H.Check("C51", level="other")
    thorough = H.tier() == "thorough"
    chk.explanation = ("Mellin-space core of C51: the kernel assembled by quad_ker_qcd with the couplings Operator.mu2 dictates agrees with the central "
                       "kernel through O(a^n) (ODE residual in the central coupling + initial condition, on jets), and equals it identically for xif2=1. "
                       "x-space operators, threshold crossings and the QED variants are not decided here.")
    chk.bounds = ["non-singlet: orders 1-4, methods iterate-exact, iterate-expanded, truncated, ordered-truncated; schemes exponentiated and expanded; symbolic gamma_k, beta_k, L",
                  "singlet: truncated and perturbative-exact with general 2x2 gamma at order 2 (quick), order 3 (thorough); decompose-exact with diagonal gamma at order 2 (quick) and 3 (thorough)",
                  "xif2=1: all eight methods, orders 1-4 (non-singlet) / 1-3 (singlet), exact identity",
                  "Operator.mu2: symbolic scales, 3 modes x is_threshold",
                  "Operator wiring (harness/opwire.py): the real compute_a / compute_aem_list / quad_ker on an object built without __init__, symbolic scales, recording couplings: scales the couplings are asked for and the arguments (Lsv = ln xif2, scales, flags) that reach quad_ker_ad"]
    chk.stubs = ["ekore anomalous dimensions (ad_us.gamma_ns / gamma_singlet) -> symbolic towers", "eko.beta -> symbolic beta_k; as4 roots -> symbolic roots",
                 "running coupling -> series solution of the truncated RGE over ln xi^2 (harness oracle)"]
    chk.out_of_claim = ["x-space operators and interpolation", "threshold crossing", "QED x QCD scale variations", "measured scaling exponents of full solves"]
    chk.case("mu2", case_mu2)
    for sector in ("ns", "singlet"):
        for mo in (1, 2, 3):
            for nf in ((3, 4, 5) if thorough else (4,)):
                for bw in ((None, "exact", "expanded") if (thorough or sector == "ns") else (None,)):
                    chk.case("ome.%s.o%d.nf%d.%s" % (sector, mo, nf, bw or "forward"), case_ome, sector=sector, morder=mo, nf=nf, backward=bw)
    from . import opwire

    opwire.add_cases(chk, "C51", thorough)
    opwire.add_qed_routing(chk, "C51", thorough)
    for sch in ("exponentiated", "expanded"):
        for o in (1, 2, 3, 4):
            for mth in ("ITERATE_EXACT", "ITERATE_EXPANDED", "TRUNCATED", "ORDERED_TRUNCATED"):
                if o == 1 and mth != "ITERATE_EXACT":
                    continue
                if o == 4 and not thorough and mth in ("ITERATE_EXPANDED", "ORDERED_TRUNCATED"):
                    continue
                chk.case("ns.%s.%s.o%d" % (sch, mth, o), case_kernel, sector="ns", order=o, method=mth, scheme=sch)
        for mth in ("TRUNCATED", "PERTURBATIVE_EXACT"):
            chk.case("singlet.%s.%s.o2" % (sch, mth), case_kernel, sector="singlet", order=2, method=mth, scheme=sch)
            if thorough and mth == "TRUNCATED":  # perturbative-exact at order 3: 75-90 min per case, beyond the tier's case limit
                chk.case("singlet.%s.%s.o3" % (sch, mth), case_kernel, sector="singlet", order=3, method=mth, scheme=sch)
        for o in ((2, 3) if thorough else (2,)):
            chk.case("singlet.%s.DECOMPOSE_EXACT.o%d.diag" % (sch, o), case_kernel, sector="singlet", order=o, method="DECOMPOSE_EXACT", scheme=sch, kind="diag")
        for o in ((1, 2, 3, 4) if thorough else (2, 4)):
            for mth in (["ITERATE_EXACT", "TRUNCATED", "DECOMPOSE_EXPANDED", "PERTURBATIVE_EXPANDED"] if not thorough else
                        ["ITERATE_EXACT", "ITERATE_EXPANDED", "PERTURBATIVE_EXACT", "PERTURBATIVE_EXPANDED", "TRUNCATED", "ORDERED_TRUNCATED", "DECOMPOSE_EXACT", "DECOMPOSE_EXPANDED"]):
                chk.case("unit.ns.%s.%s.o%d" % (sch, mth, o), case_unit_ratio, sector="ns", order=o, method=mth, scheme=sch)
                if o < 4:
                    chk.case("unit.singlet.%s.%s.o%d" % (sch, mth, o), case_unit_ratio, sector="singlet", order=o, method=mth, scheme=sch)
    return chk.run()


if __name__ == "__main__":
    import sys

    sys.exit(main())
