"""Typed symbolic leaves for the runcard / dict-like harnesses (C40, C41).

The (de)serialisation code of eko (io/dictlike.py, io/runcards.py, interpolation.XGrid) is almost pure
type dispatch: what it does with a value depends on the *Python type* of the value and of the declared
field, while the *numeric* content is copied, converted with float()/int()/bool()/np.array()/.tolist(),
sorted (np.unique), log-transformed or shifted by one (orders).  The engine's SR symbols carry the numeric
content; this module adds the type information the real code dispatches on:

  FL  real-valued leaf   (SR subclass) tagged  float | np.float64 | np.float32
  IL  integer leaf       (z3 Int)      tagged  int   | np.int64   | np.int32
  BL  Boolean leaf       (z3 Bool)     tagged  bool  | np.bool_
  SymNd  numpy.ndarray subclass (dtype=object) with a modelled dtype, .tolist() re-tags to python scalars
  SFloatT / SIntT / SBoolT  stand-ins for the builtin constructors float/int/bool: isinstance() answers by tag,
        calling them applies the conversion table of the builtin to a leaf (value unchanged, tag -> python).

Nothing here knows what the code under test is supposed to do.  The same `build_*` functions of the
harnesses create the objects either from symbolic leaves (SymMk) or from concrete python / numpy scalars
(ConcMk, used by the replays on the real, unpatched code).
"""
import dataclasses
import enum
import math
import typing
from fractions import Fraction

import numpy as realnp
import z3

from symx import shim
from symx import solver as S
from symx.poly import Poly
from symx.val import SR, Q, SymBool, SymbolicEscape, ctx

PY_TAGS = {"float", "int", "bool"}
FLOAT_TAGS = ("float", "np.float64", "np.float32")
INT_TAGS = ("int", "np.int64", "np.int32")
BOOL_TAGS = ("bool", "np.bool_")
_PYTAG = {"np.float64": "float", "np.float32": "float", "np.int64": "int", "np.int32": "int", "np.bool_": "bool"}


# ---------------------------------------------------------------------------
# leaves
# ---------------------------------------------------------------------------
class FL(SR):
    """real leaf: an SR with a python-type tag.  Arithmetic gives plain SR (read as python float)."""

    __slots__ = ("tag", "name")

    def __init__(self, v, d=None, tag="float", name=None):
        SR.__init__(self, v, d)
        self.tag = tag
        self.name = name

    @staticmethod
    def var(name, tag="float"):
        x = SR.var(name)
        return FL(x.v, None, tag, name)

    def retag(self, tag):
        return self if tag == self.tag else FL(self.v, self.d, tag, self.name)

    def __deepcopy__(self, memo):
        return self

    def __copy__(self):
        return self

    def item(self):
        if self.tag in PY_TAGS:
            raise AttributeError("'%s' object has no attribute 'item'" % self.tag)
        return self.retag(_PYTAG[self.tag])

    tolist = item

    __hash__ = object.__hash__

    def __repr__(self):
        return "FL<%s>%r" % (self.tag, self.v)


def _sr_deepcopy(self, memo):
    return self


SR.__deepcopy__ = _sr_deepcopy  # values are immutable; copy.deepcopy(dictionary) in DictLike._from_dict


class NanLeaf:
    """The float nan the legacy converter writes as 'no scale' for pole masses (not a real number)."""

    tag = "float"

    def __deepcopy__(self, memo):
        return self

    def __repr__(self):
        return "NAN"


NAN = NanLeaf()


class IL:
    """integer leaf; e is a python int or a z3 Int expression."""

    __slots__ = ("tag", "e", "name")

    def __init__(self, e, tag="int", name=None):
        self.e = e
        self.tag = tag
        self.name = name

    @staticmethod
    def var(name, tag="int"):
        return IL(z3.Int(name), tag, name)

    def retag(self, tag):
        return self if tag == self.tag else IL(self.e, tag, self.name)

    def concrete(self):
        return isinstance(self.e, int)

    def item(self):
        if self.tag in PY_TAGS:
            raise AttributeError("'%s' object has no attribute 'item'" % self.tag)
        return self.retag(_PYTAG[self.tag])

    tolist = item

    @staticmethod
    def _u(o):
        if isinstance(o, IL):
            return o.e
        if isinstance(o, bool):
            return int(o)
        if isinstance(o, (int, realnp.integer)):
            return int(o)
        return None

    def _bin(self, o, f, pf):
        u = IL._u(o)
        if u is None:
            return NotImplemented
        tag = self.tag if self.tag != "int" else (o.tag if isinstance(o, IL) else "int")  # numpy scalar (op) python int -> numpy scalar
        if isinstance(self.e, int) and isinstance(u, int):
            return IL(pf(self.e, u), tag)
        return IL(f(self.e, u), tag)

    def __add__(self, o):
        return self._bin(o, lambda a, b: a + b, lambda a, b: a + b)

    __radd__ = __add__

    def __sub__(self, o):
        return self._bin(o, lambda a, b: a - b, lambda a, b: a - b)

    def __rsub__(self, o):
        return self._bin(o, lambda a, b: b - a, lambda a, b: b - a)

    def __mul__(self, o):
        return self._bin(o, lambda a, b: a * b, lambda a, b: a * b)

    __rmul__ = __mul__

    def __floordiv__(self, o):
        u = IL._u(o)
        if not (isinstance(u, int) and u > 0):
            raise SymbolicEscape("floor division of symbolic int by %r" % (o,))
        # z3 integer division is Euclidean; for a positive divisor it is python's floor division
        return self._bin(o, lambda a, b: a / b, lambda a, b: a // b)

    def __mod__(self, o):
        u = IL._u(o)
        if not (isinstance(u, int) and u > 0):
            raise SymbolicEscape("modulo of symbolic int by %r" % (o,))
        return self._bin(o, lambda a, b: a % b, lambda a, b: a % b)

    def __neg__(self):
        return IL(-self.e)

    def _cmp(self, o, f, pf):
        u = IL._u(o)
        if u is None:
            return NotImplemented
        if isinstance(self.e, int) and isinstance(u, int):
            return pf(self.e, u)
        return S.ZBool(f(self.e, u))

    def __eq__(self, o):
        r = self._cmp(o, lambda a, b: a == b, lambda a, b: a == b)
        return False if r is NotImplemented else r

    def __ne__(self, o):
        r = self._cmp(o, lambda a, b: a != b, lambda a, b: a != b)
        return True if r is NotImplemented else r

    def __lt__(self, o):
        return self._cmp(o, lambda a, b: a < b, lambda a, b: a < b)

    def __le__(self, o):
        return self._cmp(o, lambda a, b: a <= b, lambda a, b: a <= b)

    def __gt__(self, o):
        return self._cmp(o, lambda a, b: a > b, lambda a, b: a > b)

    def __ge__(self, o):
        return self._cmp(o, lambda a, b: a >= b, lambda a, b: a >= b)

    def __hash__(self):
        # structural: the same symbolic expression hashes (and compares) equal wherever it is met, e.g. as a dict key
        return hash((type(self).__name__, self.e if isinstance(self.e, (int, bool)) else self.e.hash()))

    def __int__(self):
        if isinstance(self.e, int):
            return self.e
        raise SymbolicEscape("int()/index of symbolic integer %s" % self.e)

    __index__ = __int__

    def __deepcopy__(self, memo):
        return self

    def __repr__(self):
        return "IL<%s>(%s)" % (self.tag, self.e)


class BL:
    """Boolean leaf; e is a python bool or a z3 Bool expression.  bool() forks the path."""

    __slots__ = ("tag", "e", "name")

    def __init__(self, e, tag="bool", name=None):
        self.e = e
        self.tag = tag
        self.name = name

    @staticmethod
    def var(name, tag="bool"):
        return BL(z3.Bool(name), tag, name)

    def retag(self, tag):
        return self if tag == self.tag else BL(self.e, tag, self.name)

    def __bool__(self):
        if isinstance(self.e, bool):
            return self.e
        return bool(S.ZBool(self.e))

    def item(self):
        if self.tag in PY_TAGS:
            raise AttributeError("'%s' object has no attribute 'item'" % self.tag)
        return self.retag(_PYTAG[self.tag])

    tolist = item

    def _cmp(self, o, neg):
        if isinstance(o, BL):
            u = o.e
        elif isinstance(o, (bool, realnp.bool_)):
            u = bool(o)
        else:
            return NotImplemented
        if isinstance(self.e, bool) and isinstance(u, bool):
            return (self.e != u) if neg else (self.e == u)
        a = z3.BoolVal(self.e) if isinstance(self.e, bool) else self.e
        b = z3.BoolVal(u) if isinstance(u, bool) else u
        return S.ZBool(a != b) if neg else S.ZBool(a == b)

    def __eq__(self, o):
        r = self._cmp(o, False)
        return False if r is NotImplemented else r

    def __ne__(self, o):
        r = self._cmp(o, True)
        return True if r is NotImplemented else r

    def __hash__(self):
        # structural: the same symbolic expression hashes (and compares) equal wherever it is met, e.g. as a dict key
        return hash((type(self).__name__, self.e if isinstance(self.e, (int, bool)) else self.e.hash()))

    def __deepcopy__(self, memo):
        return self

    def __repr__(self):
        return "BL<%s>(%s)" % (self.tag, self.e)


LEAVES = (SR, IL, BL, NanLeaf)


def int_to_real(i):
    """float(int leaf): a real symbol tied to the integer."""
    if isinstance(i.e, int):
        return FL(Q(Poly.const(i.e)), None, "float")
    name = ctx.fresh("i2f")
    x = FL.var(name)
    S.assume_z3(z3.Real(name) == z3.ToReal(i.e))
    return x


# ---------------------------------------------------------------------------
# builtin constructor stand-ins
# ---------------------------------------------------------------------------
class _LeafMeta(type):
    def __instancecheck__(cls, obj):
        return cls._check(obj)

    def __repr__(cls):
        return "<sym %s>" % cls._name


def conv_float(x=0.0):
    if isinstance(x, FL):
        return x.retag("float")
    if isinstance(x, NanLeaf) or isinstance(x, SR):
        return x
    if isinstance(x, IL):
        return int_to_real(x)
    if isinstance(x, BL):
        raise SymbolicEscape("float() of symbolic bool")
    if x is None or isinstance(x, (list, tuple, dict, realnp.ndarray, enum.Enum)):
        if isinstance(x, realnp.ndarray) and not isinstance(x, SymNd):
            return float(x)
        raise TypeError("float() argument must be a string or a real number, not '%s'" % type(x).__name__)
    return float(x)


def conv_int(x=0):
    if isinstance(x, IL):
        return x.retag("int")
    if isinstance(x, SR):
        if x.is_const():
            return int(float(x))
        raise SymbolicEscape("int() of symbolic real")
    if isinstance(x, BL):
        raise SymbolicEscape("int() of symbolic bool")
    if isinstance(x, NanLeaf):
        raise ValueError("cannot convert float NaN to integer")
    if x is None or isinstance(x, (list, tuple, dict, enum.Enum)) or isinstance(x, SymNd):
        raise TypeError("int() argument must be a string, a bytes-like object or a real number, not '%s'" % type(x).__name__)
    return int(x)


def conv_bool(x=False):
    if isinstance(x, BL):
        return x.retag("bool")
    if isinstance(x, IL):
        r = x != 0
        return BL(r.e if isinstance(r, S.ZBool) else r)
    if isinstance(x, SR):
        raise SymbolicEscape("bool() of symbolic real")
    if isinstance(x, NanLeaf):
        return True
    if isinstance(x, SymNd):
        raise ValueError("The truth value of an array with more than one element is ambiguous")
    return bool(x)


class SFloatT(metaclass=_LeafMeta):
    _name = "float"

    def __new__(cls, x=0.0):
        return conv_float(x)

    @staticmethod
    def _check(obj):
        if isinstance(obj, FL):
            return obj.tag in ("float", "np.float64")  # np.float64 subclasses float, np.float32 does not
        return isinstance(obj, (float, NanLeaf)) or type(obj) is SR


class SIntT(metaclass=_LeafMeta):
    _name = "int"

    def __new__(cls, x=0):
        return conv_int(x)

    @staticmethod
    def _check(obj):
        if isinstance(obj, IL):
            return obj.tag == "int"
        if isinstance(obj, BL):
            return obj.tag == "bool"  # bool subclasses int
        return isinstance(obj, int)


class SBoolT(metaclass=_LeafMeta):
    _name = "bool"

    def __new__(cls, x=False):
        return conv_bool(x)

    @staticmethod
    def _check(obj):
        if isinstance(obj, BL):
            return obj.tag == "bool"
        return isinstance(obj, bool)


_TYPEMAP = {float: SFloatT, int: SIntT, bool: SBoolT}


def symtype(t):
    """The declared field type with float/int/bool replaced by the stand-ins (recursively through typing)."""
    if t in _TYPEMAP:
        return _TYPEMAP[t]
    sup = getattr(t, "__supertype__", None)
    if sup is not None and sup in _TYPEMAP:
        nt = typing.NewType(t.__name__, _TYPEMAP[sup])
        return nt
    o = typing.get_origin(t)
    if o is None:
        return t
    if not (isinstance(o, type) or o is typing.Union):
        return t  # e.g. numpy's NDArray type alias: leave exactly as the code sees it
    args = typing.get_args(t)
    if not args:
        return t
    if o is realnp.ndarray:
        return t
    new = tuple(a if a is Ellipsis else symtype(a) for a in args)
    if o is typing.Union:
        return typing.Union[new]
    if o is tuple:
        return typing.Tuple[new]
    if o is list:
        return typing.List[new[0]]
    if o is dict:
        return t
    try:
        return o[new if len(new) > 1 else new[0]]
    except TypeError:
        return t


_INSTALLED = {}


def install_types(*classes):
    """Replace, in this process only, float/int/bool inside the Field.type of the given dataclasses."""
    for c in classes:
        if c in _INSTALLED:
            continue
        saved = {}
        for f in dataclasses.fields(c):
            saved[f.name] = f.type
            f.type = symtype(f.type)
        _INSTALLED[c] = saved


# ---------------------------------------------------------------------------
# numpy model
# ---------------------------------------------------------------------------
class SymNd(realnp.ndarray):
    """object ndarray holding leaves, with a modelled dtype ('float64' | 'int64' | 'bool' | 'object')."""

    def __array_finalize__(self, obj):
        self.dt = getattr(obj, "dt", "float64")

    @staticmethod
    def make(elems, dt):
        a = realnp.empty(len(elems), dtype=object).view(SymNd)
        for i, e in enumerate(elems):
            a[i] = e
        a.dt = dt
        return a

    def tolist(self):
        py = {"float64": "float", "int64": "int", "bool": "bool"}.get(self.dt)
        out = []
        for e in realnp.ndarray.tolist(self):
            out.append(_retag_deep(e, py))
        return out

    def __deepcopy__(self, memo):
        c = realnp.ndarray.copy(self)
        c.dt = self.dt
        return c

    def tobytes(self, *a, **k):
        """canonical: equal symbolic contents give equal bytes (the real method would expose object addresses)"""
        parts = [self.dt]
        for e in self.flat:
            if isinstance(e, SR):
                parts.append(repr(e.v.key()))
            elif isinstance(e, (IL, BL)):
                parts.append(str(e.e))
            else:
                parts.append(repr(e))
        return "|".join(parts).encode()


def _retag_deep(e, py):
    if isinstance(e, list):
        return [_retag_deep(x, py) for x in e]
    if py is not None and isinstance(e, (FL, IL, BL)):
        return e.retag(py)
    return e


def _has_leaf(a):
    if isinstance(a, LEAVES):
        return True
    if isinstance(a, SymNd):
        return True
    if isinstance(a, (list, tuple)):
        return any(_has_leaf(e) for e in a)
    if isinstance(a, realnp.ndarray) and a.dtype == object:
        return any(_has_leaf(e) for e in a.flat)
    return False


def _flat_seq(a):
    if isinstance(a, realnp.ndarray):
        return list(a.flat) if a.ndim == 1 else None
    if isinstance(a, (list, tuple)) and not any(isinstance(e, (list, tuple, realnp.ndarray)) for e in a):
        return list(a)
    return None


def _promote(elems):
    kinds = set()
    for e in elems:
        if isinstance(e, (SR, NanLeaf, float, realnp.floating)):
            kinds.add("f")
        elif isinstance(e, (BL, bool, realnp.bool_)):
            kinds.add("b")
        elif isinstance(e, (IL, int, realnp.integer)):
            kinds.add("i")
        else:
            kinds.add("o")
    if "o" in kinds:
        return "object"
    if "f" in kinds:
        return "float64"
    if "i" in kinds:
        return "int64"
    return "bool"


def _to_dtype(e, dt):
    if dt == "float64":
        if isinstance(e, FL):
            return e.retag("np.float64")
        if isinstance(e, (SR, NanLeaf)):
            return e if isinstance(e, NanLeaf) else FL(e.v, e.d, "np.float64")
        if isinstance(e, IL):
            return int_to_real(e).retag("np.float64")
        if isinstance(e, BL):
            raise SymbolicEscape("bool leaf promoted to float array")
        return FL(Q(Poly.const(float(e))), None, "np.float64")
    if dt == "int64":
        if isinstance(e, IL):
            return e.retag("np.int64")
        if isinstance(e, BL):
            raise SymbolicEscape("bool leaf promoted to int array")
        return IL(int(e), "np.int64")
    if dt == "bool":
        if isinstance(e, BL):
            return e.retag("np.bool_")
        return BL(bool(e), "np.bool_")
    return e


def _plain_z3(x):
    """z3 term of a symbolic real without denominator (None otherwise)"""
    if not isinstance(x, SR):
        return None
    q = x.v.canon() if x.v.den else x.v
    if q.den:
        return None
    return S.poly_to_z3(q.n.reduce())


def _log_monotone(args, outs):
    """The log atoms are uninterpreted for the solver: state that log is strictly increasing on the arguments met
    together (a<b <=> log a<log b, a==b <=> log a==log b) and that log a < a.  This is what makes np.unique / sorting of a
    log-transformed grid decidable."""
    za = [_plain_z3(a) for a in args]
    zo = [_plain_z3(o) for o in outs]
    for i in range(len(args)):
        if za[i] is None or zo[i] is None:
            continue
        S.assume_z3(zo[i] < za[i])
        for j in range(i + 1, len(args)):
            if za[j] is None or zo[j] is None:
                continue
            S.assume_z3(z3.And((za[i] < za[j]) == (zo[i] < zo[j]), (za[i] == za[j]) == (zo[i] == zo[j])))


def _np_scalar_class(name, real, pred):
    return _LeafMeta(name, (), {"_name": "np." + name, "_check": staticmethod(lambda obj: isinstance(obj, real) or pred(obj))})


_NPTAG = lambda obj: getattr(obj, "tag", "") if isinstance(obj, (FL, IL, BL)) else ""  # noqa: E731


class CardNumpy(shim.SymNumpy):
    """numpy facade for dictlike / runcards / interpolation.XGrid on leaves."""

    generic = _np_scalar_class("generic", realnp.generic, lambda o: _NPTAG(o).startswith("np."))
    number = _np_scalar_class("number", realnp.number, lambda o: _NPTAG(o).startswith("np.") and not isinstance(o, BL))
    floating = _np_scalar_class("floating", realnp.floating, lambda o: isinstance(o, FL) and o.tag.startswith("np."))
    integer = _np_scalar_class("integer", realnp.integer, lambda o: isinstance(o, IL) and o.tag.startswith("np."))
    bool_ = _np_scalar_class("bool_", realnp.bool_, lambda o: isinstance(o, BL) and o.tag.startswith("np."))

    def array(self, a, dtype=None, **k):
        if isinstance(a, SymNd):
            c = realnp.ndarray.copy(a)
            c.dt = a.dt if dtype is None else ("float64" if dtype in (float, realnp.float64) else a.dt)
            return c
        if _has_leaf(a):
            flat = _flat_seq(a)
            if flat is None:
                # nested lists of leaves: object array, elementwise arithmetic still works
                return realnp.array(a, dtype=object)
            dt = _promote(flat)
            if dtype in (float, realnp.float64):
                dt = "float64"
            return SymNd.make([_to_dtype(e, dt) for e in flat], dt)
        return realnp.array(a, dtype=dtype, **k)

    def asarray(self, a, dtype=None, **k):
        if isinstance(a, SymNd):
            return a
        return self.array(a, dtype=dtype, **k)

    def unique(self, a, *args, **k):
        if not _has_leaf(a):
            return realnp.unique(a, *args, **k)
        flat = _flat_seq(a)
        if flat is None or args or k:
            raise SymbolicEscape("np.unique on nested symbolic input")
        dt = _promote(flat)
        if dt != "float64":
            raise SymbolicEscape("np.unique on non-float symbolic input")
        out = []
        for e in [_to_dtype(x, dt) for x in flat]:
            pos = len(out)
            dup = False
            for j, o in enumerate(out):
                c = e < o
                if c is True or (c is not False and bool(c)):
                    pos = j
                    break
                q = e == o
                if q is True or (q is not False and bool(q)):
                    dup = True
                    break
            if not dup:
                out.insert(pos, e)
        return SymNd.make(out, dt)

    def log(self, x, *a, **k):
        if isinstance(x, SymNd) or (isinstance(x, realnp.ndarray) and x.dtype == object):
            args = list(x.flat)
            outs = [FL(e.log().v, None, "np.float64") for e in args]
            _log_monotone(args, outs)
            return SymNd.make(outs, "float64")
        if isinstance(x, SR):
            return x.log()
        return realnp.log(x, *a, **k)

    def sqrt(self, x):
        if isinstance(x, SymNd):
            return SymNd.make([FL(e.sqrt().v, None, "np.float64") for e in x.flat], "float64")
        return shim.SymNumpy.sqrt(self, x)

    def digitize(self, x, bins, right=False):
        if not (_has_leaf(x) or _has_leaf(list(bins))):
            return realnp.digitize(x, bins, right=right)
        if right:
            raise SymbolicEscape("digitize(right=True)")
        bins = list(bins)

        def le(a, b):
            if isinstance(b, float) and math.isinf(b):
                return b > 0
            if isinstance(a, float) and math.isinf(a):
                return a < 0
            c = a <= b
            return c if isinstance(c, bool) else bool(c)

        if not all(le(a, b) for a, b in zip(bins, bins[1:])):
            # numpy accepts monotonically decreasing bins too; that branch is not modelled
            if all(le(b, a) for a, b in zip(bins, bins[1:])):
                raise SymbolicEscape("digitize with decreasing bins")
            raise ValueError("bins must be monotonically increasing or decreasing")
        i = 0
        for b in bins:
            if isinstance(b, float) and math.isinf(b):
                cond = b < 0
            else:
                cond = x >= b
            if cond is True or (cond is not False and bool(cond)):
                i += 1
            else:
                break
        return i


# ---------------------------------------------------------------------------
# value factories
# ---------------------------------------------------------------------------
NP_OF = {"np.float64": realnp.float64, "np.float32": realnp.float32, "np.int64": realnp.int64, "np.int32": realnp.int32,
         "np.bool_": realnp.bool_}


class SymMk:
    """symbolic leaves; flavour 'py' | 'np' (float64/int64/bool_) | 'np32' (float32/int32/bool_)"""

    symbolic = True

    def __init__(self, flavour="py"):
        self.flavour = flavour
        self.names = []
        self.defaults = {}

    def _tag(self, kind):
        return {"py": {"f": "float", "i": "int", "b": "bool"},
                "np": {"f": "np.float64", "i": "np.int64", "b": "np.bool_"},
                "np32": {"f": "np.float32", "i": "np.int32", "b": "np.bool_"}}[self.flavour][kind]

    def float(self, name, default=None, positive=False, tag=None):
        x = FL.var(name, tag or self._tag("f"))
        self.defaults[name] = ("f", 1.0 if default is None else default)
        if positive:
            from symx.val import assume
            assume(x, ">0")
        self.names.append(name)
        return x

    def int(self, name, default=None, lo=None, hi=None, tag=None):
        x = IL.var(name, tag or self._tag("i"))
        self.defaults[name] = ("i", 1 if default is None else default)
        if lo is not None:
            S.assume_z3(x.e >= lo)
        if hi is not None:
            S.assume_z3(x.e <= hi)
        self.names.append(name)
        return x

    def bool(self, name, default=None, tag=None):
        self.names.append(name)
        self.defaults[name] = ("b", bool(default))
        return BL.var(name, tag or self._tag("b"))

    def array(self, elems, dt="float64"):
        return SymNd.make([_to_dtype(e, dt) for e in elems], dt)

    def increasing(self, xs):
        from symx.val import assume
        for a, b in zip(xs, xs[1:]):
            assume(b - a, ">0")


def _num(v):
    if isinstance(v, Fraction):
        return v
    if isinstance(v, (int, float)):
        return Fraction(v)
    s = str(v).strip()
    if s.endswith("?"):
        s = s[:-1]
    try:
        return Fraction(s)
    except (ValueError, ZeroDivisionError):
        return Fraction(float(s))


class ConcMk:
    """concrete python / numpy scalars from a point (solver model or sampler); defaults where absent."""

    symbolic = False

    def __init__(self, point, flavour="py"):
        self.point = point or {}
        self.flavour = flavour

    def _wrap(self, kind, v, tag):
        tag = tag or SymMk._tag(self, kind)
        if tag in NP_OF:
            return NP_OF[tag](v)
        return v

    def float(self, name, default=1.0, positive=False, tag=None):
        v = float(_num(self.point[name])) if name in self.point else float(default)
        return self._wrap("f", v, tag)

    def int(self, name, default=1, lo=None, hi=None, tag=None):
        v = int(_num(self.point[name])) if name in self.point else int(default)
        return self._wrap("i", v, tag)

    def bool(self, name, default=False, tag=None):
        v = self.point.get(name, default)
        if isinstance(v, str):
            v = v.strip() == "True"
        return self._wrap("b", bool(v), tag)

    def array(self, elems, dt="float64"):
        return realnp.array(elems, dtype={"float64": realnp.float64, "int64": realnp.int64, "bool": bool}[dt])

    def increasing(self, xs):
        pass


# ---------------------------------------------------------------------------
# plain-data walk (what a safe YAML dumper accepts) -- symbolic and concrete
# ---------------------------------------------------------------------------
def user_dicts(x, acc=None):
    """ids of the dict objects stored in dict-typed fields of x (raw_field hands them through untouched)"""
    acc = set() if acc is None else acc
    if isinstance(x, dict):
        acc.add(id(x))
        for v in x.values():
            user_dicts(v, acc)
    elif isinstance(x, (list, tuple)):
        for v in x:
            user_dicts(v, acc)
    elif dataclasses.is_dataclass(x) and not isinstance(x, type):
        for f in dataclasses.fields(x):
            user_dicts(getattr(x, f.name), acc)
    return acc


def nonplain(v, where="raw", parent="field", udicts=()):
    """list of (path, type tag, parent container kind) of everything that is not plain python data.  parent is
    'field' for the value of a DictLike field (also of a nested DictLike), 'dict' inside a dict-typed field."""
    out = []
    if type(v) is dict:
        kind = "dict" if id(v) in udicts or parent == "dict" else "field"
        for k, x in v.items():
            if type(k) is not str:
                out.append((where, "key:" + type(k).__name__, "dict"))
            out.extend(nonplain(x, "%s[%r]" % (where, k), kind, udicts))
        return out
    if type(v) in (list, tuple):
        for i, x in enumerate(v):
            out.extend(nonplain(x, "%s[%d]" % (where, i), type(v).__name__, udicts))
        return out
    if isinstance(v, (FL, IL, BL, NanLeaf)):
        if v.tag not in PY_TAGS:
            out.append((where, v.tag, parent))
        return out
    if type(v) is SR:
        return out
    if type(v) in (str, int, float, bool, type(None)):
        return out
    if isinstance(v, SymNd):
        out.append((where, "np.ndarray", parent))
        return out
    t = type(v)
    mod = t.__module__.split(".")[0]
    name = ("np." + t.__name__) if mod == "numpy" else t.__name__
    out.append((where, name, parent))
    return out


# ---------------------------------------------------------------------------
# structural comparison ("equal object with the same field values")
# ---------------------------------------------------------------------------
class Cmp:
    """Collects z3 equalities between leaves and structural mismatches."""

    def __init__(self):
        self.eqs = []  # z3 BoolRef
        self.mismatch = []  # str

    def formula(self):
        return z3.And(self.eqs) if self.eqs else z3.BoolVal(True)

    # -- leaves --
    def _real(self, x):
        if isinstance(x, SR):
            return x
        if isinstance(x, IL):
            return int_to_real(x)
        if isinstance(x, (bool, realnp.bool_)):
            return None
        if isinstance(x, (int, float, realnp.floating, realnp.integer)):
            if isinstance(x, (float, realnp.floating)) and not math.isfinite(x):
                return None
            return SR(Q(Poly.const(x.item() if isinstance(x, realnp.generic) else x)))
        return None

    def leaf(self, a, b, path):
        if isinstance(a, NanLeaf) or isinstance(b, NanLeaf):
            if not (isinstance(a, NanLeaf) and isinstance(b, NanLeaf)):
                self.mismatch.append("%s: %r vs %r" % (path, a, b))
            return
        isb = lambda x: isinstance(x, (BL, bool, realnp.bool_))
        if isb(a) or isb(b):
            if not (isb(a) and isb(b)):
                self.mismatch.append("%s: %r vs %r (bool against non-bool)" % (path, a, b))
                return
            ea = a.e if isinstance(a, BL) else bool(a)
            eb = b.e if isinstance(b, BL) else bool(b)
            if isinstance(ea, bool) and isinstance(eb, bool):
                if ea != eb:
                    self.mismatch.append("%s: %r vs %r" % (path, a, b))
                return
            za = z3.BoolVal(ea) if isinstance(ea, bool) else ea
            zb = z3.BoolVal(eb) if isinstance(eb, bool) else eb
            self.eqs.append(za == zb)
            return
        isi = lambda x: isinstance(x, (IL, int, realnp.integer))
        if isi(a) and isi(b):
            ea = a.e if isinstance(a, IL) else int(a)
            eb = b.e if isinstance(b, IL) else int(b)
            if isinstance(ea, int) and isinstance(eb, int):
                if ea != eb:
                    self.mismatch.append("%s: %r vs %r" % (path, a, b))
                return
            self.eqs.append(ea == eb)
            return
        ra, rb = self._real(a), self._real(b)
        if ra is None or rb is None:
            self.mismatch.append("%s: %r vs %r (not comparable as numbers)" % (path, a, b))
            return
        d = ra - rb
        for n in S.numerators(d):
            n = n.reduce()
            if n.t:
                self.eqs.append(S.poly_to_z3(n) == 0)

    # -- structure --
    def same(self, a, b, path=""):
        num = (SR, IL, BL, NanLeaf, int, float, bool, realnp.generic)
        if isinstance(a, XGRID) or isinstance(b, XGRID):
            if not (isinstance(a, XGRID) and isinstance(b, XGRID)):
                self.mismatch.append("%s: %s vs %s" % (path, type(a).__name__, type(b).__name__))
                return
            self.leaf(_as_bool_leaf(a.log), _as_bool_leaf(b.log), path + ".log")
            self.same(a.raw, b.raw, path + ".raw")
            return
        if isinstance(a, realnp.ndarray) or isinstance(b, realnp.ndarray):
            if not (isinstance(a, realnp.ndarray) and isinstance(b, realnp.ndarray)):
                self.mismatch.append("%s: %s vs %s" % (path, type(a).__name__, type(b).__name__))
                return
            if a.shape != b.shape:
                self.mismatch.append("%s: shapes %r vs %r" % (path, a.shape, b.shape))
                return
            for i, (x, y) in enumerate(zip(a.flat, b.flat)):
                self.same(x, y, "%s[%d]" % (path, i))
            return
        if isinstance(a, str) or isinstance(b, str):
            if not (isinstance(a, str) and isinstance(b, str) and str(a) == str(b)):
                self.mismatch.append("%s: %r vs %r" % (path, a, b))
            return
        if isinstance(a, num) and isinstance(b, num):
            self.leaf(a, b, path)
            return
        if a is None or b is None:
            if not (a is None and b is None):
                self.mismatch.append("%s: %r vs %r" % (path, a, b))
            return
        if isinstance(a, enum.Enum) or isinstance(b, enum.Enum):
            if a is not b:
                self.mismatch.append("%s: %r vs %r" % (path, a, b))
            return
        if dataclasses.is_dataclass(a) or dataclasses.is_dataclass(b):
            if type(a) is not type(b):
                self.mismatch.append("%s: %s vs %s" % (path, type(a).__name__, type(b).__name__))
                return
            for f in dataclasses.fields(a):
                self.same(getattr(a, f.name), getattr(b, f.name), "%s.%s" % (path, f.name))
            return
        if isinstance(a, dict) or isinstance(b, dict):
            if not (isinstance(a, dict) and isinstance(b, dict)) or set(a) != set(b):
                self.mismatch.append("%s: dict keys differ / not both dict: %r vs %r" % (path, a, b))
                return
            for k in a:
                self.same(a[k], b[k], "%s[%r]" % (path, k))
            return
        if isinstance(a, (list, tuple)) or isinstance(b, (list, tuple)):
            if type(a) is not type(b):
                self.mismatch.append("%s: container %s vs %s" % (path, type(a).__name__, type(b).__name__))
                return
            if len(a) != len(b):
                self.mismatch.append("%s: lengths %d vs %d" % (path, len(a), len(b)))
                return
            for i, (x, y) in enumerate(zip(a, b)):
                self.same(x, y, "%s[%d]" % (path, i))
            return
        if type(a) is not type(b) or a != b:
            self.mismatch.append("%s: %r vs %r" % (path, a, b))


def _as_bool_leaf(x):
    return x


from eko.interpolation import XGrid as XGRID  # noqa: E402


def concrete_same(a, b, path="", rtol=0.0):
    """Independent comparison of two concrete objects (replay side).  nan == nan, XGrid by log flag and raw
    grid.  Returns the list of differences."""
    out = []

    def rec(a, b, path):
        if isinstance(a, XGRID) or isinstance(b, XGRID):
            if not (isinstance(a, XGRID) and isinstance(b, XGRID)):
                out.append("%s: %s vs %s" % (path, type(a).__name__, type(b).__name__))
                return
            if bool(a.log) != bool(b.log):
                out.append("%s.log: %r vs %r" % (path, a.log, b.log))
            rec(realnp.asarray(a.raw), realnp.asarray(b.raw), path + ".raw")
            return
        if isinstance(a, realnp.ndarray) or isinstance(b, realnp.ndarray):
            if not (isinstance(a, realnp.ndarray) and isinstance(b, realnp.ndarray)):
                out.append("%s: %s vs %s" % (path, type(a).__name__, type(b).__name__))
                return
            if a.shape != b.shape:
                out.append("%s: shapes %r vs %r" % (path, a.shape, b.shape))
                return
            for i, (x, y) in enumerate(zip(a.flat, b.flat)):
                rec(x, y, "%s[%d]" % (path, i))
            return
        if isinstance(a, str) or isinstance(b, str):
            if not (isinstance(a, str) and isinstance(b, str) and str(a) == str(b)):
                out.append("%s: %r vs %r" % (path, a, b))
            return
        isb = lambda x: isinstance(x, (bool, realnp.bool_))
        if isb(a) or isb(b):
            if not (isb(a) and isb(b) and bool(a) == bool(b)):
                out.append("%s: %r vs %r" % (path, a, b))
            return
        isn = lambda x: isinstance(x, (int, float, realnp.integer, realnp.floating))
        if isn(a) and isn(b):
            fa, fb = float(a), float(b)
            if math.isnan(fa) and math.isnan(fb):
                return
            if not (fa == fb or abs(fa - fb) <= rtol * max(abs(fa), abs(fb))):
                out.append("%s: %r vs %r" % (path, a, b))
            return
        if a is None or b is None:
            if not (a is None and b is None):
                out.append("%s: %r vs %r" % (path, a, b))
            return
        if isinstance(a, enum.Enum) or isinstance(b, enum.Enum):
            if a is not b:
                out.append("%s: %r vs %r" % (path, a, b))
            return
        if dataclasses.is_dataclass(a) or dataclasses.is_dataclass(b):
            if type(a) is not type(b):
                out.append("%s: %s vs %s" % (path, type(a).__name__, type(b).__name__))
                return
            for f in dataclasses.fields(a):
                rec(getattr(a, f.name), getattr(b, f.name), "%s.%s" % (path, f.name))
            return
        if isinstance(a, dict) or isinstance(b, dict):
            if not (isinstance(a, dict) and isinstance(b, dict)) or set(a) != set(b):
                out.append("%s: %r vs %r" % (path, a, b))
                return
            for k in a:
                rec(a[k], b[k], "%s[%r]" % (path, k))
            return
        if isinstance(a, (list, tuple)) or isinstance(b, (list, tuple)):
            if type(a) is not type(b):
                out.append("%s: container %s vs %s" % (path, type(a).__name__, type(b).__name__))
                return
            if len(a) != len(b):
                out.append("%s: lengths %d vs %d" % (path, len(a), len(b)))
                return
            for i, (x, y) in enumerate(zip(a, b)):
                rec(x, y, "%s[%d]" % (path, i))
            return
        if type(a) is not type(b) or a != b:
            out.append("%s: %r vs %r" % (path, a, b))

    rec(a, b, path)
    return out


# ---------------------------------------------------------------------------
# module patching
# ---------------------------------------------------------------------------
def sym_io_modules():
    """Import dictlike / interpolation / runcards and rebind their numeric globals to the leaf model."""
    import importlib

    cnp = CardNumpy()
    dl = importlib.import_module("eko.io.dictlike")
    ip = importlib.import_module("eko.interpolation")
    rc = importlib.import_module("eko.io.runcards")
    mt = importlib.import_module("eko.matchings")
    dl.np = cnp
    dl.float = SFloatT  # raw_field: isinstance(value, float) / float(value)
    ip.np = cnp
    rc.np = cnp
    rc.int = SIntT  # Legacy.new_operator: isinstance(max_order, int)
    rc.nan = NAN
    mt.np = cnp
    return dl, ip, rc, mt, cnp


# ---------------------------------------------------------------------------
# cheap pre-replay: a child forked from the worker BEFORE any module is patched (eko already imported, nothing
# rebound) answers replay requests; a reproduced counterexample is then handed to the framework with the
# standard replay script, which the framework confirms once more in a brand-new interpreter.
# ---------------------------------------------------------------------------
import hashlib  # noqa: E402
import os  # noqa: E402
import pickle  # noqa: E402
import struct  # noqa: E402
import sys  # noqa: E402
import traceback  # noqa: E402


class ReplayServer:
    def __init__(self, modname):
        assert not _INSTALLED, "replay server must be forked before the modules are patched"
        r1, w1 = os.pipe()
        r2, w2 = os.pipe()
        pid = os.fork()
        if pid == 0:
            os.close(w1)
            os.close(r2)
            try:
                mod = modname if not isinstance(modname, str) else (sys.modules.get(modname) or __import__(modname, fromlist=['x']))
                fin, fout = os.fdopen(r1, "rb"), os.fdopen(w2, "wb")
                while True:
                    hdr = fin.read(4)
                    if len(hdr) < 4:
                        break
                    func, point, kw = pickle.loads(fin.read(struct.unpack("<I", hdr)[0]))
                    # every request runs in its own fork of the pristine server: module-level state that the code
                    # under test may keep between calls never leaks from one replay into the next
                    pid2 = os.fork()
                    if pid2 == 0:
                        try:
                            try:
                                res = ("ok", getattr(mod, func)(point, **kw))
                            except Exception:
                                res = ("err", traceback.format_exc()[-600:])
                            blob = pickle.dumps(res)
                            fout.write(struct.pack("<I", len(blob)) + blob)
                            fout.flush()
                        finally:
                            os._exit(0)
                    os.waitpid(pid2, 0)
            except BaseException:
                traceback.print_exc()
            finally:
                os._exit(0)
        os.close(r1)
        os.close(w2)
        self.pid = pid
        self.fout, self.fin = os.fdopen(w1, "wb"), os.fdopen(r2, "rb")

    def call(self, func, point, kw):
        blob = pickle.dumps((func, point, kw))
        self.fout.write(struct.pack("<I", len(blob)) + blob)
        self.fout.flush()
        hdr = self.fin.read(4)
        if len(hdr) < 4:
            return ("err", "replay server died")
        return pickle.loads(self.fin.read(struct.unpack("<I", hdr)[0]))

    def close(self):
        try:
            self.fout.close()
            self.fin.close()
            os.waitpid(self.pid, 0)
        except Exception:
            pass


def claim_key(pid_, key):
    """True for exactly one case of this run per (property, key): only that case registers the violation (the
    framework re-runs every registered violation in a new interpreter, one after the other)."""
    d = os.path.join("/tmp", "symx_keys_%s_%d" % (pid_, os.getppid()))
    os.makedirs(d, exist_ok=True)
    try:
        fd = os.open(os.path.join(d, hashlib.sha1(key.encode()).hexdigest()[:16]), os.O_CREAT | os.O_EXCL | os.O_WRONLY)
        os.write(fd, key.encode())
        os.close(fd)
        return True
    except FileExistsError:
        return False


def release_keys(pid_):
    import shutil

    shutil.rmtree(os.path.join("/tmp", "symx_keys_%s_%d" % (pid_, os.getpid())), ignore_errors=True)


def decide(log, server, modname, pid_, verdict, key, replay, candidates=({},)):
    """Replacement of CaseLog.decide for the card harnesses (see ReplayServer / claim_key)."""
    from symx import harness as H

    if verdict.holds:
        log.ok(verdict)
        return True
    rec = {"case": log.case, "what": verdict.what, "status": verdict.status, "time_s": round(verdict.time, 4), "residual_terms": verdict.nterms}
    log.obligations.append(rec)
    if any(vi["key"] == key for vi in log.violations) or key in getattr(log, "_dup_keys", ()):
        rec["note"] = "same key as an already replayed counterexample"
        return False
    func, kw = replay[1], (replay[2] if len(replay) > 2 else {})
    pts = ([dict(verdict.model)] if verdict.model else []) + [dict(c) for c in candidates]
    for p in pts:
        st, res = server.call(func, p, kw)
        if st == "err":
            log.notes.append("replay error for %s: %s" % (key, res))
            continue
        if res:
            if claim_key(pid_, key):
                log.violations.append({"key": key, "what": verdict.what, "case": log.case, "detail": str(res)[-600:],
                                       "point": {k: str(v) for k, v in p.items()}, "script": H.replay_script(modname, func, p, **kw)})
            else:
                if not hasattr(log, "_dup_keys"):
                    log._dup_keys = set()
                log._dup_keys.add(key)
                rec["note"] = "counterexample reproduced; violation registered by another case under the same key"
            return False
    log.inconclusive.append("%s/%s: solver answered %s and no candidate reproduced against the real code" % (log.case, verdict.what, verdict.status))
    return False


# ---------------------------------------------------------------------------
# translator validation support: run the model along the path of the builders' default point
# ---------------------------------------------------------------------------
class PointPath:
    """path manager deciding every branch by evaluating its condition at a concrete point"""

    def __init__(self, frac, subs):
        self.frac, self.subs, self.pc = frac, subs, []

    def decide(self, b):
        if hasattr(b, "e"):
            r = z3.is_true(z3.simplify(z3.substitute(b.e, *self.subs)))
        else:
            val = S.NumEnv(self.frac).value(b.p)
            r = {"<0": val < 0, "<=0": val <= 0, ">0": val > 0, ">=0": val >= 0, "==0": val == 0, "!=0": val != 0}[b.rel]
        self.pc.append(b if r else b.negate())
        return bool(r)


class AtDefaultPoint:
    """with AtDefaultPoint(flavour) as pt:  pt.mk makes symbolic leaves, every branch is decided at the leaves'
    default values, pt.ev(leaf) evaluates a leaf (or an expression of leaves) at that point."""

    def __init__(self, flavour="py"):
        self.flavour = flavour

    def __enter__(self):
        ctx.reset()
        frac, subs = {}, []
        self.frac, self.subs = frac, subs

        class _Mk(SymMk):
            def _reg(self, name):
                kind, default = self.defaults[name]
                if kind == "f":
                    frac[name] = Fraction(default)
                elif kind == "i":
                    subs.append((z3.Int(name), z3.IntVal(int(default))))
                else:
                    subs.append((z3.Bool(name), z3.BoolVal(bool(default))))

            def float(self, name, default=None, positive=False, tag=None):
                x = SymMk.float(self, name, default, positive, tag)
                self._reg(name)
                return x

            def int(self, name, default=None, lo=None, hi=None, tag=None):
                x = SymMk.int(self, name, default, lo, hi, tag)
                self._reg(name)
                return x

            def bool(self, name, default=None, tag=None):
                x = SymMk.bool(self, name, default, tag)
                self._reg(name)
                return x

        self.mk = _Mk(self.flavour)
        ctx.path = PointPath(frac, subs)
        return self

    def __exit__(self, *a):
        ctx.path = None
        return False

    def ev(self, leaf):
        if isinstance(leaf, IL):
            return leaf.e if isinstance(leaf.e, int) else int(str(z3.simplify(z3.substitute(leaf.e, *self.subs))))
        if isinstance(leaf, BL):
            return leaf.e if isinstance(leaf.e, bool) else z3.is_true(z3.simplify(z3.substitute(leaf.e, *self.subs)))
        if isinstance(leaf, NanLeaf):
            return float("nan")
        if isinstance(leaf, SR):
            return float(S.NumEnv(self.frac).value(leaf))
        return leaf


# ---------------------------------------------------------------------------
# module-level state: every explored path (and every replay) starts from the import-time state of the modules
# ---------------------------------------------------------------------------
def snapshot_state(*modules):
    import copy

    snap = []
    for m in modules:
        for name, val in list(vars(m).items()):
            if name.startswith("__"):
                continue
            if type(val) in (dict, list, set):
                snap.append((val, copy.copy(val)))
    return snap


def restore_state(snap):
    for live, saved in snap:
        if isinstance(live, list):
            live[:] = saved
        else:
            live.clear()
            live.update(saved)
