"""C41  Legacy runcards (and the card patches for data versions 1 and 2) upgrade to equivalent current structures.

Runcards half only.  Real code executed symbolically: eko.io.runcards.Legacy.new_theory / new_operator (with
default_atlas, flavored_mugrid, matchings.Atlas / nf_default), eko.io.v1 / v2 update_theory / update_operator, followed by
the real TheoryCard / OperatorCard.from_dict, on dictionaries whose numeric leaves are symbolic (harness/cardsym.py).

Differential goal: for every named physical setting s of the statement (orders, couplings and references, masses and
scheme, matching ratios, scale ratio, grids, evolution points, solution settings)

        read_current(new cards)[s]  ==  read_legacy(old cards)[s]

`read_legacy` is a reference reading of the *old* keys written from documentation only (it never calls the converter):
  [D1] doc/source/development/ekomark_runners.rst  (PTO: 0 = LO; alphas = alpha_s at the reference scale; Q0 = scale
       from which to start; mc/mb/mt masses; interpolation_xgrid / _polynomial_degree / _is_log; mu2grid = Q^2 values)
  [D2] field docstrings of the current cards (TheoryCard.order: (1,0) is LO; matching_order: shifted by one, (0,0) at
       LO, default (order-1, 0); xif = factorisation/process scale ratio; "all energy scales saved linearly")
  [D3] src/ekomark/benchmark/external/pegasus_utils.py and apfel_utils.py, which read the same legacy keys for other
       programs: alphas given at Qref, thresholds (k?Thr*m?)^2, XIF, the ModEv abbreviations EXA/EXP/TRN
  [D4] matchings.nf_default docstring: default flow = 3 flavours below the charm matching scale, +1 for every matching
       scale passed
  [D7] Legacy.fallback docstring ("the first not None argument") for the two spellings alphaqed / alphaem of the QED coupling
  [D6] src/ekobox/cards.py: the in-tree example theory card (n3lo_ad_variation all zero = no variation)
  [D5] extras/lh_bench_23/cfg.py: an in-tree theory card in the 0.13/0.14 layout (couplings.scale / num_flavs_ref /
       max_num_flavs, heavy.num_flavs_init / num_flavs_max_pdf / intrinsic_flavors)
`read_current` reads the documented fields of TheoryCard / OperatorCard.

The oracle is a second reading of the same conventions, not an independent computation: the claim is low-strength
(level 'other').  Keys for which the repository documents no legacy meaning are left out (listed in out_of_claim).
"""
import copy
import os
import sys

import z3

from .common import *  # noqa
from symx import harness as H
from symx.solver import explore, prove_formula, PathBudgetExceeded
from . import cardsym as CS

from eko.io import runcards as _rc  # noqa: F401  (imported before forking the workers)
from eko.io import v1 as _v1, v2 as _v2  # noqa: F401
from eko.io.runcards import OperatorCard, TheoryCard, Configs, Debug
from eko.io.types import EvolutionMethod, InversionMethod, ScaleVariationsMethod
from eko.quantities.couplings import CouplingsInfo
from eko.quantities.heavy_quarks import HeavyInfo, QuarkMassScheme

MOD = "harness.C41"
CARD_CLASSES = [TheoryCard, OperatorCard, Configs, Debug, HeavyInfo, CouplingsInfo]

SR.__format__ = lambda self, spec: "<symbolic>"  # Atlas.__str__ formats the walls for a log line

MODEV = ["EXA", "EXP", "TRN"] + [m.value for m in EvolutionMethod]
# [D3] apfel_utils/pegasus_utils pair the abbreviations with the long names; [D2] EvolutionMethod values
MODEV_MEANING = {"EXA": "iterate-exact", "EXP": "iterate-expanded", "TRN": "truncated"}
MODSV = [None, "exponentiated", "expanded"]
INVERSION = ["exact", "expanded"]


# ---------------------------------------------------------------------------
# legacy cards (symbolic or concrete through mk)
# ---------------------------------------------------------------------------
def old_theory(mk, var):
    th = {
        "PTO": mk.int("PTO", 1, 0, 3), "QED": mk.int("QED", 0, 0, 2),
        "alphas": mk.float("alphas", 0.118, positive=True), "Qref": mk.float("Qref", 91.2, positive=True), "nfref": mk.int("nfref", 5, 3, 6),
        "mc": mk.float("mc", 1.51, positive=True), "mb": mk.float("mb", 4.92, positive=True), "mt": mk.float("mt", 172.5, positive=True),
        "kcThr": mk.float("kcThr", 1.0, positive=True), "kbThr": mk.float("kbThr", 1.25, positive=True), "ktThr": mk.float("ktThr", 0.75, positive=True),
        "Qmc": mk.float("Qmc", 1.6, positive=True), "Qmb": mk.float("Qmb", 5.1, positive=True), "Qmt": mk.float("Qmt", 160.0, positive=True),
        "HQ": var.get("HQ", "POLE"), "XIF": mk.float("XIF", 1.0, positive=True),
        "Q0": mk.float("Q0", 1.65, positive=True), "nf0": None if var.get("nf0") == "none" else mk.int("nf0", 4, 3, 6),
        "ModEv": MODEV[var.get("modev", 0) % len(MODEV)],
        "FNS": "ZM-VFNS", "NfFF": 3, "IC": 0, "IB": 0, "MaxNfPdf": 6, "MaxNfAs": 6, "Comments": "legacy",
    }
    if var.get("modsv") != "absent":  # None is a legacy value too: no scale variation
        th["ModSV"] = MODSV[var.get("modsv", 0) % 3]
    if var.get("inv") != "absent":
        th["backward_inversion"] = INVERSION[var.get("inv", 0) % 2]
    # alpha_em: every combination of value (zero allowed) / None / absent for the two legacy spellings
    aem = var.get("aem", "alphaqed")
    spec = {"alphaqed": ("v", "-"), "alphaem": ("-", "v"), "none": ("-", "-"), "both": ("v", "v"), "qed_none": ("n", "v"), "em_none": ("v", "n"),
            "both_none": ("n", "n")}[aem]
    for key, how, leaf, default in (("alphaqed", spec[0], "aqed", 0.0075), ("alphaem", spec[1], "aem", 0.0078)):
        if how == "v":
            th[key] = mk.float(leaf, default)
            if mk.symbolic:
                assume(th[key], ">=0")
        elif how == "n":
            th[key] = None
    if var.get("qedref"):
        th["Qedref"] = mk.float("Qedref", 91.2, positive=True)
    if var.get("extras"):
        th["n3lo_ad_variation"] = tuple(mk.int("n3lo%d" % i, i % 3, 0, 3) for i in range(7))
        th["PTO_matching"] = [mk.int("PTOm", 1, 0, 3), mk.int("PTOm_qed", 0, 0, 1)]
        th["use_fhmruvv"] = mk.bool("fhmruvv", False, tag="bool")
    return th


def thresholds_increasing(mk, th):
    """[D4] the default flow presumes mu_c < mu_b < mu_t"""
    ws = [th["k%sThr" % q] * th["m" + q] for q in "cbt"]
    if mk.symbolic:
        for a, b in zip(ws, ws[1:]):
            assume(b - a, ">0")
    return ws


def old_operator(mk, var):
    n = var.get("n", 3)
    base = [1e-3, 0.1, 0.5, 1.0]
    xs = [mk.float("x%d" % i, base[i], positive=True) for i in range(n)]
    mk.increasing(xs)
    op = {
        "interpolation_xgrid": xs, "interpolation_polynomial_degree": mk.int("deg", 2, 1, n - 1), "interpolation_is_log": mk.bool("is_log", True, tag="bool"),
        "ev_op_max_order": mk.int("maxo", 10, 1, 20), "ev_op_iterations": mk.int("iters", 10, 1, 60), "n_integration_cores": mk.int("cores", 1, 1, 64),
        "backward_inversion": "expanded", "debug_skip_non_singlet": mk.bool("skip_ns", False, tag="bool"), "debug_skip_singlet": mk.bool("skip_s", False, tag="bool"),
        "polarized": mk.bool("polarized", False, tag="bool"), "time_like": mk.bool("time_like", False, tag="bool"),
        "inputgrid": None, "targetgrid": None, "inputpids": None, "targetpids": None,
    }
    nmu = var.get("nmu", 1)
    mus = [mk.float("g%d" % i, [10.0, 200.0, 3.0][i], positive=True) for i in range(nmu)]
    op[var.get("grid", "mugrid")] = mus  # 'mugrid': linear scales; 'Q2grid' / 'mu2grid': squared scales [D1]
    return op


# ---------------------------------------------------------------------------
# reference reading of the legacy keys (documentation only) -- generic over symbolic / concrete numbers
# ---------------------------------------------------------------------------
def read_legacy_theory(th):
    s = {}
    s["order.qcd"] = th["PTO"] + 1  # [D1] PTO 0 = LO, [D2] order (1,0) = LO
    s["order.qed"] = th["QED"]
    s["alphas"] = th["alphas"]  # [D1],[D3] alpha_s at the reference scale Qref
    s["alphas.scale"] = th["Qref"]
    s["alphas.nf"] = th["nfref"]
    # [D7] Legacy.fallback docstring: "Return the first not None argument" (alphaqed, then alphaem), 0 when there is none
    cands = [th.get("alphaqed"), th.get("alphaem")]
    cands = [c for c in cands if c is not None]
    s["alphaem"] = cands[0] if cands else 0.0
    for i, q in enumerate("cbt"):
        s["mass.%s" % q] = th["m" + q]  # [D1]
        s["matching_ratio.%s" % q] = th["k%sThr" % q]  # [D3] threshold = (k m)^2
        if th["HQ"] == "MSBAR":
            s["mass.%s.scale" % q] = th["Qm" + q]
    s["mass.scheme"] = {"POLE": QuarkMassScheme.POLE, "MSBAR": QuarkMassScheme.MSBAR}[th["HQ"]]
    s["xif"] = th["XIF"]  # [D2],[D3]
    if "PTO_matching" in th:
        s["matching_order.qcd"], s["matching_order.qed"] = th["PTO_matching"][0], th["PTO_matching"][1]
    else:
        s["matching_order.qcd"] = th["PTO"]  # [D2] shifted by one w.r.t. order: (0,0) at LO
        s["matching_order.qed"] = 0  # [D2] "QED OME are currently not available", default (order[0]-1, 0) whatever the QED order
    for i in range(7):
        # [D6] absent: no variation of the N3LO anomalous dimensions (all-zero tuple of the in-tree example card)
        s["n3lo_ad_variation.%d" % i] = th["n3lo_ad_variation"][i] if "n3lo_ad_variation" in th else 0
    s["use_fhmruvv"] = th["use_fhmruvv"] if "use_fhmruvv" in th else True  # [D2] default of TheoryCard.use_fhmruvv
    return s


def read_current_theory(t):
    s = {}
    s["order.qcd"], s["order.qed"] = t.order[0], t.order[1]
    s["alphas"], s["alphaem"] = t.couplings.alphas, t.couplings.alphaem
    s["alphas.scale"], s["alphas.nf"] = t.couplings.ref[0], t.couplings.ref[1]
    for i, q in enumerate("cbt"):
        s["mass.%s" % q] = t.heavy.masses[i].value
        s["mass.%s.scale" % q] = t.heavy.masses[i].scale
        s["matching_ratio.%s" % q] = t.heavy.matching_ratios[i]
    s["mass.scheme"] = t.heavy.masses_scheme
    s["xif"] = t.xif
    s["matching_order.qcd"], s["matching_order.qed"] = t.matching_order[0], t.matching_order[1]
    for i, v in enumerate(t.n3lo_ad_variation):
        s["n3lo_ad_variation.%d" % i] = v
    s["use_fhmruvv"] = t.use_fhmruvv
    return s


def read_legacy_operator(th, op):
    """everything except the number of flavours of the evolution points (done separately: it needs comparisons)"""
    s = {}
    s["init.scale"] = th["Q0"]  # [D1]
    if th["nf0"] is not None:
        s["init.nf"] = th["nf0"]
    if "mugrid" in op:
        for i, mu in enumerate(op["mugrid"]):
            s["mu.%d" % i] = ("lin", mu)
    else:
        grid = op["Q2grid"] if "Q2grid" in op else op["mu2grid"]
        for i, q2 in enumerate(grid):
            s["mu.%d" % i] = ("sq", q2)  # [D1] values of Q^2; [D2] the card stores linear scales
    ev = th["ModEv"]
    s["method"] = EvolutionMethod(MODEV_MEANING.get(ev, ev))
    if "ModSV" in th:  # absent: the legacy card does not say; any method is accepted, the upgrade only has to succeed
        s["scvar"] = None if th["ModSV"] is None else ScaleVariationsMethod(th["ModSV"])
    if "backward_inversion" in th:
        s["inversion"] = InversionMethod(th["backward_inversion"])
    s["interp.degree"] = op["interpolation_polynomial_degree"]
    s["interp.is_log"] = op["interpolation_is_log"]
    s["iterations"] = op["ev_op_iterations"]
    s["max_order.qcd"] = op["ev_op_max_order"]
    s["polarized"], s["time_like"] = op["polarized"], op["time_like"]
    s["debug.skip_singlet"], s["debug.skip_non_singlet"] = op["debug_skip_singlet"], op["debug_skip_non_singlet"]
    for i, x in enumerate(op["interpolation_xgrid"]):
        s["xgrid.%d" % i] = x
    s["xgrid.len"] = len(op["interpolation_xgrid"])
    return s


def read_current_operator(o):
    s = {}
    s["init.scale"], s["init.nf"] = o.init[0], o.init[1]
    for i, (mu, nf) in enumerate(o.mugrid):
        s["mu.%d" % i] = ("lin", mu)
        s["nf.%d" % i] = nf
    c = o.configs
    s["method"], s["scvar"], s["inversion"] = c.evolution_method, c.scvar_method, c.inversion_method
    s["interp.degree"], s["interp.is_log"] = c.interpolation_polynomial_degree, c.interpolation_is_log
    s["iterations"], s["max_order.qcd"] = c.ev_op_iterations, c.ev_op_max_order[0]
    s["polarized"], s["time_like"] = c.polarized, c.time_like
    s["debug.skip_singlet"], s["debug.skip_non_singlet"] = o.debug.skip_singlet, o.debug.skip_non_singlet
    raw = o.xgrid.raw
    for i in range(len(raw)):
        s["xgrid.%d" % i] = raw[i]
    s["xgrid.len"] = len(raw)
    return s


# ---------------------------------------------------------------------------
# symbolic comparison of two settings dictionaries
# ---------------------------------------------------------------------------
_SERVER = {}


def _start():
    _SERVER["s"] = CS.ReplayServer(sys.modules[__name__])


def _decide(log, v, key, replay):
    return CS.decide(log, _SERVER["s"], MOD, "C41", v, key, replay, ({},))


def _engine_exc(e):
    return isinstance(e, (SymbolicEscape, EngineError, PathBudgetExceeded))


def compare_settings(log, label, want, got, keyprefix, replay_fn, rk):
    for name in sorted(want):
        what = "%s %s: current[%s] == legacy[%s]" % (label, keyprefix, name, name)
        key = "%s:%s" % (keyprefix, name.split(".")[0] if name.startswith(("xgrid.", "n3lo", "mu.", "nf.")) else name)
        rep = (MOD, replay_fn, dict(rk, name=name))
        if name not in got:
            _decide(log, prove_formula(z3.BoolVal(False), what + "  [setting missing in the new card]"), key, rep)
            continue
        w, g = want[name], got[name]
        c = CS.Cmp()
        if isinstance(w, tuple) and w and w[0] in ("lin", "sq"):
            gv = g[1]
            if w[0] == "sq":  # new linear scale mu >= 0 with mu^2 == Q^2
                c.leaf(gv * gv, w[1], name)
                nn = gv >= 0
                if not (nn is True):
                    c.eqs.append(S.symbool_to_z3(nn) if not isinstance(nn, bool) else z3.BoolVal(nn))
            else:
                c.leaf(gv, w[1], name)
        else:
            c.same(g, w, name)
        if c.mismatch:
            _decide(log, prove_formula(z3.BoolVal(False), what + "  [" + "; ".join(c.mismatch[:2]) + "]"), key, rep)
        else:
            _decide(log, prove_formula(c.formula(), what), key, rep)


def _flat(settings, ev=lambda v: v):
    """settings dictionary -> {name: plain python value} (numbers as float/int/bool, enums by name)"""
    import enum
    import numpy as np

    out = {}
    for k, v in settings.items():
        if isinstance(v, tuple) and v and v[0] in ("lin", "sq"):
            v = v[1]
        v = ev(v)
        if isinstance(v, np.generic):
            v = v.item()
        if isinstance(v, enum.Enum):
            v = "enum:" + v.name
        if isinstance(v, float) and v != v:
            v = "nan"
        out[k] = v
    return out


def _validate(log, label, real, mine):
    """translator validation: the settings the MODEL reads off the upgraded cards at the default point equal those
    of the REAL code (computed in this process before any module was patched)"""
    if real is None:
        return
    for k in sorted(set(real) | set(mine)):
        a, b = mine.get(k, "<missing>"), real.get(k, "<missing>")
        same = (abs(a - b) <= 1e-9 * max(1.0, abs(a), abs(b))) if isinstance(a, (int, float)) and isinstance(b, (int, float)) and not isinstance(a, bool) \
            and not isinstance(b, bool) else (a == b and type(a) is type(b))
        if not same:
            log.inconclusive.append("translator validation failed for %s: %s: model %r vs real %r" % (label, k, a, b))
            return
    log.validate(len(real))


def real_settings(kind, var):
    """(real, unpatched code) settings of the upgraded cards at the builders' default point"""
    from eko.io import runcards as rc
    from eko.io import v1, v2

    mk = CS.ConcMk({}, "py")
    try:
        if kind == "theory":
            return _flat(read_current_theory(rc.Legacy(old_theory(mk, var), old_operator(mk, {"n": 2})).new_theory))
        if kind == "operator":
            return _flat(read_current_operator(rc.Legacy(old_theory(mk, var), old_operator(mk, var)).new_operator))
        nt, no = _upgrade(v1, v2, var["version"], v_theory(mk, var), v_operator(mk, var), v_theory(mk, var))
        d = _flat(read_current_theory_v(nt))
        d.update({"op." + k: v for k, v in _flat(read_current_operator(no)).items()})
        return d
    except Exception as e:
        return {"EXC": type(e).__name__}


def model_settings(kind, var, rc, v1, v2):
    try:
        with CS.AtDefaultPoint("py") as pt:
            mk = pt.mk
            if kind == "theory":
                return _flat(read_current_theory(rc.Legacy(old_theory(mk, var), old_operator(mk, {"n": 2})).new_theory), pt.ev)
            if kind == "operator":
                return _flat(read_current_operator(rc.Legacy(old_theory(mk, var), old_operator(mk, var)).new_operator), pt.ev)
            nt, no = _upgrade(v1, v2, var["version"], v_theory(mk, var), v_operator(mk, var), v_theory(mk, var))
            d = _flat(read_current_theory_v(nt), pt.ev)
            d.update({"op." + k: v for k, v in _flat(read_current_operator(no), pt.ev).items()})
            return d
    except Exception as e:
        if _engine_exc(e):
            raise
        return {"EXC": type(e).__name__}


def _setup():
    import importlib

    dl, ip, rc, mt, cnp = CS.sym_io_modules()
    CS.install_types(*CARD_CLASSES)
    v1 = importlib.import_module("eko.io.v1")
    v2 = importlib.import_module("eko.io.v2")
    return dl, ip, rc, mt, v1, v2


def _label(kind, var):
    return "%s{%s}" % (kind, ",".join("%s=%s" % kv for kv in sorted(var.items())))


# ---------------------------------------------------------------------------
# cases
# ---------------------------------------------------------------------------
def case_legacy_theory(log, items):
    _start()
    reals = [real_settings("theory", v) if not CS._INSTALLED else None for v in items]
    dl, ip, rc, mt, v1, v2 = _setup()
    log.encode(rc.Legacy.new_theory.fget, rc.Legacy.heavies, rc.Legacy.fallback, TheoryCard.__post_init__, dl.load_field, dl.load_typing)
    for var, real in zip(items, reals):
        label = _label("legacy-theory", var)
        rk = {"var": var}

        def run():
            mk = CS.SymMk("py")
            th = old_theory(mk, var)
            op = old_operator(mk, {"n": 2})
            want = read_legacy_theory(th)
            try:
                new = rc.Legacy(copy.copy(th), op).new_theory
            except Exception as e:
                if _engine_exc(e):
                    raise
                _decide(log, prove_formula(z3.BoolVal(False), "%s Legacy.new_theory is computed (raised %s: %s)" % (label, type(e).__name__, str(e)[:80])),
                        "new_theory:raises", (MOD, "replay_legacy_theory", dict(rk, name=None)))
                return
            got = read_current_theory(new)
            if th["HQ"] == "POLE":
                want = {k: v for k, v in want.items() if not k.endswith(".scale") or k == "alphas.scale"}
            compare_settings(log, label, want, got, "new_theory", "replay_legacy_theory", rk)
            log.twin(label)
            log.collect_ctx()

        _r, pm = explore(run, max_paths=64)
        log.path_stats(pm)
        _validate(log, label, real, model_settings("theory", var, rc, v1, v2) if real is not None else None)


def _nf_formula(mu2, walls, nf):
    """[D4] nf = 3 + number of matching scales passed; at a matching scale itself either side is accepted"""
    def z(x):
        if isinstance(x, SR):
            q = x.v.canon() if x.v.den else x.v
            if q.den:
                raise EngineError("scale with a denominator in the default-flow formula")
            return S.poly_to_z3(q.n.reduce())
        return z3.RealVal(str(Fraction(x)))

    zm = z(mu2)
    lo = z3.Sum([z3.If(zm > z(w), 1, 0) for w in walls]) + 3
    hi = z3.Sum([z3.If(zm >= z(w), 1, 0) for w in walls]) + 3
    zn = nf.e if isinstance(nf, CS.IL) else z3.IntVal(int(nf))
    return z3.And(zn >= lo, zn <= hi)


def case_legacy_operator(log, items):
    _start()
    reals = [real_settings("operator", v) if not CS._INSTALLED else None for v in items]
    dl, ip, rc, mt, v1, v2 = _setup()
    log.encode(rc.Legacy.new_operator.fget, rc.default_atlas, rc.flavored_mugrid, mt.nf_default, mt.Atlas.__init__, mt.Atlas.normalize,
               ip.XGrid.__init__, dl.load_field, dl.load_typing, dl.load_enum)
    for var, real in zip(items, reals):
        label = _label("legacy-operator", var)
        rk = {"var": var}

        def run():
            mk = CS.SymMk("py")
            th = old_theory(mk, var)
            walls = [w * w for w in thresholds_increasing(mk, th)]
            op = old_operator(mk, var)
            want = read_legacy_operator(th, op)
            try:
                new = rc.Legacy(th, copy.copy(op)).new_operator
            except Exception as e:
                if _engine_exc(e):
                    raise
                _decide(log, prove_formula(z3.BoolVal(False), "%s Legacy.new_operator is computed (raised %s: %s)" % (label, type(e).__name__, str(e)[:80])),
                        "new_operator:raises", (MOD, "replay_legacy_operator", dict(rk, name=None)))
                return
            got = read_current_operator(new)
            compare_settings(log, label, want, got, "new_operator", "replay_legacy_operator", rk)
            # number of flavours of the evolution points: default flow [D4]
            pts = [("nf.%d" % i, new.mugrid[i][0] * new.mugrid[i][0], new.mugrid[i][1]) for i in range(len(new.mugrid))]
            if th["nf0"] is None:
                pts.append(("init.nf", th["Q0"] * th["Q0"], new.init[1]))
            for name, mu2, nf in pts:
                v = prove_formula(_nf_formula(mu2, walls, nf), "%s new_operator: %s follows the default flow (3 + matching scales passed)" % (label, name))
                _decide(log, v, "new_operator:nf-default-flow", (MOD, "replay_legacy_operator", dict(rk, name=name)))
            log.twin(label)
            log.collect_ctx()

        _r, pm = explore(run, max_paths=256)
        log.path_stats(pm)
        _validate(log, label, real, model_settings("operator", var, rc, v1, v2) if real is not None else None)


# ---- data versions 1 / 2 -------------------------------------------------------------------------------
def v_theory(mk, var):
    """[D5] theory card as written by eko 0.13 / 0.14"""
    scheme = var.get("HQ", "POLE")
    th = dict(
        order=[mk.int("o_qcd", 2, 1, 4), mk.int("o_qed", 0, 0, 2)],
        couplings=dict(alphas=mk.float("alphas", 0.35, positive=True), alphaem=mk.float("alphaem", 0.007496, positive=True),
                       scale=mk.float("scale", 1.4142, positive=True), num_flavs_ref=mk.int("nf_ref", 3, 3, 6), max_num_flavs=mk.int("nf_max_as", 6, 3, 6),
                       em_running=mk.bool("em_running", False, tag="bool")),
        heavy=dict(num_flavs_init=mk.int("nf_init", 3, 3, 6), num_flavs_max_pdf=mk.int("nf_max_pdf", 6, 3, 6), intrinsic_flavors=[],
                   masses=[[mk.float("m" + q, d, positive=True), mk.float("Qm" + q, d, positive=True)] for q, d in zip("cbt", (1.4142, 4.5, 175.0))],
                   masses_scheme=scheme, matching_ratios=[mk.float("k%sThr" % q, 1.0, positive=True) for q in "cbt"]),
        xif=mk.float("xif", 1.0, positive=True),
        n3lo_ad_variation=[mk.int("n3lo%d" % i, 0, 0, 3) for i in range(7)],
    )
    if var["version"] == 2:  # [D5]; cards written by 0.13 have no such key (v1.update_theory supplies one)
        th["matching_order"] = [mk.int("mo_qcd", 1, 0, 3), mk.int("mo_qed", 0, 0, 1)]
    fh = var.get("fh", "use_fhmruvv")
    if fh:
        th[fh] = mk.bool("fh", False, tag="bool")
    return th


def v_operator(mk, var):
    n = 3
    xs = [mk.float("x%d" % i, [1e-3, 0.1, 1.0][i], positive=True) for i in range(n)]
    mk.increasing(xs)
    k = var.get("k", 0)
    return dict(
        mu0=mk.float("mu0", 1.65, positive=True),
        mugrid=[[mk.float("mu_%d" % i, 10.0 * (i + 1), positive=True), mk.int("nf_%d" % i, 5, 3, 6)] for i in range(2)],
        xgrid=xs,
        configs=dict(evolution_method=list(EvolutionMethod)[k % 8].value, ev_op_max_order=[mk.int("maxo_qcd", 10, 1, 20), mk.int("maxo_qed", 0, 0, 2)],
                     ev_op_iterations=mk.int("iters", 10, 1, 60), interpolation_polynomial_degree=mk.int("deg", 2, 1, n - 1),
                     interpolation_is_log=mk.bool("is_log", True, tag="bool"), scvar_method=MODSV[k % 3], inversion_method=[None, "exact", "expanded"][k % 3],
                     n_integration_cores=mk.int("cores", 1, 1, 64), polarized=mk.bool("polarized", False, tag="bool"), time_like=mk.bool("time_like", False, tag="bool")),
        debug=dict(skip_singlet=mk.bool("skip_s", False, tag="bool"), skip_non_singlet=mk.bool("skip_ns", False, tag="bool")),
        eko_version="0.13.5" if var["version"] == 1 else "0.14.2",
    )


def read_v_theory(th, version):
    s = {}
    s["order.qcd"], s["order.qed"] = th["order"][0], th["order"][1]
    c = th["couplings"]
    s["alphas"], s["alphaem"] = c["alphas"], c["alphaem"]
    s["alphas.scale"], s["alphas.nf"] = c["scale"], c["num_flavs_ref"]  # [D5] the reference point was stored as two keys
    s["em_running"] = c["em_running"]
    h = th["heavy"]
    for i, q in enumerate("cbt"):
        s["mass.%s" % q], s["mass.%s.scale" % q] = h["masses"][i][0], h["masses"][i][1]
        s["matching_ratio.%s" % q] = h["matching_ratios"][i]
    s["mass.scheme"] = QuarkMassScheme[h["masses_scheme"]] if h["masses_scheme"] in QuarkMassScheme.__members__ else QuarkMassScheme(h["masses_scheme"])
    s["xif"] = th["xif"]
    for i, v in enumerate(th["n3lo_ad_variation"]):
        s["n3lo_ad_variation.%d" % i] = v
    if "matching_order" in th:
        s["matching_order.qcd"], s["matching_order.qed"] = th["matching_order"][0], th["matching_order"][1]
    else:
        # [D2] "If not provided it will use this assumption as default": before the key existed the matching
        # conditions were always one order below the evolution
        s["matching_order.qcd"] = th["order"][0] - 1
        s["matching_order.qed"] = 0
    for k in ("use_fhmruvv", "use_fhmv"):
        if k in th:
            s["use_fhmruvv"] = th[k]
    return s


def read_current_theory_v(t):
    s = read_current_theory(t)
    s["em_running"] = t.couplings.em_running
    return s


def read_v_operator(th, op):
    s = {}
    s["init.scale"], s["init.nf"] = op["mu0"], th["heavy"]["num_flavs_init"]  # [D5]
    for i, (mu, nf) in enumerate(op["mugrid"]):
        s["mu.%d" % i] = ("lin", mu)
        s["nf.%d" % i] = nf
    c = op["configs"]
    s["method"] = EvolutionMethod(c["evolution_method"])
    s["scvar"] = None if c["scvar_method"] is None else ScaleVariationsMethod(c["scvar_method"])
    s["inversion"] = None if c["inversion_method"] is None else InversionMethod(c["inversion_method"])
    s["interp.degree"], s["interp.is_log"] = c["interpolation_polynomial_degree"], c["interpolation_is_log"]
    s["iterations"], s["max_order.qcd"] = c["ev_op_iterations"], c["ev_op_max_order"][0]
    s["polarized"], s["time_like"] = c["polarized"], c["time_like"]
    s["debug.skip_singlet"], s["debug.skip_non_singlet"] = op["debug"]["skip_singlet"], op["debug"]["skip_non_singlet"]
    for i, x in enumerate(op["xgrid"]):
        s["xgrid.%d" % i] = x
    s["xgrid.len"] = len(op["xgrid"])
    return s


def _upgrade(v1, v2, version, raw_th, raw_op, raw_th_again):
    """the call sequence of eko.io.struct.EKO.theory_card / operator_card (each reads the files afresh)"""
    vm = v1 if version == 1 else v2
    new_th = TheoryCard.from_dict(vm.update_theory(raw_th))
    new_op = OperatorCard.from_dict(vm.update_operator(raw_op, raw_th_again))
    return new_th, new_op


# ---- metadata of data versions 1 / 2 ------------------------------------------------------------------------------
def v_metadata(mk, var):
    """metadata.yaml of an archive written by 0.13 / 0.14: the grid sits under bases.xgrid in XGrid.dump() form"""
    n = 3
    xs = [mk.float("x%d" % i, [1e-3, 0.1, 1.0][i], positive=True) for i in range(n)]
    mk.increasing(xs)
    return {"origin": [mk.float("mu20", 2.7225, positive=True), mk.int("nf0", 4, 3, 6)],
            "bases": {"xgrid": {"grid": xs, "log": mk.bool("xlog", False, tag="bool")}, "_inputgrid": None, "_inputpids": None, "_targetgrid": None,
                      "_targetpids": None},
            "version": "0.13.5" if var["version"] == 1 else "0.14.2", "data_version": 1}


def _load_metadata_model(md, raw):
    """Metadata.load with the file system replaced: yaml.safe_load returns `raw`"""
    import types

    md.yaml = types.SimpleNamespace(safe_load=lambda text: raw, safe_dump=None)
    md.InternalPaths = lambda p: types.SimpleNamespace(metadata=types.SimpleNamespace(read_text=lambda encoding=None: ""))
    return md.Metadata.load("/nonexistent")


def case_metadata(log, items):
    import importlib

    _start()
    dl, ip, rc, mt, v1, v2 = _setup()
    md = importlib.import_module("eko.io.metadata")
    CS.install_types(md.Metadata)
    log.encode(md.Metadata.load, v1.update_metadata, v2.update_metadata, ip.XGrid.load, ip.XGrid.__init__, dl.load_field)
    for var in items:
        label = _label("metadata-v%d" % var["version"], var)
        rk = {"var": var}
        kp = "v%d.update_metadata:" % var["version"]

        def run():
            mk = CS.SymMk("py")
            ref = v_metadata(mk, var)
            try:
                new = _load_metadata_model(md, v_metadata(mk, var))
            except Exception as e:
                if _engine_exc(e):
                    raise
                _decide(log, prove_formula(z3.BoolVal(False), "%s Metadata.load is computed (raised %s: %s)" % (label, type(e).__name__, str(e)[:80])),
                        kp + "raises", (MOD, "replay_metadata", dict(rk, name=None)))
                return
            checks = [("xgrid.log", new.xgrid.log, ref["bases"]["xgrid"]["log"]), ("xgrid.points", list(new.xgrid.raw), list(ref["bases"]["xgrid"]["grid"])),
                      ("origin", list(new.origin), list(ref["origin"])), ("data_version", new.data_version, var["version"]),
                      ("version", new.version, ref["version"])]
            for name, got, want in checks:
                c = CS.Cmp()
                c.same(got, want, name)
                v = prove_formula(c.formula() if not c.mismatch else z3.BoolVal(False),
                                  "%s loaded metadata: %s is the archive's %s" % (label, name, c.mismatch[:1] or ""))
                _decide(log, v, kp + name, (MOD, "replay_metadata", dict(rk, name=name)))
            log.twin(label)
            log.collect_ctx()

        _r, pm = explore(run, max_paths=64)
        log.path_stats(pm)


def replay_metadata(point, var, name):
    """REAL Metadata.load on a metadata.yaml written to a temporary directory"""
    import pathlib
    import tempfile

    import numpy as np
    import yaml
    from eko.io.metadata import Metadata

    ref = v_metadata(CS.ConcMk(point, "py"), var)
    with tempfile.TemporaryDirectory() as d:
        (pathlib.Path(d) / "metadata.yaml").write_text(yaml.safe_dump(ref), encoding="utf-8")
        try:
            new = Metadata.load(d)
        except Exception as e:
            return {"detail": "Metadata.load of a data-version-%d archive raised %s: %s" % (var["version"], type(e).__name__, e)} if name is None else None
    if name is None:
        return None
    want_grid, want_log = ref["bases"]["xgrid"]["grid"], ref["bases"]["xgrid"]["log"]
    bad = {"xgrid.log": bool(new.xgrid.log) is not bool(want_log),
           "xgrid.points": len(new.xgrid.raw) != len(want_grid) or not np.allclose(new.xgrid.raw, want_grid, rtol=1e-12, atol=0),
           "origin": _num_differs(float(new.origin[0]), float(ref["origin"][0])) or int(new.origin[1]) != int(ref["origin"][1]),
           "data_version": int(new.data_version) != var["version"], "version": new.version != ref["version"]}[name]
    if bad:
        return {"detail": "data version %d metadata (version %s, bases.xgrid = {grid: %r, log: %r}, origin %r): loaded %s is wrong: xgrid.log=%r, points=%r, "
                "origin=%r, data_version=%r" % (var["version"], ref["version"], want_grid, want_log, ref["origin"], name, new.xgrid.log,
                                                list(new.xgrid.raw), new.origin, new.data_version)}
    return None


def case_versions(log, items):
    _start()
    reals = [real_settings("versions", v) if not CS._INSTALLED else None for v in items]
    dl, ip, rc, mt, v1, v2 = _setup()
    log.encode(v1.update_theory, v1.update_operator, v2.update_theory, v2.update_operator, TheoryCard.__post_init__, dl.load_field, dl.load_typing)
    for var, real in zip(items, reals):
        label = _label("v%d" % var["version"], var)
        rk = {"var": var}

        def run():
            mk = CS.SymMk("py")
            ref_th, ref_op = v_theory(mk, var), v_operator(mk, var)
            want_th, want_op = read_v_theory(ref_th, var["version"]), read_v_operator(ref_th, ref_op)
            try:
                new_th, new_op = _upgrade(v1, v2, var["version"], v_theory(mk, var), v_operator(mk, var), v_theory(mk, var))
            except Exception as e:
                if _engine_exc(e):
                    raise
                _decide(log, prove_formula(z3.BoolVal(False), "%s cards of data version %d load (raised %s: %s)" % (label, var["version"], type(e).__name__, str(e)[:80])),
                        "v%d:raises" % var["version"], (MOD, "replay_versions", dict(rk, name=None)))
                return
            compare_settings(log, label, want_th, read_current_theory_v(new_th), "v%d.update_theory" % var["version"], "replay_versions", dict(rk, card="theory"))
            compare_settings(log, label, want_op, read_current_operator(new_op), "v%d.update_operator" % var["version"], "replay_versions", dict(rk, card="operator"))
            log.twin(label)
            log.collect_ctx()

        _r, pm = explore(run, max_paths=64)
        log.path_stats(pm)
        _validate(log, label, real, model_settings("versions", var, rc, v1, v2) if real is not None else None)


# ---------------------------------------------------------------------------
# replays: REAL code on concrete dictionaries; the reference reading evaluated on plain python numbers
# ---------------------------------------------------------------------------
def _num_differs(a, b):
    import math

    if isinstance(a, bool) or isinstance(b, bool) or a is None or b is None or not isinstance(a, (int, float)) or not isinstance(b, (int, float)):
        try:
            import numpy as np

            if isinstance(a, (np.generic,)):
                a = a.item()
            if isinstance(b, (np.generic,)):
                b = b.item()
        except Exception:
            pass
        if isinstance(a, (int, float)) and isinstance(b, (int, float)) and not isinstance(a, bool) and not isinstance(b, bool):
            pass
        else:
            return not (a is b or a == b and type(a) is type(b))
    if math.isnan(a) and math.isnan(b):
        return False
    return abs(a - b) > 1e-9 * max(abs(a), abs(b), 1e-300)


def _concrete_diff(name, want, got):
    if name not in got:
        return "setting %s is missing in the upgraded card" % name
    w, g = want[name], got[name]
    if isinstance(w, tuple) and w and w[0] in ("lin", "sq"):
        gv = float(g[1])
        target = float(w[1]) if w[0] == "lin" else float(w[1]) ** 0.5
        return None if not _num_differs(gv, target) else "%s: new card has mu = %r, legacy card says %s" % (name, gv, "mu = %r" % target if w[0] == "lin" else "mu^2 = %r" % float(w[1]))
    if _num_differs(g, w):
        return "%s: new card has %r, legacy card says %r" % (name, g, w)
    return None


def _nf_flow(mu2, walls):
    lo = 3 + sum(1 for w in walls if mu2 > w)
    hi = 3 + sum(1 for w in walls if mu2 >= w)
    return lo, hi


def replay_legacy_theory(point, var, name):
    from eko.io import runcards as rc

    mk = CS.ConcMk(point, "py")
    th, op = old_theory(mk, var), old_operator(mk, {"n": 2})
    want = read_legacy_theory(th)
    try:
        new = rc.Legacy(copy.deepcopy(th), op).new_theory
    except Exception as e:
        return {"detail": "Legacy.new_theory raised %s: %s for %r" % (type(e).__name__, e, th)} if name is None else None
    if name is None or name not in want:
        return None
    d = _concrete_diff(name, want, read_current_theory(new))
    return {"detail": "Legacy(%r).new_theory: %s" % ({k: v for k, v in th.items() if not isinstance(v, str) or k in ("HQ",)}, d)} if d else None


def replay_legacy_operator(point, var, name):
    from eko.io import runcards as rc

    mk = CS.ConcMk(point, "py")
    th = old_theory(mk, var)
    ws = [float(w) ** 2 for w in thresholds_increasing(mk, th)]
    if not ws[0] < ws[1] < ws[2]:
        return None  # outside the domain of the default flow
    op = old_operator(mk, var)
    want = read_legacy_operator(th, op)
    try:
        new = rc.Legacy(copy.deepcopy(th), copy.deepcopy(op)).new_operator
    except Exception as e:
        return {"detail": "Legacy.new_operator raised %s: %s" % (type(e).__name__, e)} if name is None else None
    if name is None:
        return None
    got = read_current_operator(new)
    if name.startswith("nf.") or (name == "init.nf" and th["nf0"] is None):
        mu = float(new.mugrid[int(name[3:])][0]) if name.startswith("nf.") else float(th["Q0"])
        nf = got[name]
        lo, hi = _nf_flow(mu * mu, ws)
        if not lo <= int(nf) <= hi:
            return {"detail": "Legacy.new_operator: %s = %r at mu = %r, default flow over matching scales %r gives %d" % (name, nf, mu, ws, lo)}
        return None
    if name not in want:
        return None
    d = _concrete_diff(name, want, got)
    return {"detail": "Legacy.new_operator (ModEv=%r, grid key %r): %s" % (th["ModEv"], var.get("grid", "mugrid"), d)} if d else None


def replay_versions(point, var, name, card=None):
    from eko.io import v1, v2

    def mk():
        return CS.ConcMk(point, "py")

    ref_th, ref_op = v_theory(mk(), var), v_operator(mk(), var)
    try:
        new_th, new_op = _upgrade(v1, v2, var["version"], v_theory(mk(), var), v_operator(mk(), var), v_theory(mk(), var))
    except Exception as e:
        return {"detail": "cards of data version %d: %s: %s" % (var["version"], type(e).__name__, e)} if name is None else None
    if name is None:
        return None
    if card == "theory":
        want, got = read_v_theory(ref_th, var["version"]), read_current_theory_v(new_th)
    else:
        want, got = read_v_operator(ref_th, ref_op), read_current_operator(new_op)
    if name not in want:
        return None
    d = _concrete_diff(name, want, got)
    return {"detail": "data version %d %s card (order=%r): %s" % (var["version"], card, ref_th["order"], d)} if d else None


# ---------------------------------------------------------------------------
def main():
    chk = H.Check("C41", level="other")
    chk.explanation = (
        "Differential check against a reference reading of the legacy keys written from the documentation named in the module docstring "
        "([D1]-[D5]); the reference never calls the converter, but it is a second reading of the same conventions by the author of the check, "
        "not an independent computation: a convention misread identically by converter and reference would go unnoticed.  Decided with z3 over "
        "symbolic numeric leaves per named setting; configuration keys (HQ, ModEv, ModSV, inversion, grid key, optional keys) enumerated.")
    chk.bounds = [
        "legacy theory cards: PTO 0..3, QED 0..2, nfref/nf0 3..6 as symbolic integers; couplings, scales, masses, ratios, XIF symbolic reals > 0; "
        "HQ in {POLE, MSBAR}; alpha_em: alphaqed and alphaem each a value >= 0 (zero included) / None / absent, in 7 combinations; Qedref present / absent; optional keys (n3lo_ad_variation, PTO_matching, "
        "use_fhmruvv) all present / all absent",
        "legacy operator cards: x grid of 3 symbolic points, 1..2 evolution points given as mugrid / Q2grid / mu2grid, all 11 ModEv spellings, "
        "ModSV in {None, exponentiated, expanded, key absent}, backward_inversion in {exact, expanded, key absent}, nf0 given / None; matching scales k_c m_c < k_b m_b < k_t m_t",
        "data versions 1 and 2: theory and operator cards in the 0.13/0.14 layout of extras/lh_bench_23/cfg.py, call sequence of EKO.theory_card / "
        "EKO.operator_card; metadata.yaml of versions 0.13.5 / 0.14.2 through the real Metadata.load (grid of 3 symbolic points, log flag symbolic, "
        "origin symbolic; yaml and the path object stubbed, real files in the replay); v1: use_fhmv / use_fhmruvv / neither, no matching_order key; v2: use_fhmruvv / neither, matching_order present",
    ]
    chk.out_of_claim = [
        "archives (tar/npy) and operators; the old metadata layout is taken as what v1/v2.update_metadata read: the current fields with the grid in "
        "XGrid.dump() form under bases.xgrid",
        "legacy keys without a documented meaning in the repository: em_running (derived from Qedref by the converter), WHICH method is chosen when "
        "ModSV / backward_inversion are absent (the upgrade must succeed and carry every other setting), the QED entry of ev_op_max_order, nfref = None, FNS/NfFF/IC/IB/MaxNf*",
        "xgrid.log of the upgraded operator card (C40 reports that interpolation_is_log is not transferred to the grid)",
        "evolution points exactly on a matching scale (either number of flavours accepted); unsorted matching scales",
        "n_integration_cores (not a physical setting; v1 resets it to 1)",
    ]
    chk.stubs = ["cardsym leaf model (float/int/bool constructor stand-ins, numpy array/sqrt/isclose/digitize on leaves); math.nan written by the converter "
                 "is a marker object", "SR.__format__ returns a placeholder (Atlas.__str__ builds a log line)"]
    chk.assumptions = ["the reference reading [D1]-[D5] is the intended meaning of the legacy keys (trusted base of this check)"]
    thorough = H.tier() == "thorough"
    th_items = []
    for hq in ("POLE", "MSBAR"):
        for aem in ("alphaqed", "alphaem", "none"):
            for extras in (False, True):
                th_items.append({"HQ": hq, "aem": aem, "extras": extras, "qedref": extras})
    for i, aem in enumerate(("both", "qed_none", "em_none", "both_none")):
        th_items.append({"HQ": ["POLE", "MSBAR"][i % 2], "aem": aem, "extras": bool(i % 2), "qedref": False})
    chk.case("legacy.theory.a", case_legacy_theory, items=th_items[:6])
    chk.case("legacy.theory.b", case_legacy_theory, items=th_items[6:12])
    chk.case("legacy.theory.c", case_legacy_theory, items=th_items[12:])
    op_items = [{"modev": k, "modsv": k, "inv": k, "grid": ["mugrid", "Q2grid", "mu2grid"][k % 3], "nmu": 1, "HQ": ["POLE", "MSBAR"][k % 2]} for k in range(len(MODEV))]
    for g in ("mugrid", "Q2grid", "mu2grid"):
        op_items.append({"modev": 0, "grid": g, "nmu": 1, "nf0": "none"})
    op_items.append({"modev": 1, "grid": "Q2grid", "nmu": 2})
    op_items.append({"modev": 2, "modsv": "absent", "inv": "absent", "grid": "mugrid", "nmu": 1})
    op_items.append({"modev": 4, "modsv": "absent", "inv": 1, "grid": "mu2grid", "nmu": 1, "HQ": "MSBAR"})
    if thorough:
        for g in ("mugrid", "Q2grid", "mu2grid"):
            op_items.append({"modev": 2, "grid": g, "nmu": 2, "nf0": "none"})
        op_items.append({"modev": 3, "grid": "mu2grid", "nmu": 3})
    for i in range(0, len(op_items), 3):
        chk.case("legacy.operator.%d" % (i // 3), case_legacy_operator, items=op_items[i:i + 3])
    v_items = []
    for version in (1, 2):
        # use_fhmv is the 0.13 spelling (v1.update_theory documents the rename); it is not tried for 0.14 cards
        for k, fh in enumerate(("use_fhmruvv", "use_fhmv", None) if version == 1 else ("use_fhmruvv", None)):
            v_items.append({"version": version, "k": k + 3 * (version - 1), "fh": fh, "HQ": ["POLE", "MSBAR"][k % 2]})
    if thorough:
        for version in (1, 2):
            for k in range(8):
                v_items.append({"version": version, "k": k, "fh": "use_fhmruvv", "HQ": "MSBAR"})
    for i in range(0, len(v_items), 4):
        chk.case("versions.%d" % (i // 4), case_versions, items=v_items[i:i + 4])
    chk.case("versions.metadata", case_metadata, items=[{"version": 1}, {"version": 2}])
    try:
        return chk.run()
    finally:
        CS.release_keys("C41")


if __name__ == "__main__":
    sys.exit(main())
