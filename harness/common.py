"""Helpers shared by the per-property harnesses."""
import importlib
import os
import sys
from fractions import Fraction

os.environ.setdefault("NUMBA_DISABLE_JIT", "1")

from symx import harness as H  # noqa: F401  (sets sys.path for /repo/src)
from symx import shim, solver as S
from symx.val import SR, Cx, Q, ctx, assume, QZERO, QONE, EngineError, SymbolicEscape
from symx.poly import Poly
from symx.jet import Jet
import symx.jet as jetmod


def sym_module(name, **kw):
    """Import an eko module from /repo/src and rebind its numeric globals to the shim."""
    mod = importlib.import_module(name)
    shim.install(mod, **kw)
    return mod


def real_module(name):
    """Import the module under an alias with the *real* numpy (for replay / translator validation)."""
    key = "_real_." + name
    if key in sys.modules:
        return sys.modules[key]
    spec = importlib.util.find_spec(name)
    mod = importlib.util.module_from_spec(spec)
    sys.modules[key] = mod
    spec.loader.exec_module(mod)
    return mod


def frac(x, maxden=10**6):
    return Fraction(x).limit_denominator(maxden)


def rnd(rng, lo, hi, den=1000):
    """random rational in [lo,hi] with small denominator"""
    return Fraction(rng.randint(int(lo * den), int(hi * den)), den)


def series_inverse_poly(coefs, n):
    """coefficients c_0..c_{n-1} of 1/(1 + coefs[0] x + coefs[1] x^2 + ...) as SR expressions."""
    out = [SR(QONE)]
    for k in range(1, n):
        acc = SR(QZERO)
        for i in range(1, k + 1):
            if i - 1 < len(coefs):
                acc = acc + coefs[i - 1] * out[k - i]
        out.append(-acc)
    return out


def fpoint(point):
    return {k: float(v) for k, v in point.items()}
