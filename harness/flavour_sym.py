"""Solver helpers shared by the flavour-space harnesses (C31, C33, C32, C52, C01)."""
from fractions import Fraction

import z3

from .common import SR, Q, Poly, S, assume
from symx.solver import prove_formula, prove_zero, Verdict

TOL = Fraction(1, 10**12)


def fr(x):
    """float / numpy scalar / int -> the exact rational it denotes (nan/inf raise ValueError)."""
    if isinstance(x, Fraction):
        return x
    if hasattr(x, "item"):
        x = x.item()
    return Fraction(x)


def const(x):
    return SR(Q(Poly.const(fr(x))))


def box(syms, bound=1):
    """|s| <= bound for every symbol (linear obligations are homogeneous, so this is WLOG up to scaling)."""
    for s in syms:
        assume(bound - s, ">=0")
        assume(s + bound, ">=0")


def symvec(prefix, names):
    from .flavour_model import vname

    return [SR.var(vname(prefix, n)) for n in names]


def _nums(e):
    if isinstance(e, SR):
        q = e.v
        if q.den:
            q = q.canon()
        if q.den:
            raise ValueError("prove_small/prove_all_zero: residual with a symbolic denominator")
        return q.n.reduce()
    return Poly.const(fr(e))


def _model(m):
    out = {}
    for k, v in (m or {}).items():
        try:
            out[k] = Fraction(v)
        except (ValueError, ZeroDivisionError):
            pass
    return out


def prove_small(exprs, what, tol=TOL, timeout_ms=20000):
    """Every expression lies in [-tol, tol] for all points of the current domain (one query).
    If every residual is the zero polynomial the goal is closed by the normal form (solver confirms 0 != 0 unsat)."""
    polys = [p for p in (_nums(e) for e in exprs) if p.t]
    if not polys:
        return prove_zero(SR(0), what, timeout_ms=timeout_ms)
    tz = z3.RealVal(str(tol))
    goal = z3.And([z3.And(S.poly_to_z3(p) <= tz, S.poly_to_z3(p) >= -tz) for p in polys])
    v = prove_formula(goal, what, timeout_ms=timeout_ms)
    v.nterms = sum(len(p.t) for p in polys)
    v.model = _model(v.model) if v.model else None
    return v


def prove_all_zero(exprs, what, timeout_ms=20000):
    """Every expression is identically zero on the current domain (one query)."""
    polys = [p for p in (_nums(e) for e in exprs) if p.t]
    if not polys:
        return prove_zero(SR(0), what, timeout_ms=timeout_ms)
    goal = z3.And([S.poly_to_z3(p) == 0 for p in polys])
    v = prove_formula(goal, what, timeout_ms=timeout_ms)
    v.nterms = sum(len(p.t) for p in polys)
    v.model = _model(v.model) if v.model else None
    return v


def failed(what):
    """Verdict for an obligation that is violated without any solver query (e.g. the real code raised)."""
    return Verdict("sat", what, None, {}, 0.0, None, 1)


def lin(coefs, syms):
    """sum_k coefs[k] * syms[k] with exact rational coefficients (zeros skipped)."""
    tot = SR(0)
    for c, s in zip(coefs, syms):
        c = fr(c)
        if c:
            tot = tot + s * c
    return tot


def evalf(expr, point):
    """numeric value of an SR at a point {name: number}"""
    return float(S.NumEnv({k: Fraction(v) for k, v in point.items()}).value(expr))


def decide_once(log, v, key, **kw):
    """log.decide, but a finding already replayed in this case (same key) is not replayed again: every replay starts a
    clean interpreter that imports eko (about 10 s)."""
    if not v.holds and any(x["key"] == key for x in log.violations):
        log.obligations.append({"case": log.case, "what": v.what, "status": v.status, "time_s": round(v.time, 4), "residual_terms": v.nterms,
                                "note": "same finding as the replayed violation with key %s" % key})
        return False
    return log.decide(v, key=key, **kw)
