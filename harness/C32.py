"""C32  Evolution-basis operators are reconstructed exactly in the flavour basis.

Real code executed symbolically: PhysicalOperator.ad_to_evol_map, MatchingCondition.split_ad_to_evol_map,
OperatorBase.promote_names / to_flavor_basis_tensor, OpMember.__init__/copy/id_like (module global np of eko.member
rebound to the shim), flavors.get_range, pids_from_intrinsic_evol, pids_from_intrinsic_unified_evol,
rotate_pm_to_flavor (real numpy: their float weights are read as exact rationals).

Symbolic inputs: every entry of every operator member the maps read (grid size g = 1, 2; thorough also 3), |m| <= 1
(the tensor is linear in the members).  Cases: physical nf 3..6, matching nf 3..5 (nf below the threshold), QCD/QED.
Thorough: all label pairs "T.I" with T in the intrinsic basis of nf_out and I in the intrinsic basis of nf_in, for all
16 (nf_in, nf_out) pairs (covers every label set, in particular nf_in != nf_out).

Goal: tensor == R_out^+ . blockdiag(members) . R_in, the reference built from harness.flavour_model:
R_in rows = documented flavour content of the input labels with nf_in flavours, R_out^+ = Moore-Penrose inverse of the
complete intrinsic basis with nf_out flavours computed by exact Gaussian elimination (orthogonality not assumed), block
structure from the documented meaning of the maps (heavy intrinsic quarks through h+-, evolving with the identity).
"""
from fractions import Fraction

from .common import *  # noqa
from symx.solver import explore
from symx.val import SymbolicEscape, EngineError
from symx import harness as H
from . import flavour_model as M
from . import flavour_ops as O
from .flavour_sym import box, prove_small, failed, evalf, decide_once

MOD = "harness.C32"


def _tag(qed):
    return "qed" if qed else "qcd"


def case_maps(log, kind, nfs, qed, g):
    """several nf in one worker task (forking a worker with eko loaded costs more than one case)"""
    for nf in nfs:
        case_map(log, kind, nf, qed, g)


def case_pairs_group(log, nf_in, qed):
    for nf_out in (3, 4, 5, 6):
        case_pairs(log, nf_in, nf_out, qed)


def case_map(log, kind, nf, qed, g):
    mods = O.modules()
    member, physical, matching, fl = mods
    log.encode(physical.PhysicalOperator.ad_to_evol_map if kind == "physical" else matching.MatchingCondition.split_ad_to_evol_map,
               member.OperatorBase.to_flavor_basis_tensor, member.OperatorBase.promote_names, member.OpMember.id_like,
               fl.get_range, fl.pids_from_intrinsic_evol, fl.pids_from_intrinsic_unified_evol, fl.rotate_pm_to_flavor)
    kw = {"kind": kind, "nf": nf, "qed": qed, "g": g}
    key = ("PhysicalOperator.ad_to_evol_map" if kind == "physical" else "MatchingCondition.split_ad_to_evol_map") + "[%s]" % _tag(qed)

    def run():
        try:
            val, members, op = O.run_map(mods, kind, nf, qed, g)
        except (SymbolicEscape, EngineError):
            raise
        except Exception as e:  # noqa
            v = failed("%s map + to_flavor_basis_tensor(nf=%d, %s, grid %d) returns a tensor: raised %s: %s" % (kind, nf, _tag(qed), g, type(e).__name__, e))
            decide_once(log, v, key=key + ":raises", replay=(MOD, "replay_map", kw), sampler=_sampler_any)
            return
        box(members.symbols())
        blocks = O.blocks_of(kind, nf, qed)
        want = O.oracle_tensor(blocks, nf, nf, qed, g, lambda k, a, b: members[k].value[a, b])
        for o in range(O.NPID):
            v = prove_small(O.residuals(val, want, g, o),
                            "%s(nf=%d, %s, grid %d): tensor[%s, :, :, :] == (R_out^+ . blockdiag(members) . R_in)[%s] for all member matrices"
                            % (kind, nf, _tag(qed), g, M.NAMES[o], M.NAMES[o]))
            decide_once(log, v, key=key + ":tensor", replay=(MOD, "replay_map", dict(kw, o=o)), sampler=_sampler_any)
        log.twin("domain")
        log.collect_ctx()
        _validate(log, kind, nf, qed, g, val, members)

    _r, pm = explore(run)
    log.path_stats(pm)


def _sampler_any(rng):
    return {"__seed__": rng.randint(1, 10**6)}


def _point_from(point, names):
    """replay point: solver model values where given, otherwise pseudo-random values derived from __seed__ (or 0)"""
    import random

    seed_ = point.get("__seed__")
    rng = random.Random(int(seed_)) if seed_ is not None else None
    out = {}
    for n in sorted(names):
        if n in point:
            out[n] = Fraction(point[n])
        else:
            out[n] = Fraction(rng.randint(-1000, 1000), 1000) if rng else Fraction(0)
    return out


def _validate(log, kind, nf, qed, g, val, members):
    """translator validation: symbolic tensor evaluated at a random point == real code on floats"""
    import numpy as np

    names = {O.mname(k, i, j) for k in members for i in range(g) for j in range(g)}
    pt = {n: rnd(log.rng, -1, 1) for n in names}
    real, _ = _real_tensor_unshimmed(kind, nf, qed, g, pt)
    for (o, i) in ((8, 9), (7, 7), (13, 1), (3, 11)):
        sym = evalf(O.lift(val[o, 0, i, g - 1]), pt)
        if abs(sym - real[o, 0, i, g - 1]) > 1e-10:
            log.inconclusive.append("translator validation failed for %s nf=%d %s at [%d,0,%d,%d]: %r vs %r" % (kind, nf, qed, o, i, g - 1, sym, real[o, 0, i, g - 1]))
        log.validate()


def _real_tensor_unshimmed(kind, nf, qed, g, pt):
    """inside the worker eko.member carries the shim; evaluate the same code on floats with the real numpy restored"""
    import numpy as np
    import eko.member as member

    saved = member.np
    member.np = np
    try:
        return O.real_tensor(kind, nf, qed, g, pt)
    finally:
        member.np = saved


# ---------------------------------------------------------------------------
# all label pairs, nf_in != nf_out
# ---------------------------------------------------------------------------
def case_pairs(log, nf_in, nf_out, qed):
    mods = O.modules()
    member, _p, _m, fl = mods
    log.encode(member.OperatorBase.to_flavor_basis_tensor, fl.get_range, fl.pids_from_intrinsic_evol, fl.pids_from_intrinsic_unified_evol)
    labs_in = M.basis(nf_in, qed, photon=qed)
    labs_out = M.basis(nf_out, qed, photon=qed)
    kw = {"nf_in": nf_in, "nf_out": nf_out, "qed": qed}

    def run():
        import numpy as np

        syms, ops, blocks = [], {}, {}
        for T in labs_out:
            for I in labs_in:
                s = SR.var("e_%s_%s" % (M.vname("t", T), M.vname("i", I)))
                syms.append(s)
                ops["%s.%s" % (T, I)] = member.OpMember(np.array([[s]], dtype=object), np.zeros((1, 1)))
                blocks[(T, I)] = (T, I)
        box(syms)
        look = {(T, I): ops["%s.%s" % (T, I)].value[0, 0] for (T, I) in blocks}
        try:
            val, _err = member.OperatorBase.promote_names(ops, 1.0).to_flavor_basis_tensor(qed)
        except (SymbolicEscape, EngineError):
            raise
        except Exception as e:  # noqa
            v = failed("to_flavor_basis_tensor on all label pairs (nf_in=%d, nf_out=%d, %s): raised %s: %s" % (nf_in, nf_out, _tag(qed), type(e).__name__, e))
            decide_once(log, v, key="to_flavor_basis_tensor[%s]:raises" % _tag(qed), replay=(MOD, "replay_pairs", kw), sampler=_sampler_any)
            return
        want = O.oracle_tensor(blocks, nf_in, nf_out, qed, 1, lambda k, a, b: look[k])
        for o in range(O.NPID):
            v = prove_small(O.residuals(val, want, 1, o), "all label pairs, nf_in=%d, nf_out=%d, %s: tensor[%s] == (R_out^+ . E . R_in)[%s] for every evolution-basis matrix E"
                            % (nf_in, nf_out, _tag(qed), M.NAMES[o], M.NAMES[o]))
            decide_once(log, v, key="to_flavor_basis_tensor[%s]:tensor" % _tag(qed), replay=(MOD, "replay_pairs", dict(kw, o=o)), sampler=_sampler_any)
        log.twin("domain")

    _r, pm = explore(run)
    log.path_stats(pm)


# ---------------------------------------------------------------------------
# rotated matching operators: label sets with nf_in != nf_out produced by the real operator algebra
# ---------------------------------------------------------------------------
def _rotated(mods, members, nf, qed, inverse):
    """forward : ScalarOperator(rotate_matching(nf+1)) @ MatchingCondition(nf)          targets nf+1 flavours, inputs nf
    inverse : MatchingCondition(nf) @ ScalarOperator(rotate_matching_inverse(nf+1))     targets nf flavours, inputs nf+1
    (OperatorBase.__matmul__ / operator_multiply / OpMember.__mul__/__add__ are the real ones)"""
    member, _physical, matching, fl = mods
    op = matching.MatchingCondition.split_ad_to_evol_map(members, nf, 1.0, qed)
    if inverse:
        rot = member.ScalarOperator.promote_names(fl.rotate_matching_inverse(nf + 1, qed), 1.0)
        return op @ rot
    rot = member.ScalarOperator.promote_names(fl.rotate_matching(nf + 1, qed), 1.0)
    return rot @ op


def case_rotated(log, nfs, qed, g):
    """A change of the evolution basis does not change the operator: the flavour-basis tensor of the rotated matching operator
    (forward: nf_out = nf_in + 1, inverse/backward: nf_out = nf_in - 1) must equal R^+ . blockdiag(members) . R of the unrotated
    matching condition, built from harness.flavour_model only (independent of rotate_matching, which C33 decides)."""
    mods = O.modules()
    member, _physical, matching, fl = mods
    log.encode(member.OperatorBase.to_flavor_basis_tensor, member.OperatorBase.__matmul__, member.OperatorBase.operator_multiply, fl.get_range,
               fl.rotate_matching, fl.pids_from_intrinsic_evol, fl.pids_from_intrinsic_unified_evol, matching.MatchingCondition.split_ad_to_evol_map)
    for nf in nfs:
        for inverse in (False, True):
            kw = {"nf": nf, "qed": qed, "g": g, "inverse": inverse}
            tag = "%s rotated matching %d -> %d flavours (%s, grid %d)" % ("inverse" if inverse else "forward", nf + 1 if inverse else nf, nf if inverse else nf + 1, _tag(qed), g)
            key = "to_flavor_basis_tensor[%s]:rotated-%s" % (_tag(qed), "inverse" if inverse else "forward")

            def run(nf=nf, inverse=inverse, kw=kw, tag=tag, key=key):
                members = O.SymMembers(member, g)
                try:
                    prod = _rotated(mods, members, nf, qed, inverse)
                    val, _err = prod.to_flavor_basis_tensor(qed)
                    got_range = fl.get_range(prod.op_members.keys(), qed)
                except (SymbolicEscape, EngineError):
                    raise
                except Exception as e:  # noqa
                    v = failed("%s returns a tensor: raised %s: %s" % (tag, type(e).__name__, e))
                    decide_once(log, v, key=key + ":raises", replay=(MOD, "replay_rotated", kw), sampler=_sampler_any)
                    return
                box(members.symbols())
                want = O.oracle_tensor(O.blocks_of("matching", nf, qed), nf, nf, qed, g, lambda k, a, b: members[k].value[a, b])
                for o in range(O.NPID):
                    v = prove_small(O.residuals(val, want, g, o), "%s: tensor[%s] == (R^+ . blockdiag(members) . R)[%s] of the unrotated matching, for all member matrices (label set has (nf_in, nf_out) = %r)"
                                    % (tag, M.NAMES[o], M.NAMES[o], got_range))
                    decide_once(log, v, key=key, replay=(MOD, "replay_rotated", dict(kw, o=o)), sampler=_sampler_any)
                log.twin("domain")

            _r, pm = explore(run)
            log.path_stats(pm)


# ---------------------------------------------------------------------------
# runner plumbing: the real runner.parts.evolve / runner.parts.match hand the QED flag of the theory card to BOTH the
# evolution-basis map and the blow-up (a map built for QCD labels blown up with the unified basis, or the reverse, is a
# different operator).  Operator / OperatorMatrixElement are replaced in the namespace of runner.parts by a stand-in
# whose compute() yields the symbolic members; everything after compute() is the real code.
# ---------------------------------------------------------------------------
def _parts_env(member_factory):
    """patch the namespace of eko.runner.parts; returns (parts, restore)"""
    import importlib, types

    parts = importlib.import_module("eko.runner.parts")
    saved = {k: getattr(parts, k) for k in ("evop", "ome", "_managers", "_evolve_configs", "_matching_configs", "Operator")}

    class _Evo:
        def __init__(self, config, managers, segment, is_threshold=False):
            self.nf, self.q2_to = segment.nf, segment.target

        def compute(self):
            self.op_members = member_factory()

    class _Ome:
        def __init__(self, config, managers, nf, q2, is_backward, L, is_msbar):
            self.nf, self.q2 = nf, q2

        def compute(self):
            self.op_members = member_factory()

    parts.evop = types.SimpleNamespace(Operator=_Evo, Managers=saved["evop"].Managers)
    parts.ome = types.SimpleNamespace(OperatorMatrixElement=_Ome)
    parts._managers = lambda eko: None
    parts._evolve_configs = lambda eko: {}
    parts._matching_configs = lambda eko: {}
    parts.Operator = lambda res, err: (res, err)

    def restore():
        for k, v in saved.items():
            setattr(parts, k, v)

    return parts, restore


def _parts_call(parts, kind, nf, qed_order):
    """kind 'evolve': segment with nf flavours; kind 'match': threshold of quark nf+1 (nf flavours below)"""
    import types
    from eko.io.items import Evolution, Matching
    from eko.quantities.heavy_quarks import QuarkMassScheme

    heavy = types.SimpleNamespace(squared_ratios=[1.0, 1.0, 1.0], masses_scheme=QuarkMassScheme.POLE)
    eko_ = types.SimpleNamespace(theory_card=types.SimpleNamespace(order=(2, qed_order), heavy=heavy), operator_card=None)
    if kind == "evolve":
        return parts.evolve(eko_, Evolution(origin=10.0, target=20.0, nf=nf, cliff=False))
    return parts.match(eko_, Matching(scale=10.0, hq=nf + 1, inverse=False))


def case_parts(log, g):
    mods = O.modules()
    member, physical, matching, fl = mods
    import importlib

    parts_mod = importlib.import_module("eko.runner.parts")
    log.encode(parts_mod.evolve, parts_mod.match, physical.PhysicalOperator.ad_to_evol_map, matching.MatchingCondition.split_ad_to_evol_map,
               member.OperatorBase.to_flavor_basis_tensor)
    log.assume("runner.parts: Operator / OperatorMatrixElement replaced by a stand-in whose compute() yields symbolic members; "
               "_managers, _evolve_configs, _matching_configs stubbed (C55 decides them)")
    for kind, nfs in (("evolve", (3, 4, 5, 6)), ("match", (3, 4, 5))):
        for nf in nfs:
            for qed_order in (0, 1, 2):
                qed = qed_order > 0
                kw = {"kind": kind, "nf": nf, "qed_order": qed_order, "g": g}
                tag = "runner.parts.%s (nf=%d, order=(2,%d), grid %d)" % (kind, nf, qed_order, g)
                key = "runner.parts.%s[%s]:qed-flag" % (kind, _tag(qed))

                def run(kind=kind, nf=nf, qed_order=qed_order, qed=qed, kw=kw, tag=tag, key=key):
                    holder = []

                    def factory():
                        holder.append(O.SymMembers(member, g))
                        return holder[-1]

                    parts, restore = _parts_env(factory)
                    try:
                        val, _err = _parts_call(parts, kind, nf, qed_order)
                    except (SymbolicEscape, EngineError):
                        raise
                    except Exception as e:  # noqa
                        v = failed("%s returns a tensor: raised %s: %s" % (tag, type(e).__name__, e))
                        decide_once(log, v, key=key + ":raises", replay=(MOD, "replay_parts", kw), sampler=_sampler_any)
                        return
                    finally:
                        restore()
                    members = holder[-1]
                    box(members.symbols())
                    blocks = O.blocks_of("physical" if kind == "evolve" else "matching", nf, qed)
                    want = O.oracle_tensor(blocks, nf, nf, qed, g, lambda k, a, b: members[k].value[a, b])
                    for o in range(O.NPID):
                        v = prove_small(O.residuals(val, want, g, o), "%s: tensor[%s] == (R^+ . blockdiag(members) . R)[%s] in the basis selected by the card's QED order, for all member matrices"
                                        % (tag, M.NAMES[o], M.NAMES[o]))
                        decide_once(log, v, key=key, replay=(MOD, "replay_parts", dict(kw, o=o)), sampler=_sampler_any)
                    log.twin("domain")

                _r, pm = explore(run)
                log.path_stats(pm)


def replay_parts(point, kind, nf, qed_order, g, o=None):
    """the real runner.parts.evolve / match on float members (same stand-in for the quadrature objects)"""
    qed = qed_order > 0
    blocks = O.blocks_of("physical" if kind == "evolve" else "matching", nf, qed)
    holder = []

    def run_with(pt):
        def factory():
            holder.append(O.FloatMembers(pt, g))
            return holder[-1]

        parts, restore = _parts_env(factory)
        try:
            return _parts_call(parts, kind, nf, qed_order)
        finally:
            restore()

    try:
        run_with({})
        keys = set(holder[-1]) | {k for k in blocks.values() if k != "id"}
        pt = _point_from(point, {O.mname(k, i, j) for k in keys for i in range(g) for j in range(g)})
        got, _ = run_with(pt)
    except Exception as e:  # noqa
        return {"detail": "runner.parts.%s (nf=%d, order=(2,%d), grid %d) raises %s: %s" % (kind, nf, qed_order, g, type(e).__name__, e)}
    want = O.oracle_float(blocks, nf, nf, qed, g, O.FloatMembers(pt, g))
    return _cmp(got, want, "runner.parts.%s (nf=%d, theory order (2,%d), grid %d)" % (kind, nf, qed_order, g), None)


# ---------------------------------------------------------------------------
# replays: real unpatched code on float members against the reference built by exact linear algebra
# ---------------------------------------------------------------------------
def _cmp(got, want, what, o=None):
    import numpy as np

    if not np.all(np.isfinite(got)):
        return {"detail": "%s: tensor contains nan/inf" % what}
    d = np.abs(got - want)
    if o is not None:
        d = d[o]
    if d.max() > 1e-8 * max(1.0, float(np.abs(want).max())):
        idx = np.unravel_index(np.argmax(np.abs(got - want)), got.shape)
        return {"detail": "%s: tensor[out=%s, %d, in=%s, %d] = %r, change of basis of the evolution-basis operator gives %r (max deviation %.3e)"
                          % (what, M.NAMES[idx[0]], idx[1], M.NAMES[idx[2]], idx[3], float(got[idx]), float(want[idx]), float(np.abs(got - want).max()))}
    return None


def replay_map(point, kind, nf, qed, g, o=None):
    # first pass discovers which members the real map reads, second pass fills them from the point
    blocks = O.blocks_of(kind, nf, qed)
    try:
        _, probe = O.real_tensor(kind, nf, qed, g, {}, fill=0.0)
        keys = set(probe) | {k for k in blocks.values() if k != "id"}
        pt = _point_from(point, {O.mname(k, i, j) for k in keys for i in range(g) for j in range(g)})
        got, members = O.real_tensor(kind, nf, qed, g, pt)
    except Exception as e:  # noqa
        return {"detail": "%s map / to_flavor_basis_tensor (nf=%d, qed=%s, grid %d) raises %s: %s" % (kind, nf, qed, g, type(e).__name__, e)}
    want = O.oracle_float(blocks, nf, nf, qed, g, O.FloatMembers(pt, g))
    return _cmp(got, want, "%s(nf=%d, qed=%s, grid %d)" % (kind, nf, qed, g), None)


def replay_rotated(point, nf, qed, g, inverse, o=None):
    from eko import member
    from eko.evolution_operator import flavors, matching_condition, physical

    mods = (member, physical, matching_condition, flavors)
    blocks = O.blocks_of("matching", nf, qed)
    try:
        probe = O.FloatMembers({}, g)
        _rotated(mods, probe, nf, qed, inverse)
        keys = set(probe) | {k for k in blocks.values() if k != "id"}
        pt = _point_from(point, {O.mname(k, i, j) for k in keys for i in range(g) for j in range(g)})
        prod = _rotated(mods, O.FloatMembers(pt, g), nf, qed, inverse)
        got, _ = prod.to_flavor_basis_tensor(qed)
        rng_ = flavors.get_range(prod.op_members.keys(), qed)
    except Exception as e:  # noqa
        return {"detail": "rotated matching (nf=%d, qed=%s, grid %d, inverse=%s) raises %s: %s" % (nf, qed, g, inverse, type(e).__name__, e)}
    want = O.oracle_float(blocks, nf, nf, qed, g, O.FloatMembers(pt, g))
    return _cmp(got, want, "%s rotated matching operator, %d flavours below the threshold (qed=%s, grid %d, get_range = %r)" % ("inverse" if inverse else "forward", nf, qed, g, rng_), None)


def replay_pairs(point, nf_in, nf_out, qed, o=None):
    import numpy as np
    from eko import member

    labs_in, labs_out = M.basis(nf_in, qed, photon=qed), M.basis(nf_out, qed, photon=qed)
    names = {"e_%s_%s" % (M.vname("t", T), M.vname("i", I)) for T in labs_out for I in labs_in}
    pt = _point_from(point, names)
    ops, blocks, vals = {}, {}, {}
    for T in labs_out:
        for I in labs_in:
            x = float(pt["e_%s_%s" % (M.vname("t", T), M.vname("i", I))])
            ops["%s.%s" % (T, I)] = member.OpMember(np.array([[x]]), np.zeros((1, 1)))
            blocks[(T, I)] = (T, I)
            vals[(T, I)] = Fraction(x)
    try:
        got, _ = member.OperatorBase.promote_names(ops, 1.0).to_flavor_basis_tensor(qed)
    except Exception as e:  # noqa
        return {"detail": "to_flavor_basis_tensor raises %s: %s (nf_in=%d, nf_out=%d, qed=%s)" % (type(e).__name__, e, nf_in, nf_out, qed)}
    want = O.oracle_tensor(blocks, nf_in, nf_out, qed, 1, lambda k, a, b: vals[k])
    W = np.zeros((14, 1, 14, 1))
    for (oo, a, i, b), v in want.items():
        W[oo, a, i, b] = float(v)
    return _cmp(got, W, "all label pairs (nf_in=%d, nf_out=%d, qed=%s)" % (nf_in, nf_out, qed), None)


def main():
    chk = H.Check("C32")
    deep = H.tier() == "thorough"
    chk.bounds = ["label sets produced by PhysicalOperator.ad_to_evol_map (nf 3..6) and MatchingCondition.split_ad_to_evol_map (nf 3..5 below the threshold), QCD and QED: enumerated",
                  "grid size 1 and 2 (thorough: 3); every member entry a real symbol in [-1,1] (the tensor is linear in the members; the code is uniform in the grid index)",
                  "label sets with nf_in != nf_out: forward (rotate_matching(nf+1) @ matching(nf)) and inverse (matching(nf) @ rotate_matching_inverse(nf+1)) rotated matching "
                  "operators built by the real OperatorBase.__matmul__, crossings 4, 5, 6, QCD and QED, grid 2 (thorough: also 1)",
                  "runner.parts.evolve (nf 3..6) and runner.parts.match (thresholds 4..6) with theory QED order 0, 1, 2: the real functions after compute(), grid 1 (thorough: 2)",
                  "thorough: all label pairs T.I over the intrinsic bases for all (nf_in, nf_out) in {3..6}^2, grid size 1",
                  "float weights (1/6, 1/10, ...) read as exact rationals; equality within 1e-12"]
    chk.out_of_claim = ["the error tensor (propagated with the same signed weights; no reference semantics documented)", "rounding beyond 1e-12",
                        "label sets other than those produced by the two maps (quick tier)", "numerical content of the members (Mellin inversion)"]
    chk.stubs = ["op_members: dict that creates a symbolic g x g member for every key the real map reads (error matrix 0)"]
    chk.assumptions = ["harness/flavour_model.py transcribes FlavorSpace.rst, Matching.rst and the docstrings of PhysicalOperator/MatchingCondition correctly (trusted base)"]
    O.modules()
    for g in (1, 2, 3) if deep else (1, 2):
        for qed in (False, True):
            chk.case("physical.%s.nf3-6.g%d" % (_tag(qed), g), case_maps, kind="physical", nfs=(3, 4, 5, 6), qed=qed, g=g)
            chk.case("matching.%s.nf3-5.g%d" % (_tag(qed), g), case_maps, kind="matching", nfs=(3, 4, 5), qed=qed, g=g)
    for qed in (False, True):
        chk.case("rotated.%s.nf3-5.g2" % _tag(qed), case_rotated, nfs=(3, 4, 5), qed=qed, g=2)
        if deep:
            chk.case("rotated.%s.nf3-5.g1" % _tag(qed), case_rotated, nfs=(3, 4, 5), qed=qed, g=1)
    chk.case("runner.parts.g1", case_parts, g=1)
    if deep:
        chk.case("runner.parts.g2", case_parts, g=2)
    if deep:
        for qed in (False, True):
            for a in (3, 4, 5, 6):
                chk.case("pairs.%s.in%d.out3-6" % (_tag(qed), a), case_pairs_group, nf_in=a, qed=qed)
    return chk.run()


if __name__ == "__main__":
    import sys

    sys.exit(main())
