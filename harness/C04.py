"""C04  Every supported configuration yields a kernel; the others are refused cleanly (dispatch layer).

Real code executed symbolically, per configuration (finite product, enumerated as cases) and per sector label:
  eko.evolution_operator.quad_ker: quad_ker_ad -> quad_ker_qcd / quad_ker_qed, quad_ker_ome, build_ome,
      select_*_element, QuadKerBase.__init__ (mode classification)
  the entry points of ekore.anomalous_dimensions.{unpolarized.space_like, unpolarized.time_like, polarized.space_like}
      and ekore.operator_matrix_elements.{...} (gamma_ns, gamma_singlet, *_qed, choose_ns_ad_*, A_singlet, A_non_singlet)
  eko.scale_variations.exponentiated / expanded (all routines)
  the five dispatchers eko.kernels.{non_singlet, singlet, non_singlet_qed, singlet_qed, valence_qed}.dispatcher,
      non_singlet_qed.exact / fixed_alphaem_exact / contract_gammas / apply_qed, singlet_qed.eko_iterate
  eko.beta at concrete nf, eko.matchings.lepton_number (symbolic scale: both lepton numbers)
Symbolic inside every case: Mellin N, couplings a_s / a_em lists, scales, L_sv, the integrand factor and every
anomalous dimension / operator matrix element (opaque complex symbols of the shape ekore documents).

Goal per path:  the call ends in a value of the documented shape without None, or in NotImplementedError / ValueError with
a message; any other exception type is a violation.  Goal per configuration: configurations inside the documented
availability table give values for every label; configurations outside it are refused (message naming the feature),
the documented exception being time-like matching beyond NLO.
"""
import itertools
import traceback
from fractions import Fraction

import z3

from .common import *  # noqa
from symx.solver import explore, prove_formula, prove_zero
from symx import harness as H
import numpy as realnp

MOD = "harness.C04"
METHODS = ["ITERATE_EXACT", "ITERATE_EXPANDED", "PERTURBATIVE_EXACT", "PERTURBATIVE_EXPANDED", "TRUNCATED", "ORDERED_TRUNCATED",
           "DECOMPOSE_EXACT", "DECOMPOSE_EXPANDED"]
SVS = ["unvaried", "exponentiated", "expanded"]
BACKWARD = ["FORWARD", "BACKWARD_EXACT", "BACKWARD_EXPANDED"]
CLEAN = (NotImplementedError, ValueError)
ITER = 2  # ev_op_iterations used in every case (loops over the coupling lists are exercised twice)
MAXORD = (10, 0)


# ---------------------------------------------------------------------------
# opaque symbolic values
# ---------------------------------------------------------------------------
class Fresh:
    """fresh complex symbols, numbered per path (the context is reset before each path, the numbering with it)"""

    def __init__(self):
        self.n = 0

    def cx(self, tag):
        self.n += 1
        return Cx(SR.var("%s%d_re" % (tag, self.n)), SR.var("%s%d_im" % (tag, self.n)))

    def re(self, tag):
        self.n += 1
        return SR.var("%s%d" % (tag, self.n))

    def arr(self, tag, shape, real=False):
        one = self.re if real else self.cx
        if not shape:
            return one(tag)
        a = realnp.empty(shape, dtype=object)
        for idx in realnp.ndindex(shape):
            a[idx] = one(tag)
        return a


FR = Fresh()


def _leaf_shape(modname, name):
    """shape ekore documents for the per-order ingredients"""
    if name.startswith("A_"):
        return (3, 3) if "singlet" in name and "non" not in name else (2, 2)
    qed_mod = modname in ("aem1", "as1aem1", "aem2")
    if name.endswith("singlet_qed") or (qed_mod and name == "gamma_singlet"):
        return (4, 4)
    if name.endswith("valence_qed") or (qed_mod and name == "gamma_valence"):
        return (2, 2)
    if name == "gamma_singlet":
        return (2, 2)
    return ()


class Leaves:
    """Stands for a per-order ekore module (as1, as2, ..., as4.fhmruvv): every function returns opaque symbols of
    the documented shape.  Calls are recorded for the shape validation against the real functions."""

    CALLS = {}

    def __init__(self, real, path):
        self._real, self._path = real, path

    def __getattr__(self, name):
        real = getattr(self._real, name)
        if not callable(real):
            return Leaves(real, self._path + "." + name)
        modname = self._path.split(".")[-1]
        shape = _leaf_shape(modname if modname != "fhmruvv" else "as4", name)

        def leaf(*args, **kw):
            for a in list(args) + list(kw.values()):
                if a is None:
                    raise TypeError("%s.%s called with None" % (self._path, name))
            Leaves.CALLS.setdefault((self._path, name), (args, kw))
            return FR.arr("g", shape, real=True)

        return leaf


def _stub_leaves(mod, path):
    for sub in ("as1", "as2", "as3", "as4", "aem1", "aem2", "as1aem1"):
        if hasattr(mod, sub):
            setattr(mod, sub, Leaves(getattr(mod, sub), path + "." + sub))


# ---------------------------------------------------------------------------
# kernel bodies below the dispatchers: stand-ins that read their arguments the way the real kernels do
# ---------------------------------------------------------------------------
def _num(x):
    return x + 0  # None / arrays of the wrong kind fail here exactly like in the kernels' arithmetic


def _kernel(name, shape, depth, takes_beta=True):
    """depth: how many orders of gamma / beta the real kernel reads (None: order[0] from its `order` argument)"""

    def stub(gamma, a1, a0, beta, *rest):
        d = depth if depth is not None else rest[0][0]
        for k in range(d):
            g = gamma[k]
            if shape and realnp.shape(g) != shape:
                raise EngineError("%s: gamma[%d] has shape %r, kernel contract wants %r" % (name, k, realnp.shape(g), shape))
            if takes_beta:
                _num(beta[k])
        _num(a1), _num(a0)
        if not takes_beta:
            _num(beta)  # nf
        return FR.arr("K", shape)

    stub.__name__ = name
    return stub


def _install_kernel_stubs(ns, sg, qed_s):
    for name, d in (("lo_exact", 1), ("nlo_exact", 2), ("nlo_expanded", 2), ("nnlo_exact", 3), ("nnlo_expanded", 3), ("n3lo_exact", 4),
                    ("n3lo_expanded", 4), ("eko_ordered_truncated", None), ("eko_truncated", None)):
        setattr(ns, name, _kernel("non_singlet." + name, (), d))
    for name, d, tb in (("lo_exact", 1, True), ("nlo_decompose_exact", 2, True), ("nlo_decompose_expanded", 2, True),
                        ("nnlo_decompose_exact", 3, True), ("nnlo_decompose_expanded", 3, True), ("n3lo_decompose_exact", 4, False),
                        ("n3lo_decompose_expanded", 4, False), ("eko_iterate", None, True), ("eko_perturbative", None, True),
                        ("eko_truncated", None, True)):
        setattr(sg, name, _kernel("singlet." + name, (2, 2), d, tb))

    class _AD:
        """ekore.anomalous_dimensions inside singlet_qed: exp_matrix wraps LAPACK eig -> opaque (exp, eigenvalues, projectors)"""

        def __init__(self, real):
            self._real = real

        def __getattr__(self, n):
            return getattr(self._real, n)

        @staticmethod
        def exp_matrix(m):
            dim = realnp.shape(m)[0]
            if realnp.shape(m) != (dim, dim):
                raise EngineError("exp_matrix on a non-square array")
            for e in m.flat:
                _num(e)
            return FR.arr("X", (dim, dim)), FR.arr("w", (dim,)), FR.arr("P", (dim, dim, dim))

    qed_s.ad = _AD(qed_s.ad)


# ---------------------------------------------------------------------------
# module set-up (once per worker)
# ---------------------------------------------------------------------------
_ENV = {}


def env():
    if _ENV:
        return _ENV
    qk = sym_module("eko.evolution_operator.quad_ker")
    ns = sym_module("eko.kernels.non_singlet")
    sg = sym_module("eko.kernels.singlet")
    qns = sym_module("eko.kernels.non_singlet_qed")
    qs = sym_module("eko.kernels.singlet_qed")
    qv = sym_module("eko.kernels.valence_qed")
    ex = sym_module("eko.scale_variations.exponentiated")
    xp = sym_module("eko.scale_variations.expanded")
    ads = {}
    for key, name in (("ad_us", "ekore.anomalous_dimensions.unpolarized.space_like"), ("ad_ut", "ekore.anomalous_dimensions.unpolarized.time_like"),
                      ("ad_ps", "ekore.anomalous_dimensions.polarized.space_like"), ("ome_us", "ekore.operator_matrix_elements.unpolarized.space_like"),
                      ("ome_ut", "ekore.operator_matrix_elements.unpolarized.time_like"), ("ome_ps", "ekore.operator_matrix_elements.polarized.space_like")):
        m = sym_module(name)
        _stub_leaves(m, key)
        ads[key] = m
    _install_kernel_stubs(ns, sg, qs)

    class KerBase(qk.QuadKerBase):
        """the real mode classification (__init__), with the Mellin path / interpolation part replaced by symbols"""

        @property
        def n(self):
            return Cx(SR.var("N_re"), SR.var("N_im"))

        def integrand(self, areas):
            x = SR.var("integrand")
            assume(x, "!=0")
            return x

    qk.QuadKerBase = KerBase
    _ENV.update(qk=qk, ns=ns, sg=sg, qns=qns, qs=qs, qv=qv, ex=ex, xp=xp, KerBase=KerBase, **ads)
    return _ENV


def encoded(log):
    e = env()
    qk = e["qk"]
    log.encode(qk.quad_ker_ad, qk.quad_ker_qcd, qk.quad_ker_qed, qk.quad_ker_ome, qk.build_ome, qk.select_singlet_element,
               qk.select_QEDsinglet_element, qk.select_QEDvalence_element, e["ns"].dispatcher, e["sg"].dispatcher, e["qns"].dispatcher,
               e["qns"].exact, e["qns"].fixed_alphaem_exact, e["qs"].dispatcher, e["qs"].eko_iterate, e["qv"].dispatcher,
               e["ex"].gamma_variation, e["ex"].gamma_variation_qed, e["xp"].non_singlet_variation, e["xp"].singlet_variation,
               e["xp"].non_singlet_variation_qed, e["xp"].singlet_variation_qed, e["xp"].valence_variation_qed,
               e["ad_us"].gamma_ns, e["ad_us"].gamma_singlet, e["ad_us"].gamma_ns_qed, e["ad_us"].gamma_singlet_qed, e["ad_us"].gamma_valence_qed,
               e["ad_ut"].gamma_ns, e["ad_ut"].gamma_singlet, e["ad_ps"].gamma_ns, e["ad_ps"].gamma_singlet,
               e["ome_us"].A_singlet, e["ome_us"].A_non_singlet, e["ome_ut"].A_singlet, e["ome_ut"].A_non_singlet, e["ome_ps"].A_singlet, e["ome_ps"].A_non_singlet)


# ---------------------------------------------------------------------------
# labels (from the real Operator / OperatorMatrixElement properties)
# ---------------------------------------------------------------------------
def evolution_labels(order):
    from eko.evolution_operator import Operator

    op = Operator.__new__(Operator)
    op.order = tuple(order)
    op.config = {"debug_skip_singlet": False, "debug_skip_non_singlet": False}
    return list(op.labels)


def matching_labels():
    from eko.evolution_operator.operator_matrix_element import OperatorMatrixElement

    op = OperatorMatrixElement.__new__(OperatorMatrixElement)
    op.config = {"debug_skip_singlet": False, "debug_skip_non_singlet": False}
    return list(op.labels)


QUICK_QED_SINGLET = {(21, 21), (22, 101), (100, 22), (101, 100)}


# ---------------------------------------------------------------------------
# documented availability (the oracle): None = supported, else keywords one of which the refusal has to name
# ---------------------------------------------------------------------------
def expected_refusal_evolution(cfg):
    """None (supported) or (keywords, scope): scope 'all' = the missing ingredient is needed by every sector, so every label
    has to refuse; 'any' = the configuration as a whole is refused (the QED non-singlet kernel has a single solution and
    ignores the method, the singlet and valence sectors of the same run refuse)"""
    o = cfg["order"]
    if o[1] == 0:
        if cfg["pol"] and cfg["tl"]:
            return ["olarized", "ime-like", "ime_like"], "all"  # doc: no polarized time-like evolution
        if cfg["pol"] and o[0] >= 4:
            return ["olarized"], "all"  # doc/theory/pQCD.rst: polarized splitting kernels up to NNLO
        if cfg["tl"] and o[0] >= 4:
            return ["ime-like", "ime_like", "imelike", "ime like"], "all"  # doc/theory/TimeLike.rst: time-like anomalous dimensions up to NNLO
        return None
    if cfg["method"] != "ITERATE_EXACT":
        return ["iterate-exact", "QED"], "any"  # singlet_qed / valence_qed: only iterate-exact with QED
    return None


def expected_refusal_matching(cfg):
    k = cfg["order"][0]
    if cfg["pol"] and cfg["tl"]:
        return ["olarized", "ime-like", "ime_like"], "all"
    if cfg["pol"] and k >= 3:
        return ["olarized"], "all"  # doc/theory/Matching.rst: polarized matching up to NNLO
    return None  # time-like beyond NLO: documented exception (unknown, taken as zero)


# ---------------------------------------------------------------------------
# one symbolic run = one configuration, one label
# ---------------------------------------------------------------------------
def _value_ok(x, shape=()):
    if x is None:
        return False, "None"
    if shape == ():
        if isinstance(x, realnp.ndarray):
            return False, "array of shape %r where a scalar kernel element is expected" % (x.shape,)
        if not isinstance(x, (SR, Cx, Jet, int, float, complex, Fraction, realnp.number)):
            return False, "object of type %s" % type(x).__name__
        return True, ""
    if not isinstance(x, realnp.ndarray) or x.shape != shape:
        return False, "shape %r instead of %r" % (getattr(x, "shape", None), shape)
    if any(e is None for e in x.flat):
        return False, "None inside the array"
    return True, ""


def _outcome(call, shape=()):
    """('value'|'refused'|'crash', detail)"""
    try:
        out = call()
    except (SymbolicEscape, EngineError, S.PathBudgetExceeded):
        raise
    except CLEAN as e:
        msg = str(e)
        return ("refused", "%s: %s" % (type(e).__name__, msg)) if msg.strip() else ("crash", "%s without a message" % type(e).__name__)
    except Exception as e:  # noqa: BLE001  -- the property is about exactly these
        tb = traceback.extract_tb(e.__traceback__)
        where = "; ".join("%s:%d %s" % (f.filename.split("/src/")[-1], f.lineno, f.name) for f in tb[-3:])
        return ("crash", "%s: %s  [%s]" % (type(e).__name__, e, where))
    ok, why = _value_ok(out, shape)
    return ("value", "") if ok else ("crash", "returned " + why)


def _sym_evolution_inputs():
    as_list = realnp.empty(ITER + 1, dtype=object)
    for i in range(ITER + 1):
        as_list[i] = SR.var("as%d" % i)
        assume(as_list[i], ">0")
    a_half = realnp.empty((ITER, 2), dtype=object)
    for i in range(ITER):
        for j in range(2):
            a_half[i, j] = SR.var("ah%d_%d" % (i, j))
            assume(a_half[i, j], ">0")
    # scales written as squares of positive symbols: the geometric mean np.geomspace takes for the two iteration steps
    # is then a polynomial (no algebraic atom in the solver queries)
    m0, m1, Lsv = SR.var("mu_from"), SR.var("mu_to"), SR.var("Lsv")
    assume(m0, ">0")
    assume(m1, ">0")
    return as_list, a_half, m0 * m0, m1 * m1, Lsv


def run_evolution_label(cfg, label):
    """list of (outcome, detail) over the feasible paths of quad_ker_ad for this configuration and label"""
    e = env()
    qk = e["qk"]
    from eko.kernels import EvoMethods
    from eko.scale_variations import Modes

    def run():
        FR.n = 0
        as_list, a_half, mu0, mu1, Lsv = _sym_evolution_inputs()
        call = lambda: qk.quad_ker_ad(  # noqa: E731
            u=SR.var("u"), order=tuple(cfg["order"]), mode0=label[0], mode1=label[1], ev_method=EvoMethods[cfg["method"]], is_log=True,
            logx=SR.var("logx"), areas=None, as_list=as_list, mu2_from=mu0, mu2_to=mu1, a_half=a_half, alphaem_running=cfg["running"],
            nf=SR(cfg["nf"]), Lsv=Lsv, ev_op_iterations=ITER, ev_op_max_order=MAXORD, sv_mode=Modes[cfg["sv"]], is_threshold=cfg["thr"],
            n3lo_ad_variation=(0, 0, 0, 0, 0, 0, 0), is_polarized=cfg["pol"], is_time_like=cfg["tl"], use_fhmruvv=cfg["fhm"])
        kind, detail = _outcome(call)
        v = prove_formula(z3.BoolVal(kind != "crash"), "quad_ker_ad %s label %s: ends in a value or a clean refusal" % (cfg_tag(cfg), label))
        return kind, detail, v

    res, pm = explore(run, max_paths=64)
    return res, pm


def run_matching_label(cfg, label):
    e = env()
    qk = e["qk"]
    from eko.scale_variations import Modes

    def run():
        FR.n = 0
        a_s, L, Lsv = SR.var("a_s"), SR.var("L"), SR.var("Lsv")
        assume(a_s, ">0")
        call = lambda: qk.quad_ker_ome(  # noqa: E731
            u=SR.var("u"), order=tuple(cfg["order"]), mode0=label[0], mode1=label[1], is_log=True, logx=SR.var("logx"), areas=None, a_s=a_s,
            nf=SR(cfg["nf"]), L=L, sv_mode=Modes[cfg["sv"]], Lsv=Lsv, backward_method=qk.MatchingMethods[cfg["backward"]], is_msbar=cfg["msbar"],
            is_polarized=cfg["pol"], is_time_like=cfg["tl"])
        kind, detail = _outcome(call)
        v = prove_formula(z3.BoolVal(kind != "crash"), "quad_ker_ome %s label %s: ends in a value or a clean refusal" % (cfg_tag(cfg), label))
        return kind, detail, v

    res, pm = explore(run, max_paths=64)
    return res, pm


def cfg_tag(cfg):
    return ",".join("%s=%s" % (k, cfg[k]) for k in sorted(cfg))


def _decide(log, v, key, rp):
    if not v.holds and any(x["key"] == key for x in log.violations):
        log.obligations.append({"case": log.case, "what": v.what, "status": v.status, "time_s": round(v.time, 4), "residual_terms": v.nterms})
        return False
    return log.decide(v, key=key, replay=rp, candidates=[{}], sampler=None)


def _ok(log, v):
    log.ok(v)
    if not v.holds:
        log.inconclusive.append("%s: solver answered %s on a path whose outcome is acceptable (path condition not closed)" % (v.what, v.status))


def _crash_key(fn, detail):
    """key = entry point + exception type + innermost frame `file function` (stable across the configurations that hit
    the same defect, independent of line numbers)"""
    exc = detail.split(":")[0].strip()
    where = "value"
    if "[" in detail:
        last = detail.rsplit("[", 1)[-1].rstrip("]").split("; ")[-1]  # "eko/kernels/x.py:123 func"
        parts = last.split(" ")
        where = parts[0].split(":")[0] + ":" + parts[-1]
    return "%s:%s@%s" % (fn, exc.replace(" ", "_"), where)


def check_config(log, cfg, kind, quick):
    """all labels of one configuration + the configuration-level availability verdict"""
    if kind == "evolution":
        labels = evolution_labels(cfg["order"])
        if quick and cfg["order"][1] > 0:
            labels = [l for l in labels if l[0] not in (21, 22, 100, 101) or l in QUICK_QED_SINGLET]
        runner, expect, fn, rfn = run_evolution_label, expected_refusal_evolution(cfg), "quad_ker_ad", "replay_evolution"
    else:
        labels = matching_labels()
        runner, expect, fn, rfn = run_matching_label, expected_refusal_matching(cfg), "quad_ker_ome", "replay_matching"
    refused, values = [], 0
    for label in labels:
        res, pm = runner(cfg, label)
        log.path_stats(pm)
        for kind_, detail, v in res:
            rp = (MOD, rfn, {"cfg": cfg, "label": list(label)})
            if kind_ == "crash":
                v.what += "  -- " + detail
                _decide(log, v, _crash_key(fn, detail), rp)
            else:
                _ok(log, v)
                if kind_ == "refused":
                    refused.append((label, detail))
                else:
                    values += 1
    # configuration-level verdict against the documented availability
    tag = cfg_tag(cfg)
    rp = (MOD, rfn + "_config", {"cfg": cfg})
    if expect is None:
        good = not refused
        what = "%s %s is inside the documented availability: every label yields a kernel" % (fn, tag)
        if not good:
            what += "  -- refused: %s %s" % refused[0]
        key = "%s:supported-but-refused" % fn
    else:
        words, scope = expect
        named = [l for l, d in refused if any(k in d for k in words)]
        nlab = len(set(labels))
        good = bool(named) and (scope == "any" or (values == 0 and len(set(named)) == nlab))
        what = "%s %s is outside the documented availability: %s with an error naming the feature" % (fn, tag, "every label refused" if scope == "all" else "refused")
        if not good:
            what += "  -- " + ("refusals do not name it: %s" % refused[0][1] if refused and not named else "%d label paths returned kernels, %d of %d labels refused" % (values, len(set(named)), nlab))
        key = "%s:%s-not-refused" % (fn, _feature(cfg, kind))
    v = prove_formula(z3.BoolVal(good), what)
    if good:
        _ok(log, v)
    else:
        _decide(log, v, key, rp)


def _feature(cfg, kind):
    if cfg.get("pol") and cfg.get("tl"):
        return "polarized-time_like"
    if cfg.get("pol"):
        return "polarized-order%d" % cfg["order"][0]
    if cfg.get("tl"):
        return "time_like-order%d" % cfg["order"][0]
    return "qed-%s" % cfg.get("method")


def case_configs(log, kind, cfgs, quick):
    encoded(log)
    for cfg in cfgs:
        check_config(log, cfg, kind, quick)
    ctx.reset()
    x = SR.var("as0")
    assume(x, ">0")
    log.twin("domain")
    log.assume("N complex symbol; couplings and scales positive; integrand factor non-zero (the zero case returns 0.0 before any dispatch: case `direct`)")
    log.assume("ev_op_iterations = %d, ev_op_max_order = %r in every configuration" % (ITER, MAXORD))


# ---------------------------------------------------------------------------
# direct calls: dispatchers and build_ome on their own, early return of quad_ker_*, leaf-shape validation
# ---------------------------------------------------------------------------
def case_direct(log):
    encoded(log)
    e = env()
    qk, ns, sg, qns, qs, qv = (e[k] for k in ("qk", "ns", "sg", "qns", "qs", "qv"))
    from eko.kernels import EvoMethods

    def obligation(kind, detail, what, key, rp=None):
        v = prove_formula(z3.BoolVal(kind != "crash"), what)
        if kind == "crash":
            v.what += "  -- " + detail
            _decide(log, v, key, rp)
        else:
            _ok(log, v)

    # build_ome: shapes 2x2 / 3x3, matching orders 1..3, the three strategies
    for dim in (2, 3):
        for k in (1, 2, 3):
            for bm in BACKWARD:
                def run():
                    FR.n = 0
                    A = FR.arr("A", (k, dim, dim), real=True)
                    a_s = SR.var("a_s")
                    assume(a_s, ">0")
                    kind, detail = _outcome(lambda: qk.build_ome(A, (k, 0), a_s, qk.MatchingMethods[bm]), (dim, dim))
                    obligation(kind, detail, "build_ome dim %d matching order %d %s: %dx%d array without None" % (dim, k, bm, dim, dim), "build_ome:%s" % bm, (MOD, "replay_direct", {"fn": "build_ome", "dim": dim, "order": [k, 0], "sel": bm}))
                _r, pm = explore(run, max_paths=16)
                log.path_stats(pm)
    # the dispatchers, every method, orders 1..4 (QED: (1..4, 1..2)); order 5 / QED order 3 must be refused
    for m in METHODS:
        for o in (1, 2, 3, 4, 5):
            def run():
                FR.n = 0
                a1, a0 = SR.var("a1"), SR.var("a0")
                assume(a1, ">0")
                assume(a0, ">0")
                g = FR.arr("g", (o,))
                kind, detail = _outcome(lambda: ns.dispatcher((o, 0), EvoMethods[m], g, a1, a0, SR(4)))
                if o == 5 and kind == "value":
                    kind, detail = "crash", "order (5,0) accepted by the non-singlet dispatcher"
                obligation(kind, detail, "non_singlet.dispatcher order (%d,0) %s" % (o, m), "non_singlet.dispatcher", (MOD, "replay_direct", {"fn": "non_singlet", "dim": 0, "order": [o, 0], "sel": m}))
                G = FR.arr("G", (o, 2, 2))
                kind, detail = _outcome(lambda: sg.dispatcher((o, 0), EvoMethods[m], G, a1, a0, SR(4), ITER, MAXORD), (2, 2))
                obligation(kind, detail, "singlet.dispatcher order (%d,0) %s" % (o, m), "singlet.dispatcher", (MOD, "replay_direct", {"fn": "singlet", "dim": 2, "order": [o, 0], "sel": m}))
            _r, pm = explore(run, max_paths=16)
            log.path_stats(pm)
        for o in itertools.product((1, 2, 3, 4), (1, 2)):
            def run():
                FR.n = 0
                as_list, a_half, mu0, mu1, _L = _sym_evolution_inputs()
                for disp, dim in ((qs.dispatcher, 4), (qv.dispatcher, 2)):
                    G = FR.arr("G", (o[0] + 1, o[1] + 1, dim, dim))
                    kind, detail = _outcome(lambda: disp(o, EvoMethods[m], G, as_list, a_half, SR(4), ITER, MAXORD), (dim, dim))
                    obligation(kind, detail, "%s order %s %s" % (disp.__module__.split(".")[-1] + ".dispatcher", o, m), disp.__module__.split(".")[-1] + ".dispatcher",
                               (MOD, "replay_direct", {"fn": disp.__module__.split(".")[-1], "dim": dim, "order": list(o), "sel": m}))
                g = FR.arr("g", (o[0] + 1, o[1] + 1))
                kind, detail = _outcome(lambda: qns.dispatcher(o, EvoMethods[m], g, as_list, a_half[:, 1], True, SR(4), ITER, mu0, mu1))
                obligation(kind, detail, "non_singlet_qed.dispatcher order %s %s" % (o, m), "non_singlet_qed.dispatcher", (MOD, "replay_direct", {"fn": "non_singlet_qed", "dim": 0, "order": list(o), "sel": m}))
            _r, pm = explore(run, max_paths=16)
            log.path_stats(pm)
    # early return: integrand exactly zero
    real_integrand = e["KerBase"].integrand
    try:
        e["KerBase"].integrand = lambda self, areas: 0.0
        cfg = dict(order=(2, 0), method="TRUNCATED", sv="unvaried", thr=False, pol=False, tl=False, running=True, fhm=True, nf=4)
        res, pm = run_evolution_label(cfg, (100, 21))
        log.path_stats(pm)
        for kind, detail, v in res:
            v.what = "quad_ker_ad with vanishing integrand returns 0.0 before dispatching"
            (_ok(log, v) if kind == "value" else _decide(log, v, "quad_ker_ad:zero-integrand", None))
    finally:
        e["KerBase"].integrand = real_integrand
    log.twin("direct")
    _validate_leaf_shapes(log)


# ---------------------------------------------------------------------------
# the step of the runner that feeds the matching dispatch: runner.parts.match on a card with three DIFFERENT symbolic
# matching ratios -- every heavy quark 4..6, both directions: a value (no unrelated exception) and the logarithm handed to
# OperatorMatrixElement is the one of the quark being crossed
# ---------------------------------------------------------------------------
def _runner_match_env(parts, records):
    import types

    saved = {k: getattr(parts, k) for k in ("ome", "matching_condition", "_managers", "_matching_configs", "Operator")}

    class _Ome:
        def __init__(self, config, managers, nf, q2, is_backward, L, is_msbar):
            records.append({"nf": nf, "q2": q2, "is_backward": is_backward, "L": L, "is_msbar": is_msbar})
            self.nf, self.op_members = nf, {}

        def compute(self):
            pass

    class _Map:
        def to_flavor_basis_tensor(self, qed):
            return ("res", "err")

    parts.ome = types.SimpleNamespace(OperatorMatrixElement=_Ome)
    parts.matching_condition = types.SimpleNamespace(MatchingCondition=types.SimpleNamespace(split_ad_to_evol_map=lambda *a: _Map()))
    parts._managers = lambda eko: None
    parts._matching_configs = lambda eko: {}
    parts.Operator = lambda res, err: (res, err)

    def restore():
        for k, v in saved.items():
            setattr(parts, k, v)

    return restore


def _runner_match_call(parts, ratios, hq, inverse, scheme="POLE"):
    import types
    from eko.io.items import Matching
    from eko.quantities.heavy_quarks import QuarkMassScheme

    heavy = types.SimpleNamespace(squared_ratios=list(ratios), masses_scheme=QuarkMassScheme[scheme])
    eko_ = types.SimpleNamespace(theory_card=types.SimpleNamespace(order=(3, 0), heavy=heavy), operator_card=None)
    return parts.match(eko_, Matching(scale=10.0, hq=hq, inverse=inverse))


def case_runner_match(log):
    parts = sym_module("eko.runner.parts")
    log.encode(parts.match)
    log.assume("runner.parts.match: OperatorMatrixElement replaced by a recorder of its constructor arguments, the flavour blow-up by a constant (C32 decides it)")
    for hq in (4, 5, 6):
        for inverse in (False, True):
            rp = (MOD, "replay_runner_match", {"hq": hq, "inverse": inverse})

            def run(hq=hq, inverse=inverse, rp=rp):
                ks = [SR.var("kthr%d" % q) for q in (4, 5, 6)]
                for k in ks:
                    assume(k, ">0")
                records = []
                restore = _runner_match_env(parts, records)
                try:
                    kind, detail = _outcome(lambda: (_runner_match_call(parts, ks, hq, inverse), SR(0))[1])
                finally:
                    restore()
                tag = "runner.parts.match hq=%d inverse=%s, three symbolic matching ratios" % (hq, inverse)
                v = prove_formula(z3.BoolVal(kind != "crash"), "%s: ends in an operator or a clean refusal%s" % (tag, "  -- " + detail if kind == "crash" else ""))
                if kind == "crash":
                    _decide(log, v, _crash_key("runner.parts.match", detail), rp)
                    return
                _ok(log, v)
                if kind == "value":
                    good = len(records) == 1 and records[0]["nf"] == hq - 1
                    _decide(log, prove_formula(z3.BoolVal(good), "%s: one matching element with nf = hq - 1 below the threshold (got %r)" % (tag, [r["nf"] for r in records])), "runner.parts.match:nf", rp)
                    if records:
                        want = parts.np.log(ks[hq - 4])
                        _decide(log, prove_zero(SR(0) + records[0]["L"] - want, "%s: L handed to the matching element == ln(ratio of quark %d)" % (tag, hq)), "runner.parts.match:L", rp)
                log.twin("domain")

            _r, pm = explore(run, max_paths=8)
            log.path_stats(pm)


def replay_runner_match(point, hq, inverse):
    """the real runner.parts.match (constructor of the matching element recorded) on ratios (1.2, 1.5, 2.0)"""
    import importlib
    import math

    parts = importlib.import_module("eko.runner.parts")
    ratios, records = [1.2, 1.5, 2.0], []
    restore = _runner_match_env(parts, records)
    try:
        try:
            _runner_match_call(parts, ratios, hq, inverse)
        except (NotImplementedError, ValueError) as e:
            return None if str(e).strip() else {"detail": "runner.parts.match hq=%d: %s without a message" % (hq, type(e).__name__)}
        except Exception as e:  # noqa
            return {"detail": "runner.parts.match(hq=%d, inverse=%s) with matching ratios^2 %r raises %s: %s" % (hq, inverse, ratios, type(e).__name__, e)}
    finally:
        restore()
    if len(records) != 1 or records[0]["nf"] != hq - 1:
        return {"detail": "runner.parts.match(hq=%d): matching elements built with nf %r, expected [%d]" % (hq, [r["nf"] for r in records], hq - 1)}
    if abs(float(records[0]["L"]) - math.log(ratios[hq - 4])) > 1e-12:
        return {"detail": "runner.parts.match(hq=%d, inverse=%s) with matching ratios^2 %r hands L = %r to the matching element, ln of quark %d's ratio is %r"
                          % (hq, inverse, ratios, float(records[0]["L"]), hq, math.log(ratios[hq - 4]))}
    return None


def _validate_leaf_shapes(log):
    """translator validation: the shapes assumed for the per-order ekore functions are those the real functions return"""
    import numpy as np
    from ekore.harmonics import cache as c

    # make sure every leaf has been called at least once
    e = env()
    n = Cx(SR.var("N_re"), SR.var("N_im"))
    ctx.reset()
    for o in ((4, 0),):
        for fh in (True, False):
            for mode in (10101, 10201, 10200):
                e["ad_us"].gamma_ns(o, mode, n, SR(4), (0,) * 7, fh)
            e["ad_us"].gamma_singlet(o, n, SR(4), (0,) * 7, fh)
    for mode in (10102, 10103, 10202, 10203):
        for fh in (True, False):
            e["ad_us"].gamma_ns_qed((4, 2), mode, n, SR(4), (0,) * 7, fh)
    for fh in (True, False):
        e["ad_us"].gamma_singlet_qed((4, 2), n, SR(4), (0,) * 7, fh)
        e["ad_us"].gamma_valence_qed((4, 2), n, SR(4), (0,) * 7, fh)
    for mode in (10101, 10201, 10200):
        e["ad_ut"].gamma_ns((3, 0), mode, n, SR(4))
        e["ad_ps"].gamma_ns((3, 0), mode, n, SR(4))
    e["ad_ut"].gamma_singlet((3, 0), n, SR(4))
    e["ad_ps"].gamma_singlet((3, 0), n, SR(4))
    L = SR.var("L")
    e["ome_us"].A_singlet((3, 0), n, SR(4), L, True)
    e["ome_us"].A_non_singlet((3, 0), n, SR(4), L)
    e["ome_ut"].A_singlet((3, 0), n, L)
    e["ome_ut"].A_non_singlet((3, 0), n, L)
    e["ome_ps"].A_singlet((2, 0), n, SR(4), L)
    e["ome_ps"].A_non_singlet((2, 0), n, L)
    N = complex(2.5, 0.4)
    real_cache = None
    for (path, name), (args, kw) in sorted(Leaves.CALLS.items()):
        key, *subs = path.split(".")
        obj = real_module(env()[key].__name__)
        for s_ in subs:
            obj = getattr(obj, s_)
        real = getattr(obj, name)

        def conc(a):
            if isinstance(a, Cx):
                return N
            if isinstance(a, SR):
                return int(a.const_value()) if a.is_const() else 0.3
            if isinstance(a, np.ndarray) and a.dtype != object:
                return c.reset()
            return a

        try:
            out = real(*[conc(a) for a in args], **{k: conc(v) for k, v in kw.items()})
        except Exception as ex:  # noqa: BLE001
            log.inconclusive.append("leaf validation: real %s.%s failed on concrete input: %s: %s" % (path, name, type(ex).__name__, ex))
            continue
        modname = path.split(".")[-1]
        want = _leaf_shape(modname if modname != "fhmruvv" else "as4", name)
        if np.shape(out) != want:
            log.inconclusive.append("leaf validation: %s.%s returns shape %r, stub assumes %r" % (path, name, np.shape(out), want))
        log.validate()


# ---------------------------------------------------------------------------
# replays: the REAL code (real QuadKerBase, real ekore) on concrete inputs, judged by the availability table
# ---------------------------------------------------------------------------
def _classify_real(call):
    import numpy as np

    try:
        out = call()
    except CLEAN as e:
        return ("refused", "%s: %s" % (type(e).__name__, e)) if str(e).strip() else ("crash", "%s without a message" % type(e).__name__)
    except Exception as e:  # noqa: BLE001
        tb = traceback.extract_tb(e.__traceback__)
        where = "; ".join("%s:%d %s" % (f.filename.split("/src/")[-1], f.lineno, f.name) for f in tb[-3:])
        return "crash", "%s: %s  [%s]" % (type(e).__name__, e, where)
    if out is None or (isinstance(out, np.ndarray) and (out.dtype == object)):
        return "crash", "returned %r" % (out,)
    return "value", repr(out)


def _real_evolution(cfg, label, point):
    import numpy as np
    import importlib

    qk = importlib.import_module("eko.evolution_operator.quad_ker")
    from eko.interpolation import InterpolatorDispatcher, XGrid
    from eko.kernels import EvoMethods
    from eko.scale_variations import Modes

    xg = XGrid(np.array([0.1, 0.4, 1.0]), log=True)
    areas = list(InterpolatorDispatcher(xg, 1))[1].areas_representation
    as_list = np.array([0.030, 0.025, 0.021][: ITER + 1])
    a_half = np.array([[0.027, 0.00062], [0.023, 0.00063]][:ITER])
    mu2_to = _f(point, "mu_to", 10.0) ** 2
    mu2_from = _f(point, "mu_from", 3.0) ** 2
    return lambda: qk.quad_ker_ad(
        u=0.6, order=tuple(cfg["order"]), mode0=label[0], mode1=label[1], ev_method=EvoMethods[cfg["method"]], is_log=True, logx=float(np.log(0.3)),
        areas=areas, as_list=as_list, mu2_from=mu2_from, mu2_to=mu2_to, a_half=a_half, alphaem_running=cfg["running"], nf=cfg["nf"],
        Lsv=_f(point, "Lsv", 0.69), ev_op_iterations=ITER, ev_op_max_order=MAXORD, sv_mode=Modes[cfg["sv"]], is_threshold=cfg["thr"],
        n3lo_ad_variation=(0, 0, 0, 0, 0, 0, 0), is_polarized=cfg["pol"], is_time_like=cfg["tl"], use_fhmruvv=cfg["fhm"])


def _real_matching(cfg, label, point):
    import numpy as np
    import importlib

    qk = importlib.import_module("eko.evolution_operator.quad_ker")
    from eko.interpolation import InterpolatorDispatcher, XGrid
    from eko.scale_variations import Modes

    xg = XGrid(np.array([0.1, 0.4, 1.0]), log=True)
    areas = list(InterpolatorDispatcher(xg, 1))[1].areas_representation
    return lambda: qk.quad_ker_ome(
        u=0.6, order=tuple(cfg["order"]), mode0=label[0], mode1=label[1], is_log=True, logx=float(np.log(0.3)), areas=areas, a_s=_f(point, "a_s", 0.025),
        nf=cfg["nf"], L=_f(point, "L", 0.3), sv_mode=Modes[cfg["sv"]], Lsv=_f(point, "Lsv", 0.69), backward_method=qk.MatchingMethods[cfg["backward"]],
        is_msbar=cfg["msbar"], is_polarized=cfg["pol"], is_time_like=cfg["tl"])


def _f(point, name, default):
    try:
        v = float(Fraction(point[name])) if name in point else default
    except (ValueError, ZeroDivisionError, TypeError):
        return default
    return v if 1e-3 < abs(v) < 1e4 and (v > 0 or name in ("L", "Lsv")) else default


def replay_evolution(point, cfg, label):
    kind, detail = _classify_real(_real_evolution(cfg, tuple(label), point))
    if kind == "crash":
        return {"detail": "real quad_ker_ad(%s, label=%s): %s" % (cfg_tag(cfg), tuple(label), detail)}
    return None


def replay_matching(point, cfg, label):
    kind, detail = _classify_real(_real_matching(cfg, tuple(label), point))
    if kind == "crash":
        return {"detail": "real quad_ker_ome(%s, label=%s): %s" % (cfg_tag(cfg), tuple(label), detail)}
    return None


def _replay_config(point, cfg, kind):
    labels = evolution_labels(cfg["order"]) if kind == "evolution" else matching_labels()
    expect = expected_refusal_evolution(cfg) if kind == "evolution" else expected_refusal_matching(cfg)
    mk = _real_evolution if kind == "evolution" else _real_matching
    out = [(l, _classify_real(mk(cfg, l, point))) for l in labels]
    crashes = [(l, d) for l, (k, d) in out if k == "crash"]
    if crashes:
        return {"detail": "real code, %s, label %s: %s" % (cfg_tag(cfg), crashes[0][0], crashes[0][1])}
    refused = [(l, d) for l, (k, d) in out if k == "refused"]
    if expect is None:
        if refused:
            return {"detail": "configuration %s lies inside the documented availability but label %s is refused: %s" % (cfg_tag(cfg), refused[0][0], refused[0][1])}
        return None
    words, scope = expect
    named = [l for l, d in refused if any(k in d for k in words)]
    if not named or (scope == "all" and len(named) < len(out)):
        extra = ""
        if kind == "evolution" and cfg["tl"] and cfg["order"][0] >= 4:
            import ekore.anomalous_dimensions.unpolarized.time_like as ut

            g = ut.gamma_ns(tuple(cfg["order"]), 10101, complex(2.5, 0.4), cfg["nf"])
            extra = "; time-like gamma_ns at this order = %r (top coefficient silently %r)" % (list(g), g[-1])
        return {"detail": "configuration %s is documented as unavailable, yet %d labels return kernels and %d are refused%s%s"
                          % (cfg_tag(cfg), len(out) - len(refused), len(refused), (" (" + refused[0][1] + ")") if refused else "", extra)}
    return None


def replay_direct(point, fn, dim, order, sel):
    """the real dispatcher / build_ome on concrete arrays"""
    import importlib

    import numpy as np
    from eko.kernels import EvoMethods

    rng = np.random.default_rng(7)
    order = tuple(order)

    def arr(*shape):
        return rng.uniform(-1, 1, shape) + 1j * rng.uniform(-1, 1, shape)

    as_list, a_half = np.array([0.030, 0.025, 0.021]), np.array([[0.027, 0.00062], [0.023, 0.00063]])
    if fn == "build_ome":
        qk = importlib.import_module("eko.evolution_operator.quad_ker")
        call, shape = (lambda: qk.build_ome(arr(order[0], dim, dim), order, 0.02, qk.MatchingMethods[sel])), (dim, dim)
    elif fn == "non_singlet":
        ns = importlib.import_module("eko.kernels.non_singlet")
        call, shape = (lambda: ns.dispatcher(order, EvoMethods[sel], arr(order[0]), 0.02, 0.03, 4)), ()
    elif fn == "singlet":
        sg = importlib.import_module("eko.kernels.singlet")
        call, shape = (lambda: sg.dispatcher(order, EvoMethods[sel], arr(order[0], 2, 2), 0.02, 0.03, 4, ITER, MAXORD)), (2, 2)
    elif fn in ("singlet_qed", "valence_qed"):
        mod = importlib.import_module("eko.kernels." + fn)
        call, shape = (lambda: mod.dispatcher(order, EvoMethods[sel], arr(order[0] + 1, order[1] + 1, dim, dim), as_list, a_half, 4, ITER, MAXORD)), (dim, dim)
    else:
        mod = importlib.import_module("eko.kernels.non_singlet_qed")
        call, shape = (lambda: mod.dispatcher(order, EvoMethods[sel], arr(order[0] + 1, order[1] + 1), as_list, a_half[:, 1], True, 4, ITER, 10.0, 100.0)), ()
    kind, detail = _classify_real(call)
    if kind == "value":
        out = call()
        if np.shape(out) != shape:
            kind, detail = "crash", "returned shape %r instead of %r" % (np.shape(out), shape)
        elif fn == "non_singlet" and order[0] >= 5:
            kind, detail = "crash", "order %r accepted" % (order,)
    if kind == "crash":
        return {"detail": "real %s%s order %s %s: %s" % (fn, "" if fn == "build_ome" else ".dispatcher", order, sel, detail)}
    return None


def replay_evolution_config(point, cfg):
    return _replay_config(point, cfg, "evolution")


def replay_matching_config(point, cfg):
    return _replay_config(point, cfg, "matching")


# ---------------------------------------------------------------------------
# configuration product
# ---------------------------------------------------------------------------
def evolution_configs(nfs):
    out = []
    for nf in nfs:
        for o0 in (1, 2, 3, 4):
            for m in METHODS:
                for sv in SVS:
                    for thr in (False, True):
                        for pol, tl in ((False, False), (True, False), (False, True), (True, True)):
                            for fhm in ((True, False) if o0 == 4 else (True,)):
                                out.append(dict(order=(o0, 0), method=m, sv=sv, thr=thr, pol=pol, tl=tl, running=True, fhm=fhm, nf=nf))
                        for o1 in (1, 2):
                            for running in (True, False):
                                for fhm in ((True, False) if o0 == 4 else (True,)):
                                    out.append(dict(order=(o0, o1), method=m, sv=sv, thr=thr, pol=False, tl=False, running=running, fhm=fhm, nf=nf))
    return out


def matching_configs(nfs):
    out = []
    for nf in nfs:
        for k in (1, 2, 3):
            for bm in BACKWARD:
                for sv in SVS:
                    for msbar in (False, True):
                        for pol, tl in ((False, False), (True, False), (False, True), (True, True)):
                            out.append(dict(order=(k, 0), backward=bm, sv=sv, msbar=msbar, pol=pol, tl=tl, nf=nf))
    return out


def covering_sample(cfgs, keys, rng, extra=()):
    """greedy pairwise covering sample: every pair of values of two different settings that occurs in the product occurs
    in the sample (plus every configuration matched by `extra` predicates once)"""
    need = set()
    for c in cfgs:
        for a, b in itertools.combinations(keys, 2):
            need.add((a, c[a], b, c[b]))
    pool = list(cfgs)
    rng.shuffle(pool)
    chosen = []
    for pred in extra:
        for c in pool:
            if pred(c):
                chosen.append(c)
                break
    def pairs(c):
        return {(a, c[a], b, c[b]) for a, b in itertools.combinations(keys, 2)}
    for c in chosen:
        need -= pairs(c)
    while need:
        best, gain = None, -1
        for c in pool[:400]:
            g = len(pairs(c) & need)
            if g > gain:
                best, gain = c, g
        if gain <= 0:
            rng.shuffle(pool)
            cand = [c for c in pool if pairs(c) & need]
            if not cand:
                break
            best = cand[0]
        chosen.append(best)
        need -= pairs(best)
        pool.remove(best)
    return chosen


def _chunks(xs, n):
    k = max(1, (len(xs) + n - 1) // n)
    return [xs[i:i + k] for i in range(0, len(xs), k)]


def main():
    import random

    chk = H.Check("C04")
    import eko.evolution_operator.quad_ker, eko.evolution_operator.operator_matrix_element  # noqa: F401,E401  (inherited by the forked workers)
    import ekore.anomalous_dimensions.unpolarized.space_like, ekore.anomalous_dimensions.unpolarized.time_like  # noqa: F401,E401
    import ekore.anomalous_dimensions.polarized.space_like, ekore.operator_matrix_elements.unpolarized.space_like  # noqa: F401,E401
    import ekore.operator_matrix_elements.unpolarized.time_like, ekore.operator_matrix_elements.polarized.space_like  # noqa: F401,E401

    thorough = H.tier() == "thorough"
    quick = not thorough
    nfs = (3, 4, 5, 6) if thorough else (4, 5)
    ev, ma = evolution_configs(nfs), matching_configs(nfs)
    if quick:
        rng = random.Random(H.seed())
        ekeys = ["order", "method", "sv", "thr", "pol", "tl", "running", "fhm", "nf"]
        extra = [lambda c: c["order"][1] > 0 and c["sv"] == "exponentiated" and not c["running"] and c["method"] == "ITERATE_EXACT",
                 lambda c: c["order"] == (4, 0) and c["tl"] and not c["pol"], lambda c: c["order"] == (4, 0) and c["pol"] and not c["tl"],
                 lambda c: c["order"][1] == 2 and c["sv"] == "expanded" and c["method"] == "ITERATE_EXACT" and not c["thr"]]
        ev = covering_sample(ev, ekeys, rng, extra)
        ma = covering_sample(ma, ["order", "backward", "sv", "msbar", "pol", "tl", "nf"], rng)
    chk.exhaustive = thorough
    chk.bounds = [
        "configuration product: QCD order 1-4 x QED order 0-2 x alphaem_running x 8 methods x sv mode {unvaried, exponentiated, expanded} x is_threshold x "
        "(polarized, time_like) for pure QCD x use_fhmruvv at N3LO x nf; matching: order 1-3 x {forward, backward exact, backward expanded} x sv mode x msbar x "
        "(polarized, time_like) x nf.  thorough: full product with nf 3-6 (%s); quick: pairwise covering sample with nf 4,5 (%d evolution + %d matching configurations)"
        % ("%d + %d configurations" % (len(ev), len(ma)) if thorough else "not run in this tier", len(ev), len(ma)),
        "every sector label the real Operator / OperatorMatrixElement.labels yields for the order (quick: 4 of the 16 QED singlet labels covering all rows and columns)",
        "ev_op_iterations = %d, ev_op_max_order = %r, n3lo_ad_variation = (0,)*7" % (ITER, MAXORD),
        "symbolic: Mellin N, coupling lists, scales (both lepton numbers), L_sv, integrand factor, all anomalous dimensions / matrix elements",
    ]
    chk.out_of_claim = [
        "finiteness of floating-point results; the Mellin path and interpolation part of QuadKerBase; scipy quad; the runner above quad_ker (cards, atlas, couplings) except runner.parts.match's hand-over to the matching element (case runner.match)",
        "the arithmetic inside the kernels below the dispatchers (C08-C13) -- replaced by contract stand-ins here",
        "QED evolution with polarized / time_like flags: quad_ker_ad does not pass the flags to quad_ker_qed, so the unpolarized space-like kernel is produced without a refusal (the statement allows a finite result; recorded as an observation)",
        "MSbar mass contributions to the N3LO matching (documented as absent)",
    ]
    chk.stubs = [
        "per-order ekore functions (as1..as4[.fhmruvv], aem1, aem2, as1aem1: gamma_*, A_*) -> opaque complex symbols of the documented shape (shapes validated against the real functions)",
        "kernel bodies below the dispatchers (non_singlet.lo/nlo/nnlo/n3lo_exact/expanded, eko_truncated, eko_ordered_truncated; singlet.lo_exact, *_decompose_*, eko_iterate, "
        "eko_perturbative, eko_truncated) -> stand-ins that read gamma[k], beta[k] for the orders the real kernel reads and return opaque values",
        "ekore.anomalous_dimensions.exp_matrix (LAPACK eig) inside singlet_qed -> opaque (exp, eigenvalues, projectors) of the argument's dimension",
        "QuadKerBase.n / .integrand -> symbols (real __init__ kept)",
    ]
    chk.assumptions = ["documented availability table: polarized AD and matching up to NNLO, time-like AD up to NNLO, time-like matching beyond NLO taken as zero (documented exception), "
                       "no polarized time-like, QED only with iterate-exact (doc/source/theory/{pQCD,TimeLike,Matching}.rst, kernels/singlet_qed.py)"]
    chk.case("direct", case_direct)
    chk.case("runner.match", case_runner_match)
    nchunks = 14
    for i, ch in enumerate(_chunks(ev, nchunks if thorough else 10)):
        chk.case("evolution.%02d" % i, case_configs, kind="evolution", cfgs=ch, quick=quick)
    for i, ch in enumerate(_chunks(ma, 6 if thorough else 3)):
        chk.case("matching.%02d" % i, case_configs, kind="matching", cfgs=ch, quick=quick)
    return chk.run()


if __name__ == "__main__":
    import sys

    sys.exit(main())
